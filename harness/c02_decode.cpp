// C02 — every opcode decodes one way; all consumers agree on its form and length; unused bits are inert.
// Complete over the 65536 first words in every run (opcode % nshards == shard).
// Compiled against /repo (flavour fast) and against /verif/ref (flavour ref, mode "partition" only).
#include <sys/wait.h>
#include <unistd.h>
#include "exec.h"
#include "genstream.h"
#include "parser.h"
#include "teakra/disassembler.h"

using namespace vf;

namespace {

std::string join(const std::vector<std::string>& t) {
    std::string s;
    for (auto& x : t)
        s += x + "|";
    return s;
}

// class representative (smallest opcode with the same recorded form) for every opcode
std::vector<u16> partition(const Encodings& enc) {
    std::map<Form, u16> rep;
    std::vector<u16> out(0x10000);
    for (u32 op = 0; op < 0x10000; ++op) {
        auto it = rep.find(enc.all[op].form);
        if (it == rep.end())
            it = rep.emplace(enc.all[op].form, (u16)op).first;
        out[op] = it->second;
    }
    return out;
}

bool read_all(int fd, void* buf, size_t n) {
    size_t got = 0;
    while (got < n) {
        ssize_t r = read(fd, (char*)buf + got, n - got);
        if (r <= 0)
            return false;
        got += (size_t)r;
    }
    return true;
}

std::vector<u16> ref_partition(const std::string& refbin) {
    std::vector<u16> out;
    int fds[2];
    if (pipe(fds) != 0)
        return out;
    pid_t pid = fork();
    if (pid == 0) {
        close(fds[0]);
        dup2(fds[1], 3);
        execl(refbin.c_str(), refbin.c_str(), "--mode", "partition", "--out", "/dev/null", (char*)nullptr);
        _exit(127);
    }
    close(fds[1]);
    out.resize(0x10000);
    if (!read_all(fds[0], out.data(), out.size() * 2))
        out.clear();
    close(fds[0]);
    int st;
    waitpid(pid, &st, 0);
    return out;
}

// inside the pure program area: words >= 0x20000 alias data memory, a data access there would look like a fetch
const u32 kStarts[] = {0x12345, 0x10000, 0x1ABCD, 0x1FFFC};

struct FetchState {
    CaseState st;
};

CaseState fetch_state(Rng& g, u32 pc0) {
    for (;;) {
        StateGenOpts o;
        o.pc = pc0;
        CaseState s = RandomState(g, o);
        s["pcmhi"] = 0;
        s["pc"] = pc0;
        bool ok = true;
        for (const char* n : {"a[0]", "a[1]", "b[0]", "b[1]"}) {
            u32 low = (u32)(s[n] & 0x3FFFF);
            if (low == pc0 || low == pc0 + 1 || low == pc0 + 2)
                ok = false;
        }
        if (ok)
            return s;
    }
}

} // namespace

int main(int argc, char** argv) {
    Ctx ctx;
    ctx.parse(argc, argv, "C02");
    Encodings enc;

    if (ctx.mode == "partition") { // reference side
        auto p = partition(enc);
        size_t put = 0;
        while (put < p.size() * 2) {
            ssize_t r = write(3, (const char*)p.data() + put, p.size() * 2 - put);
            if (r <= 0)
                return 9;
            put += (size_t)r;
        }
        return 0;
    }

    const unsigned nstates = ctx.thorough ? 32 : 4;
    static const u16 kExp[] = {0x0000, 0x0001, 0x7FFF, 0x8000, 0xFFFF, 0x1234};

    // ---------------------------------------------------------------- 1. single match (table rows)
    bool table_ok = true;
    for (u32 op = 0; op < 0x10000; ++op) {
        if ((int)(op % (u32)ctx.nshards) != ctx.shard)
            continue;
        int n = enc.table.Matches((u16)op);
        ctx.count("opcodes_match_counted");
        if (n > 1) {
            table_ok = false;
            std::string names;
            for (auto& r : enc.table.rows)
                if (r.Matches((u16)op))
                    names += std::string(r.GetName()) + "+";
            ctx.violation("multimatch:" + names, fmt("opcode %04x matches %d table rows (%s)", op, n, names.c_str()), op);
        }
        if (n == 0)
            ctx.count("undefined_opcodes");
    }

    // building the interpreter's own 65536-entry table asserts single match; with H1 that is an exception
    std::unique_ptr<Machine> mp;
    RunResult build = Classify([&] { mp = std::make_unique<Machine>(); });
    if (build.outcome != OK) {
        if (table_ok)
            ctx.violation("interp-table:" + std::string(outcome_name(build.outcome)),
                          "building the interpreter decode table failed: " + build.what, 0);
        ctx.count("cases", 1);
        return ctx.finish();
    }
    Machine& m = *mp;
    std::unique_ptr<Teakra::Parser> parser;
    RunResult pb = Classify([&] { parser = Teakra::GenerateParser(); });
    if (pb.outcome != OK)
        ctx.violation("parser-build:" + std::string(outcome_name(pb.outcome)),
                      "GenerateParser failed (two opcodes with the same text are not bit-supersets?): " + pb.what, 0);

    // ---------------------------------------------------------------- 2+3. form identity and length
    for (u32 op32 = 0; op32 < 0x10000; ++op32) {
        if ((int)(op32 % (u32)ctx.nshards) != ctx.shard)
            continue;
        u16 op = (u16)op32;
        if (!ctx.selected(op))
            continue;
        const Encoding& e = enc.all[op];
        ctx.count("cases");
        const char* iname = InterpHandlerName(op);
        bool iexp = InterpNeedExpansion(op);
        std::string rname = e.form.name;
        if (rname == "undefined")
            rname = "*";
        if (rname != iname || iexp != e.expanded)
            ctx.violation(fmt("form:interp-vs-table:%s", e.form.name),
                          fmt("opcode %04x: interpreter table says %s/%d, decode table says %s/%d", op, iname, iexp,
                              e.form.name, e.expanded),
                          op);
        bool dexp = false;
        RunResult dr = Classify([&] { dexp = Teakra::Disassembler::NeedExpansion(op); });
        if (dr.outcome != OK || dexp != iexp)
            ctx.violation(fmt("length:disassembler:%s", e.form.name),
                          fmt("opcode %04x: Disassembler::NeedExpansion=%d (%s), interpreter matcher=%d", op, dexp,
                              outcome_name(dr.outcome), iexp),
                          op);
        std::vector<std::string> tok;
        Classify([&] { tok = Teakra::Disassembler::GetTokenList(op, 0); });
        bool renderable = !tok.empty();
        for (auto& t : tok)
            if (t.find("[ERROR]") != std::string::npos)
                renderable = false;
        if (renderable && parser) {
            auto r = parser->Parse(tok);
            ctx.count("parser_checked");
            bool pexp = r.status == Teakra::Parser::Opcode::ValidWithExpansion;
            if (r.status == Teakra::Parser::Opcode::Invalid || pexp != iexp)
                ctx.violation(fmt("length:parser:%s", e.form.name),
                              fmt("opcode %04x (%s): parser status %d, interpreter expansion %d", op, join(tok).c_str(),
                                  (int)r.status, iexp),
                              op);
            else if (!(enc.all[r.opcode].form == e.form))
                ctx.violation(fmt("form:parser:%s", e.form.name),
                              fmt("opcode %04x assembles back to %04x which has another form (%s vs %s)", op, r.opcode,
                                  e.form.str().c_str(), enc.all[r.opcode].form.str().c_str()),
                              op);
        } else
            ctx.count("unrenderable_skipped");
        if (std::string(e.form.name) == "undefined")
            continue;

        // observed fetches: two independent states; a spurious/missing fetch must show in both
        Rng g = ctx.case_rng(op);
        u32 pc0 = kStarts[g.below(4)];
        u16 exp = g.pick(kExp);
        if (exp == ((pc0 + 1) & 0xFFFF) || exp == (pc0 & 0xFFFF))
            exp ^= 0x0100;
        // What "consumes a second word" means is decided semantically, not by the shape of the access log (an interpreter
        // may prefetch, re-read or cache program words - instruction fetch has no side effects):
        //   expanded opcode     : the word at pc+1 must be read at some point of the step (it cannot be an operand otherwise),
        //                         pc must not end up at pc+1, and the following step must not execute from pc+1
        //   not expanded opcode : the step must be INDEPENDENT of the word at pc+1 (same final state and same writes for two
        //                         different words there)
        // Each clause must fail from two independent states before it is reported (a movp may legitimately read pc+1).
        int bad_second = 0, bad_next = 0, bad_indep = 0, ran = 0;
        std::string detail;
        for (int rep = 0; rep < 2; ++rep) {
            CaseState s = fetch_state(g, pc0);
            m.clean();
            m.load(s);
            m.prog(pc0, op);
            m.prog(pc0 + 1, exp);
            m.prog(pc0 + 2, 0); // nop
            RunResult r1 = m.run(1);
            auto log1 = m.log();
            bool first = false, second = false;
            for (auto& a : log1) {
                first |= !a.write && a.addr == pc0;
                second |= !a.write && a.addr == pc0 + 1;
            }
            if (first)
                ctx.count("opcode_fetch_seen_in_log");
            if (r1.outcome != OK) {
                ctx.count(std::string("fetchcheck_skipped_") + outcome_name(r1.outcome));
                // the second word is fetched before dispatch, so it is still observable
                if (iexp && !second)
                    ++bad_second;
                ++ran;
                continue;
            }
            ++ran;
            if (iexp && !second) {
                ++bad_second;
                detail = "the word at pc+1 is never read";
            }
            CaseState after1 = m.capture();
            u32 pc1 = m.core.regs.pc;
            if (iexp && pc1 == pc0 + 1)
                ++bad_next;
            if (iexp) {
                // (that the operand word is not executed as an instruction is the pc clause above: the next step starts at pc1)
                ctx.count("second_step_observed");
            } else {
                // independence twin
                std::vector<MemAccess> w1;
                for (auto& a : log1)
                    if (a.write)
                        w1.push_back(a);
                m.clean();
                m.load(s);
                m.prog(pc0, op);
                m.prog(pc0 + 1, (u16)(exp ^ 0x5A5A));
                m.prog(pc0 + 2, 0);
                RunResult r1b = m.run(1);
                CaseState after1b = m.capture();
                std::vector<MemAccess> w2;
                for (auto& a : m.log())
                    if (a.write)
                        w2.push_back(a);
                bool same = r1b.outcome == r1.outcome && Diff(after1, after1b).empty() && w1.size() == w2.size();
                for (size_t i = 0; same && i < w1.size(); ++i)
                    same = w1[i].addr == w2[i].addr && w1[i].value == w2[i].value;
                ctx.count("independence_twins");
                if (!same) {
                    ++bad_indep;
                    detail = "state after the step depends on the word at pc+1: " + Diff(after1, after1b);
                }
            }
        }
        if (ran == 2) {
            if (op % 4099 == (u32)ctx.shard)
                ctx.sample(JObj().hexs("opcode", op).str("form", e.form.str()).num("second_word_needed", iexp).str("text", join(tok))
                               .hexs("start", pc0).hexs("second_word", exp).num("fetch_mismatches", bad_second + bad_indep).done(), 2);
            ctx.count("fetch_observed");
            ctx.seen("nt", e.form.name);
            if (iexp)
                ctx.count("expanded_opcodes");
            if (bad_second == 2)
                ctx.violation(fmt("length:fetch:%s", e.form.name),
                              fmt("opcode %04x: the matcher says it takes a second word, but the interpreter never reads the word at pc+1 (%s)", op, detail.c_str()),
                              op);
            if (bad_indep == 2)
                ctx.violation(fmt("length:fetch:%s", e.form.name),
                              fmt("opcode %04x: the matcher says it is a one-word instruction, but its effect depends on the following program word (%s)", op,
                                  detail.c_str()),
                              op);
            if (bad_next == 2)
                ctx.violation(fmt("length:operand-executed:%s", e.form.name),
                              fmt("opcode %04x: the operand word at %05x is fetched as the next instruction", op, pc0 + 1), op);
        }

        // position twin: the same instruction from the same state at an address in program page 0 and at one in
        // page 1. Afterwards pc is either position-relative (pc1 - pc0 equal in both runs: sequential or a relative
        // branch) or absolute (equal pc1: jump/call/return/computed target). Anything else means the second word was not consumed as the length says (e.g. a pc that
        // loses its upper bits). Must show in two independent states.
        {
            static const u32 kPage0[] = {0x0F345, 0x0FFFD, 0x00400, 0x08001};
            static const u32 kPage1[] = {0x12345, 0x1ABCD, 0x1FFF8, 0x10000};
            int bad_adv = 0, ran2 = 0;
            std::string adv_detail;
            for (int rep = 0; rep < 2; ++rep) {
                u32 pa = kPage0[g.below(4)], pb = kPage1[g.below(4)];
                CaseState s = fetch_state(g, pa);
                bool clash = false;
                for (const char* n : {"a[0]", "a[1]", "b[0]", "b[1]"}) {
                    u32 low = (u32)(s[n] & 0x3FFFF);
                    clash |= low >= pb && low <= pb + 2;
                }
                if (clash)
                    continue;
                u32 after[2];
                bool okrun = true;
                for (int w = 0; w < 2 && okrun; ++w) {
                    u32 at = w ? pb : pa;
                    s["pc"] = at;
                    m.clean();
                    m.load(s);
                    m.prog(at, op);
                    m.prog(at + 1, exp);
                    RunResult r = m.run(1);
                    okrun = r.outcome == OK;
                    after[w] = m.core.regs.pc;
                }
                if (!okrun)
                    continue;
                ++ran2;
                s64 da = (s64)after[0] - (s64)pa, db = (s64)after[1] - (s64)pb;
                u32 len = iexp ? 2 : 1;
                bool relative = da == db, absolute = after[0] == after[1];
                // (a one-word relative branch by +1 also gives a delta of 2, so the delta itself is not compared with the
                // length here: that the second word is read iff the opcode is expanded is decided by the fetch log above)
                bool ok = absolute || relative;
                if (!ok) {
                    ++bad_adv;
                    adv_detail = fmt("pc %05x -> %05x and pc %05x -> %05x (length %u)", pa, after[0], pb, after[1], len);
                }
            }
            if (ran2 == 2) {
                ctx.count("position_twins_observed");
                if (bad_adv == 2)
                    ctx.violation(fmt("length:pc-advance:%s", e.form.name),
                                  fmt("opcode %04x: pc after the instruction is neither position-relative (sequential / relative branch) nor absolute: %s",
                                      op, adv_detail.c_str()),
                                  op);
            }
        }
    }

    // ---------------------------------------------------------------- 4. unused bits
    auto tree_part = partition(enc);
    std::vector<u16> ref_part = ref_partition(ctx.opts["refbin"]);
    if (ref_part.empty()) {
        ctx.note("reference partition unavailable");
        return 3;
    }
    for (int which = 0; which < 2; ++which) {
        const std::vector<u16>& part = which ? ref_part : tree_part;
        std::map<u16, std::vector<u16>> classes;
        for (u32 op = 0; op < 0x10000; ++op)
            classes[part[op]].push_back((u16)op);
        size_t idx = 0;
        for (auto& kv : classes) {
            auto& mem = kv.second;
            if (mem.size() < 2)
                continue;
            if ((int)(idx++ % (size_t)ctx.nshards) != ctx.shard)
                continue;
            u16 rep = kv.first;
            const char* cname = enc.all[rep].form.name;
            if (std::string(cname) == "undefined")
                continue;
            ctx.count(which ? "ref_unused_bit_classes" : "tree_unused_bit_classes");
            ctx.seen("nt", fmt("%s-class:%04x", which ? "ref" : "tree", rep));
            // members beyond 64 are sampled (a class has 2^k members, k = number of unused bits)
            std::vector<u16> pick = mem;
            Rng g = ctx.case_rng(0x100000 + rep + which * 0x10000);
            while (pick.size() > 64)
                pick.erase(pick.begin() + 1 + (long)g.below(pick.size() - 1));
            bool flagged = false;
            for (u16 e16 : kExp) {
                std::string base;
                for (u16 opm : pick) {
                    std::string t;
                    Classify([&] { t = join(Teakra::Disassembler::GetTokenList(opm, e16)); });
                    bool de = Teakra::Disassembler::NeedExpansion(opm);
                    t += de ? "#2" : "#1";
                    if (opm == pick[0])
                        base = t;
                    else if (t != base && !flagged) {
                        flagged = true;
                        ctx.violation(fmt("unused-bits:print:%s", cname),
                                      fmt("opcodes %04x and %04x differ only in unused bits (%s partition) but print '%s' vs '%s'",
                                          pick[0], opm, which ? "reference" : "tree", base.c_str(), t.c_str()),
                                      opm);
                    }
                    ctx.count("unused_print_compared");
                }
            }
            for (unsigned si = 0; si < nstates && !flagged; ++si) {
                u32 pc0 = kStarts[g.below(4)];
                CaseState s = fetch_state(g, pc0);
                u16 e16 = (u16)g.bits(16);
                u64 base = 0;
                std::string based;
                for (u16 opm : pick) {
                    m.clean();
                    m.load(s);
                    m.prog(pc0, opm);
                    m.prog(pc0 + 1, e16);
                    RunResult r = m.run(1);
                    CaseState a = m.capture();
                    u64 h = mix(7, (u64)r.outcome);
                    if (r.outcome == OK) {
                        h = Hash(a, h);
                        for (auto& x : m.log())
                            if (x.addr != pc0) // the opcode fetch itself differs by construction? no: same address
                                h = mix(h, ((u64)x.addr << 20) ^ ((u64)x.write << 17) ^ x.value);
                    }
                    ctx.count("unused_exec_compared");
                    if (opm == pick[0]) {
                        base = h;
                        based = Diff(s, a, 6);
                    } else if (h != base) {
                        flagged = true;
                        ctx.violation(fmt("unused-bits:exec:%s", cname),
                                      fmt("opcodes %04x and %04x differ only in unused bits (%s partition) but execute differently: "
                                          "%s vs %s (outcome %s)",
                                          pick[0], opm, which ? "reference" : "tree", based.c_str(), Diff(s, a, 6).c_str(),
                                          outcome_name(r.outcome)),
                                      opm);
                        break;
                    }
                }
            }
        }
    }

    // ---------------------------------------------------------------- 5. generator agreement
    if (ctx.shard < (ctx.thorough ? 16 : 2)) {
        long n = ForEachGeneratedCase([&](const TestCase& tc, long index) {
            ctx.count("generator_records");
            const Encoding& e = enc.all[tc.opcode];
            if (std::string(e.form.name) == "undefined")
                ctx.violation("generator:undefined-opcode", fmt("generator emits opcode %04x which decodes as undefined", tc.opcode),
                              (u64)index);
            if (tc.expand != 0 && !e.expanded)
                ctx.violation(fmt("generator:expand:%s", e.form.name),
                              fmt("generator gives opcode %04x a second word %04x but the instruction has none", tc.opcode, tc.expand),
                              (u64)index);
            return true;
        });
        if (n < 0)
            ctx.violation("generator:failed", "GenerateTestCasesToFile failed", 0);
    }
    return ctx.finish();
}
