// C11 (additional monitor) — EVERY instruction form that touches data memory honours the MMIO window: a DSP-side
// access whose address lies inside [mmio_base, mmio_base+0x800) reaches the peripheral register and never the
// memory underneath (only the host may ask to bypass the window).
//
// Generic over the decode table: cases rotate over all instruction handlers; every address-bearing register
// (r0-r7, page, the second word) points at side-effect-free storage registers inside the window (timer start /
// pwm counters, ICU vector low words). Each case runs one instruction on two real Teakra facades:
//   A  window at its reset base 0x8000, registers preloaded through the host (value V[o])
//   B  window relocated to 0xF800 through MIU_MMIOBASE, so that the same addresses are plain memory there;
//      that memory is preloaded with the same V[o]
// Observation: the SharedMemory observer (hook H2) logs every word access of the step.
//   M1  in A no data access may land on the raw words under the window (B's log tells how many window accesses the
//       instruction makes, i.e. that the observation is not vacuous)
//   M2  the raw bytes under A's window are unchanged afterwards
//   M3  value twin: when all of B's accesses in that range are on the storage registers, A and B must end in the same
//       register state, the registers written in A must read back (host MMIORead) what B's memory cell holds, and
//       both must have made the same accesses outside the window.
#include <map>
#include "exec.h"
#include "state.h"
#include "teakra/teakra.h"

using namespace vf;

namespace {

constexpr u16 kBaseA = 0x8000, kBaseB = 0xF800;
const u16 kCells[] = {0x024, 0x026, 0x02C, 0x02E, 0x034, 0x036, 0x03C, 0x03E, 0x214, 0x218, 0x21C, 0x220, 0x224, 0x228,
                      0x22C, 0x230, 0x234, 0x238, 0x23C, 0x240, 0x244, 0x248, 0x24C, 0x250};
bool is_cell(u16 off) {
    for (u16 c : kCells)
        if (c == off)
            return true;
    return false;
}

struct Access {
    u32 addr;
    bool write;
    u16 value;
};
std::vector<Access>* g_log = nullptr;
void observer(const Teakra::SharedMemory*, std::uint32_t a, bool w, std::uint16_t v) {
    if (g_log)
        g_log->push_back({a, w, v});
}

u16 under_pattern(u16 off) { return (u16)(0xA5C3u ^ (off * 0x3D)); }

struct Side {
    std::unique_ptr<Teakra::Teakra> t;
    std::vector<Access> log;
    RunResult rr;
    CaseState after;
    u8* raw() { return t->GetDspMemory(); }
    u16 raw_read(u32 w) { return (u16)(raw()[2 * w] | (raw()[2 * w + 1] << 8)); }
    void raw_write(u32 w, u16 v) {
        raw()[2 * w] = (u8)v;
        raw()[2 * w + 1] = (u8)(v >> 8);
    }
};

} // namespace

int main(int argc, char** argv) {
    Ctx ctx;
    ctx.parse(argc, argv, "C11");
    Teakra::Verif::mem_observer = &observer;
    Encodings enc;
    std::vector<std::string> handlers;
    for (auto& kv : enc.by_name)
        if (kv.first != "undefined")
            handlers.push_back(kv.first);
    const u32 kPc = 0x1000;

    for (u64 c = 0; c < ctx.cases; ++c) {
        if (!ctx.selected(c))
            continue;
        Rng g = ctx.case_rng(c);
        const std::string& h = handlers[(c * 16 + (u64)ctx.shard) % handlers.size()];
        const auto& ops = enc.of(h);
        u16 op = ops[g.below(ops.size())];
        bool expanded = enc.all[op].expanded;
        auto cell_addr = [&] { return (u16)(kBaseA + g.pick(kCells)); };
        u16 exp = g.chance(1, 2) ? cell_addr() : g.edge16();

        CaseState s = RandomState(g);
        s["pc"] = kPc;
        s["pcmhi"] = 0; // program-space accesses (movp/movd) stay below 0x10000: never alias data memory
        // same for program addresses taken from an accumulator (movp (aX), movpdw): bits 17:16 clear
        for (const char* an : {"a[0]", "a[1]", "b[0]", "b[1]"})
            s[an] &= ~(u64)0x30000;
        s["sp"] = 0x1000 + g.below(0x100);
        for (int i = 0; i < 8; ++i)
            if (!g.chance(1, 8))
                s[fmt("r[%d]", i).c_str()] = cell_addr();
        static const u16 pages[] = {0x80, 0x82};
        s["page"] = g.pick(pages);
        if (g.chance(3, 4)) { // plain linear stepping most of the time, so that the pointers stay where they were put
            for (int i = 0; i < 8; ++i) {
                s[fmt("m[%d]", i).c_str()] = 0;
                s[fmt("br[%d]", i).c_str()] = 0;
            }
        }
        std::map<u16, u16> V;
        for (u16 o : kCells)
            V[o] = g.chance(1, 4) ? g.edge16() : (u16)g.bits(16);

        // the two facades are reused while every earlier case on them ended normally and touched only the storage
        // registers; otherwise (side effects in A that B cannot have) both are rebuilt
        static Side A, B;
        static bool reusable = false;
        if (!reusable) {
            A.t.reset();
            B.t.reset();
        }
        A.log.clear();
        B.log.clear();
        Side* sides[2] = {&A, &B};
        bool setup_ok = true;
        for (int k = 0; k < 2; ++k) {
            Side& S = *sides[k];
            const bool fresh = !S.t;
            if (fresh) {
                Teakra::UserConfig cfg;
                S.t = std::make_unique<Teakra::Teakra>(cfg);
                ctx.count("facades_built");
            }
            RunResult pr = Classify([&] {
                if (k == 1 && fresh)
                    S.t->MMIOWrite(0x11E, kBaseB);
                for (u16 off = 0; off < 0x800; ++off) // memory under (A) / at (B) the window range
                    S.raw_write(kDataBase + kBaseA + off, under_pattern(off));
                for (auto& kv : V) {
                    if (k == 0)
                        S.t->MMIOWrite(kv.first, kv.second);
                    else
                        S.raw_write(kDataBase + kBaseA + kv.first, kv.second);
                }
                S.raw_write(kPc, op);
                S.raw_write(kPc + 1, expanded ? exp : 0);
            });
            if (pr.outcome != OK) {
                ctx.violation("forms:setup", "preparing the twin ended with " + pr.what, c);
                setup_ok = false;
                break;
            }
            Teakra::RegisterState& r = S.t->GetRegisterState();
            r = Teakra::RegisterState();
            Apply(s, r);
            g_log = &S.log;
            S.rr = Classify([&] { S.t->Run(1); });
            g_log = nullptr;
            S.after = Capture(S.t->GetRegisterState());
        }
        if (!setup_ok) {
            reusable = false;
            continue;
        }
        ctx.count("cases");
        ctx.count(std::string("outcome_") + outcome_name(A.rr.outcome));

        auto in_range = [&](u32 a) { return a >= kDataBase + kBaseA && a < kDataBase + kBaseA + 0x800u; };
        unsigned b_window = 0, b_window_w = 0, b_noncell = 0;
        for (auto& a : B.log)
            if (in_range(a.addr)) {
                ++b_window;
                b_window_w += a.write;
                if (!is_cell((u16)(a.addr - kDataBase - kBaseA)))
                    ++b_noncell;
            }
        reusable = !b_noncell && A.rr.outcome == OK && B.rr.outcome == OK;
        JObj det;
        det.str("handler", h).hexs("opcode", op).hexs("expansion", exp).str("form", enc.decode(op, exp).str()).raw("state", StateJson(s));
        // ---- M1
        for (auto& a : A.log)
            if (in_range(a.addr)) {
                ctx.violation(fmt("forms:bypass:%s:%s", h.c_str(), a.write ? "write" : "read"),
                              fmt("%s (opcode %04x) %s the memory under the MMIO window at data address 0x%04x instead of the register",
                                  h.c_str(), op, a.write ? "wrote" : "read", a.addr - kDataBase),
                              c, det.done());
                break;
            }
        // ---- M2
        for (u16 off = 0; off < 0x800; ++off)
            if (A.raw_read(kDataBase + kBaseA + off) != under_pattern(off)) {
                ctx.violation(fmt("forms:underlay-modified:%s", h.c_str()),
                              fmt("%s (opcode %04x) changed the memory under the window at offset 0x%03x", h.c_str(), op, off), c, det.done());
                break;
            }
        if (b_window) {
            ctx.count("window_accesses_observed", b_window);
            ctx.count("window_writes_observed", b_window_w);
            ctx.count("cases_with_window_access");
            ctx.seen("nt", fmt("%s:%s", h.c_str(), b_window_w ? (b_window_w == b_window ? "w" : "rw") : "r"));
            ctx.seen("window_handlers", h);
        }
        // ---- M3
        bool a_touches_b_window = false;
        for (auto& a : A.log)
            if (a.addr >= kDataBase + kBaseB && a.addr < kDataBase + 0x10000u)
                a_touches_b_window = true;
        if (b_window && !b_noncell && !a_touches_b_window && A.rr.outcome == OK && B.rr.outcome == OK) {
            ctx.count("value_twins_compared");
            std::string d = Diff(A.after, B.after);
            if (!d.empty())
                ctx.violation(fmt("forms:twin-state:%s", h.c_str()),
                              fmt("%s (opcode %04x): state after reading through the window differs from memory holding the register's value: %s",
                                  h.c_str(), op, d.c_str()),
                              c, det.done());
            for (u16 o : kCells) {
                u16 ra = 0;
                Classify([&] { ra = A.t->MMIORead(o); });
                u16 rb = B.raw_read(kDataBase + kBaseA + o);
                if (ra != rb) {
                    ctx.violation(fmt("forms:twin-store:%s", h.c_str()),
                                  fmt("%s (opcode %04x): register 0x%03x reads %04x, the memory twin holds %04x", h.c_str(), op, o, ra, rb), c,
                                  det.done());
                    break;
                }
            }
            std::vector<Access> oa, ob;
            for (auto& a : A.log)
                if (!in_range(a.addr))
                    oa.push_back(a);
            for (auto& a : B.log)
                if (!in_range(a.addr))
                    ob.push_back(a);
            bool same = oa.size() == ob.size();
            for (size_t i = 0; same && i < oa.size(); ++i)
                same = oa[i].addr == ob[i].addr && oa[i].write == ob[i].write && (!oa[i].write || oa[i].value == ob[i].value);
            if (!same)
                ctx.violation(fmt("forms:twin-accesses:%s", h.c_str()),
                              fmt("%s (opcode %04x): accesses outside the window differ between the window run (%zu) and the memory run (%zu)",
                                  h.c_str(), op, oa.size(), ob.size()),
                              c, det.done());
        } else if (b_window && A.rr.outcome != B.rr.outcome) {
            ctx.count("twin_outcomes_differ_not_compared");
        }
        if (b_window && ctx.samples_emitted < 2)
            ctx.sample(JObj().str("mode", "forms").str("handler", h).hexs("opcode", op).num("window_accesses", b_window).num("window_writes", b_window_w).str("outcome", outcome_name(A.rr.outcome)).done());
    }
    return ctx.finish();
}
