// C17 — behaviour depends only on the call history; Reset() equals a fresh machine.
// Oracle (T+S), three modes:
//   alloc  the same API history is applied to four instances whose heap allocations were pre-filled with
//          0x00 / 0xFF / 0xA5 / seeded noise (global operator new is replaced); every observation must be identical.
//          Half of the histories start straight after construction, without Reset().
//   reset  instance A: dirtying history H1, Reset(), H2; instance B: construct, Reset(), H2 with the same callbacks
//          installed; every observation during H2 must be identical.
//   capi   the same history through the C binding (teakra_c) and through the C++ facade.
// The same binary also runs under valgrind memcheck (thorough tier) where any use of an uninitialised value is reported.
#include <cstdlib>
#include <new>
#include "core_shim.h"
#include "guestprog.h"
#include "state.h"
#include "teakra/teakra.h"
#include "teakra/teakra_c.h"
#include "worker.h"

// ------------------------------------------------------------------ allocation fill
namespace {
int g_fill_mode = 0; // 0: 0x00, 1: 0xFF, 2: 0xA5, 3: noise
unsigned long long g_noise = 88172645463325252ull;
void fill(void* p, std::size_t n) {
    unsigned char* b = static_cast<unsigned char*>(p);
    switch (g_fill_mode) {
    case 0: std::memset(b, 0x00, n); break;
    case 1: std::memset(b, 0xFF, n); break;
    case 2: std::memset(b, 0xA5, n); break;
    default:
        for (std::size_t i = 0; i < n; ++i) {
            g_noise ^= g_noise << 13;
            g_noise ^= g_noise >> 7;
            g_noise ^= g_noise << 17;
            b[i] = (unsigned char)g_noise;
        }
    }
}
} // namespace
void* operator new(std::size_t n) {
    void* p = std::malloc(n ? n : 1);
    if (!p)
        throw std::bad_alloc();
    fill(p, n);
    return p;
}
void* operator new[](std::size_t n) { return operator new(n); }
void operator delete(void* p) noexcept { std::free(p); }
void operator delete[](void* p) noexcept { std::free(p); }
void operator delete(void* p, std::size_t) noexcept { std::free(p); }
void operator delete[](void* p, std::size_t) noexcept { std::free(p); }

using namespace vf;

namespace {

struct ExtMem {
    std::map<u32, u8> m;
    u8 r8(u32 a) { return m.count(a) ? m[a] : (u8)(a * 13 + 5); }
    void w8(u32 a, u8 v) { m[a] = v; }
};

// ------------------------------------------------------------------ one API, two bindings
struct Api {
    std::vector<std::string> log;
    ExtMem ext;
    int fill_mode = 0;
    virtual ~Api() = default;
    virtual void Reset() = 0;
    virtual u8* Mem() = 0;
    virtual Teakra::RegisterState* Regs() = 0;
    virtual void ProgramWrite(u32 a, u16 v) = 0;
    virtual u16 DataRead(u16 a, bool bypass) = 0;
    virtual void DataWrite(u16 a, u16 v, bool bypass) = 0;
    virtual u16 MMIORead(u16 a) = 0;
    virtual void MMIOWrite(u16 a, u16 v) = 0;
    virtual void SendData(u8 i, u16 v) = 0;
    virtual u16 RecvData(u8 i) = 0;
    virtual u16 PeekRecvData(u8 i) = 0;
    virtual bool RecvDataIsReady(u8 i) = 0;
    virtual bool SendDataIsEmpty(u8 i) = 0;
    virtual void SetSemaphore(u16 v) = 0;
    virtual void ClearSemaphore(u16 v) = 0;
    virtual void MaskSemaphore(u16 v) = 0;
    virtual u16 GetSemaphore() = 0;
    virtual void Run(unsigned n) = 0;
    virtual u16 AHBMRead16(u32 a) = 0;
    virtual void AHBMWrite16(u32 a, u16 v) = 0;
    virtual u16 AHBMRead32(u32 a) = 0;
    virtual void AHBMWrite32(u32 a, u32 v) = 0;
    virtual u16 DMAChan0GetSrcHigh() = 0;
    virtual u16 DMAChan0GetDstHigh() = 0;
    virtual u16 ProgramRead(u32 a) = 0;
    virtual u16 DataReadA32(u32 a) = 0;
    virtual void DataWriteA32(u32 a, u16 v) = 0;
    virtual u16 AHBMGet(int what, u16 i) = 0; // 0 unit size, 1 direction, 2 DMA channel
};

struct CppApi : Api {
    std::vector<u8> user_buf; // UserConfig::dsp_memory when the instance runs on memory supplied by the host
    std::unique_ptr<Teakra::Teakra> t;
    explicit CppApi(bool user_memory = false) {
        Teakra::UserConfig cfg;
        if (user_memory) {
            user_buf.assign(0x80000, 0);
            cfg.dsp_memory = user_buf.data();
        }
        t = std::make_unique<Teakra::Teakra>(cfg);
        Teakra::AHBMCallback cb;
        cb.read8 = [this](u32 a) { return ext.r8(a); };
        cb.write8 = [this](u32 a, u8 v) { ext.w8(a, v); log.push_back(fmt("w8 %x %x", a, v)); };
        cb.read16 = [this](u32 a) { return (u16)(ext.r8(a) | (ext.r8(a + 1) << 8)); };
        cb.write16 = [this](u32 a, u16 v) { ext.w8(a, (u8)v); ext.w8(a + 1, (u8)(v >> 8)); log.push_back(fmt("w16 %x %x", a, v)); };
        cb.read32 = [this](u32 a) { return (u32)(ext.r8(a) | (ext.r8(a + 1) << 8) | (ext.r8(a + 2) << 16) | ((u32)ext.r8(a + 3) << 24)); };
        cb.write32 = [this](u32 a, u32 v) { for (int i = 0; i < 4; ++i) ext.w8(a + i, (u8)(v >> (8 * i))); log.push_back(fmt("w32 %x %x", a, v)); };
        t->SetAHBMCallback(cb);
        t->SetAudioCallback([this](std::array<std::int16_t, 2> s) { log.push_back(fmt("audio %d %d", s[0], s[1])); });
        for (int i = 0; i < 3; ++i)
            t->SetRecvDataHandler((u8)i, [this, i] { log.push_back(fmt("recvhandler %d", i)); });
        t->SetSemaphoreHandler([this] { log.push_back("semhandler"); });
    }
    void Reset() override { t->Reset(); }
    u8* Mem() override { return t->GetDspMemory(); }
    Teakra::RegisterState* Regs() override { return &t->GetRegisterState(); }
    void ProgramWrite(u32 a, u16 v) override { t->ProgramWrite(a, v); }
    u16 DataRead(u16 a, bool b) override { return t->DataRead(a, b); }
    void DataWrite(u16 a, u16 v, bool b) override { t->DataWrite(a, v, b); }
    u16 MMIORead(u16 a) override { return t->MMIORead(a); }
    void MMIOWrite(u16 a, u16 v) override { t->MMIOWrite(a, v); }
    void SendData(u8 i, u16 v) override { t->SendData(i, v); }
    u16 RecvData(u8 i) override { return t->RecvData(i); }
    u16 PeekRecvData(u8 i) override { return t->PeekRecvData(i); }
    bool RecvDataIsReady(u8 i) override { return t->RecvDataIsReady(i); }
    bool SendDataIsEmpty(u8 i) override { return t->SendDataIsEmpty(i); }
    void SetSemaphore(u16 v) override { t->SetSemaphore(v); }
    void ClearSemaphore(u16 v) override { t->ClearSemaphore(v); }
    void MaskSemaphore(u16 v) override { t->MaskSemaphore(v); }
    u16 GetSemaphore() override { return t->GetSemaphore(); }
    void Run(unsigned n) override { t->Run(n); }
    u16 AHBMRead16(u32 a) override { return t->AHBMRead16(a); }
    void AHBMWrite16(u32 a, u16 v) override { t->AHBMWrite16(a, v); }
    u16 AHBMRead32(u32 a) override { return t->AHBMRead32(a); }
    void AHBMWrite32(u32 a, u32 v) override { t->AHBMWrite32(a, v); }
    u16 DMAChan0GetSrcHigh() override { return t->DMAChan0GetSrcHigh(); }
    u16 DMAChan0GetDstHigh() override { return t->DMAChan0GetDstHigh(); }
    u16 ProgramRead(u32 a) override { return t->ProgramRead(a); }
    u16 DataReadA32(u32 a) override { return t->DataReadA32(a); }
    void DataWriteA32(u32 a, u16 v) override { t->DataWriteA32(a, v); }
    u16 AHBMGet(int what, u16 i) override { return what == 0 ? t->AHBMGetUnitSize(i) : what == 1 ? t->AHBMGetDirection(i) : t->AHBMGetDmaChannel(i); }
};

struct CApi : Api {
    TeakraContext* c;
    struct Slot {
        CApi* self;
        int i;
    } slots[3];
    CApi() {
        c = Teakra_Create();
        Teakra_SetAHBMCallback(
            c, [](void* u, uint32_t a) -> uint8_t { return ((CApi*)u)->ext.r8(a); },
            [](void* u, uint32_t a, uint8_t v) { auto s = (CApi*)u; s->ext.w8(a, v); s->log.push_back(fmt("w8 %x %x", a, v)); },
            [](void* u, uint32_t a) -> uint16_t { auto s = (CApi*)u; return (u16)(s->ext.r8(a) | (s->ext.r8(a + 1) << 8)); },
            [](void* u, uint32_t a, uint16_t v) { auto s = (CApi*)u; s->ext.w8(a, (u8)v); s->ext.w8(a + 1, (u8)(v >> 8)); s->log.push_back(fmt("w16 %x %x", a, v)); },
            [](void* u, uint32_t a) -> uint32_t { auto s = (CApi*)u; return (u32)(s->ext.r8(a) | (s->ext.r8(a + 1) << 8) | (s->ext.r8(a + 2) << 16) | ((u32)s->ext.r8(a + 3) << 24)); },
            [](void* u, uint32_t a, uint32_t v) { auto s = (CApi*)u; for (int i = 0; i < 4; ++i) s->ext.w8(a + i, (u8)(v >> (8 * i))); s->log.push_back(fmt("w32 %x %x", a, v)); },
            this);
        Teakra_SetAudioCallback(c, [](void* u, int16_t s[2]) { ((CApi*)u)->log.push_back(fmt("audio %d %d", s[0], s[1])); }, this);
        for (int i = 0; i < 3; ++i) {
            slots[i] = {this, i};
            Teakra_SetRecvDataHandler(c, (u8)i, [](void* u) { auto s = (Slot*)u; s->self->log.push_back(fmt("recvhandler %d", s->i)); }, &slots[i]);
        }
        Teakra_SetSemaphoreHandler(c, [](void* u) { ((CApi*)u)->log.push_back("semhandler"); }, this);
    }
    ~CApi() override { Teakra_Destroy(c); }
    void Reset() override { Teakra_Reset(c); }
    u8* Mem() override { return Teakra_GetDspMemory(c); }
    Teakra::RegisterState* Regs() override { return nullptr; }
    void ProgramWrite(u32 a, u16 v) override { Teakra_ProgramWrite(c, a, v); }
    u16 DataRead(u16 a, bool b) override { return Teakra_DataRead(c, a, b); }
    void DataWrite(u16 a, u16 v, bool b) override { Teakra_DataWrite(c, a, v, b); }
    u16 MMIORead(u16 a) override { return Teakra_MMIORead(c, a); }
    void MMIOWrite(u16 a, u16 v) override { Teakra_MMIOWrite(c, a, v); }
    void SendData(u8 i, u16 v) override { Teakra_SendData(c, i, v); }
    u16 RecvData(u8 i) override { return Teakra_RecvData(c, i); }
    u16 PeekRecvData(u8 i) override { return Teakra_PeekRecvData(c, i); }
    bool RecvDataIsReady(u8 i) override { return Teakra_RecvDataIsReady(c, i) != 0; }
    bool SendDataIsEmpty(u8 i) override { return Teakra_SendDataIsEmpty(c, i) != 0; }
    void SetSemaphore(u16 v) override { Teakra_SetSemaphore(c, v); }
    void ClearSemaphore(u16 v) override { Teakra_ClearSemaphore(c, v); }
    void MaskSemaphore(u16 v) override { Teakra_MaskSemaphore(c, v); }
    u16 GetSemaphore() override { return Teakra_GetSemaphore(c); }
    void Run(unsigned n) override { Teakra_Run(c, n); }
    u16 AHBMRead16(u32 a) override { return Teakra_AHBMRead16(c, a); }
    void AHBMWrite16(u32 a, u16 v) override { Teakra_AHBMWrite16(c, a, v); }
    u16 AHBMRead32(u32 a) override { return Teakra_AHBMRead32(c, a); }
    void AHBMWrite32(u32 a, u32 v) override { Teakra_AHBMWrite32(c, a, v); }
    u16 DMAChan0GetSrcHigh() override { return Teakra_DMAChan0GetSrcHigh(c); }
    u16 DMAChan0GetDstHigh() override { return Teakra_DMAChan0GetDstHigh(c); }
    u16 ProgramRead(u32 a) override { return Teakra_ProgramRead(c, a); }
    u16 DataReadA32(u32 a) override { return Teakra_DataReadA32(c, a); }
    void DataWriteA32(u32 a, u16 v) override { Teakra_DataWriteA32(c, a, v); }
    u16 AHBMGet(int what, u16 i) override { return what == 0 ? Teakra_AHBMGetUnitSize(c, i) : what == 1 ? Teakra_AHBMGetDirection(c, i) : Teakra_AHBMGetDmaChannel(c, i); }
};

// ------------------------------------------------------------------ history operations
struct Op {
    int kind;
    u32 a = 0, b = 0, c = 0;
    Plan plan; // kind 0
    std::string str() const { return fmt("%d(%x,%x,%x)", kind, a, b, c); }
};

const char* kOpNames[] = {"load-program", "run", "mmio-write", "senddata", "recvdata", "setsem", "clearsem", "masksem", "dma",
                          "ahbm-read16", "ahbm-write32", "datawrite", "snippet", "timer", "fifo", "trigger", "apbp-disable",
                          "ahbm-config", "mmio-read", "a32-write", "a32-read", "program-read", "data-nobypass", "zpage", "dma-high-query",
                          "ahbm-get", "mmiobase", "poke-vectored-request"};

const u16 kWritable[] = {0x020, 0x022, 0x024, 0x026, 0x028, 0x02A, 0x02C, 0x02E, 0x030, 0x032, 0x034, 0x036, 0x038, 0x03A, 0x03C, 0x03E,
                         0x0C0, 0x0C4, 0x0C8, 0x0CC, 0x0CE, 0x0D0, 0x0D4, 0x0E2, 0x0E4, 0x0E6, 0x0E8, 0x0EA, 0x0EC, 0x0EE, 0x0F0, 0x0F2,
                         0x114, 0x116, 0x184, 0x1BE, 0x1C0, 0x1C2, 0x1C4, 0x1C6, 0x1C8, 0x1CA, 0x1CC, 0x1CE, 0x1D0, 0x1D2, 0x1D4, 0x1D6,
                         0x1D8, 0x1DA, 0x1DC, 0x200, 0x202, 0x204, 0x206, 0x208, 0x20A, 0x20C, 0x212, 0x214, 0x216, 0x218, 0x24E, 0x250,
                         0x2A2, 0x2BE, 0x2C6, 0x2CA, 0x322, 0x33E, 0x346, 0x34A, 0x100, 0x102, 0x118, 0x11C, 0x120, 0x122, 0x20E, 0x210,
                         0x180, 0x182, 0x186, 0x18E, 0x190, 0x001, 0x003, 0x7FE};

// host accessors that only the "host bias" histories use (C11/C12 through both bindings)
int g_host_bias = 0; // percent of operations taken from the host-accessor group
Op make_host_op(Rng& g) {
    Op o;
    static const u32 edges[] = {0, 1, 0x7FFF, 0x8000, 0x8024, 0x8026, 0x8214, 0x87FF, 0x8800, 0xFFFF, 0x10000, 0x10001, 0x18000, 0x18024, 0x1FFFF};
    unsigned s = (unsigned)g.below(100);
    if (s < 25) {
        o.kind = 19;
        o.a = g.chance(1, 2) ? g.pick(edges) : (u32)g.below(0x20000);
        o.b = (u16)g.bits(16);
    } else if (s < 45) {
        o.kind = 20;
        o.a = g.chance(1, 2) ? g.pick(edges) : (u32)g.below(0x20000);
    } else if (s < 55) {
        o.kind = 21;
        o.a = g.chance(1, 3) ? 0x20000 + g.pick(edges) : (u32)g.below(0x40000);
    } else if (s < 70) { // 16-bit accessors without bypass on the storage registers of the window, and plain memory
        o.kind = 22;
        static const u16 cells[] = {0x8024, 0x8026, 0x8034, 0x8214, 0x8218, 0x1234, 0x7FFF, 0x8800, 0xFFFF};
        o.a = g.pick(cells);
        o.b = (u16)g.bits(16);
        o.c = (u32)g.below(2);
    } else if (s < 78) {
        o.kind = 23;
        o.a = g.chance(1, 3) ? 1 : 0;
    } else if (s < 88) {
        o.kind = 24;
        o.a = (u32)g.below(8);
        o.b = (u32)g.below(2);
        o.c = (u16)g.bits(16);
    } else if (s < 95) {
        o.kind = 25;
        o.a = (u32)g.below(3);
        o.b = (u32)g.below(3);
    } else {
        o.kind = 26;
        o.a = (u16)(g.below(64) << 10);
    }
    return o;
}

Op make_op(Rng& g, bool dirty_bias) {
    Op o;
    if (g_host_bias && g.below(100) < (u64)g_host_bias)
        return make_host_op(g);
    unsigned s = (unsigned)g.below(100);
    if (s < 8) {
        o.kind = 0;
        o.plan = make_plan(g);
    } else if (s < 26) {
        o.kind = 1;
        o.a = g.chance(1, 3) ? (u32)g.range(1, 30) : (u32)g.range(30, 6000);
    } else if (s < 44) {
        o.kind = 2;
        o.a = g.pick(kWritable);
        o.b = g.chance(1, 2) ? (u16)g.bits(16) : (u16)(1u << g.below(16));
        if (o.a == 0x020 || o.a == 0x030) // timer scale 0 and count mode < 4 (other values end in deliberate assertions)
            o.b = (o.b & 0xFFE0) | (u32)(g.below(4) << 2);
        if (o.a == 0x1DA)
            o.b &= 0x0477 & ~0x0066; // spaces 0/1 only: keeps an accidental DMA start trivial
        if (o.a == 0x1C8 || o.a == 0x1CA || o.a == 0x1CC)
            o.b &= 0x1F;
        if (o.a == 0x1C2 || o.a == 0x1C6)
            o.b &= 0x0001;
    } else if (s < 48) {
        o.kind = 3;
        o.a = (u32)g.below(3);
        o.b = (u16)g.bits(16);
    } else if (s < 52) {
        o.kind = 4;
        o.a = (u32)g.below(3);
    } else if (s < 55) {
        o.kind = 5;
        o.a = (u16)(1u << g.below(16));
    } else if (s < 57) {
        o.kind = 6;
        o.a = (u16)g.bits(16);
    } else if (s < 60) {
        o.kind = 7;
        o.a = (u16)g.bits(16);
    } else if (s < 64) { // small DSP->DSP / DSP<->external DMA on a random channel
        o.kind = 8;
        o.a = (u32)g.below(8);
        o.b = (u32)g.bits(16);
        o.c = (u32)g.below(4);
    } else if (s < 68) { // leaves a half-drained burst queue behind when the burst size is 4 or 8
        o.kind = 9;
        o.a = (u32)g.bits(20);
    } else if (s < 70) {
        o.kind = 10;
        o.a = (u32)g.bits(20) & ~3u;
        o.b = (u32)g.bits(32);
    } else if (s < 74) {
        o.kind = 11;
        o.a = (u16)g.below(0x7000);
        o.b = (u16)g.bits(16);
    } else if (s < 80) { // guest snippet that moves hidden banks into view: cntx s / cntx r / bankr / banke
        o.kind = 12;
        o.a = (u32)g.below(6);
    } else if (s < 85) {
        o.kind = 13;
        o.a = (u32)g.below(2);
        o.b = (u32)g.range(0, 40);
        o.c = (u32)g.below(4);
    } else if (s < 89) {
        o.kind = 14;
        o.a = (u32)g.below(4);
        o.b = (u16)g.bits(16);
    } else if (s < 92) {
        o.kind = 15;
        o.a = (u16)(1u << g.below(16));
    } else if (s < 94) {
        o.kind = 16;
        o.a = (u16)(g.bits(16) & 0x3104);
    } else if (s < 95) {
        o.kind = 17;
        o.a = (u32)g.below(3);
        o.b = (u32)g.below(3);
        o.c = (u32)g.below(3);
    } else if (s < 97) { // what a save-state loader does: request/mask/enable bits written straight into the register file
        o.kind = 27;
        o.a = (u32)g.range(1, 12);
    } else {
        o.kind = 18;
        o.a = (u16)(g.below(0x400) * 2);
    }
    (void)dirty_bias;
    return o;
}

void apply(Api& t, const Op& o) {
    switch (o.kind) {
    case 0: {
        for (auto& kv : o.plan.prog.words)
            t.ProgramWrite(kv.first, kv.second);
        if (auto* r = t.Regs())
            r->pc = 0;
        else { // C binding has no register accessor: restart through a tiny trampoline is impossible; Reset instead
            t.Reset();
            for (auto& kv : o.plan.prog.words)
                t.ProgramWrite(kv.first, kv.second);
        }
        break;
    }
    case 1: t.Run(o.a); break;
    case 2: t.MMIOWrite((u16)o.a, (u16)o.b); break;
    case 3: t.SendData((u8)o.a, (u16)o.b); break;
    case 4: t.log.push_back(fmt("recv%u ready=%d peek=%04x value=%04x", o.a, (int)t.RecvDataIsReady((u8)o.a), t.PeekRecvData((u8)o.a), t.RecvData((u8)o.a))); break;
    case 5: t.SetSemaphore((u16)o.a); break;
    case 6: t.ClearSemaphore((u16)o.a); break;
    case 7: t.MaskSemaphore((u16)o.a); break;
    case 8: {
        t.MMIOWrite(0x1BE, (u16)o.a);
        bool ext_src = o.c == 1, ext_dst = o.c == 2;
        t.MMIOWrite(0x1C0, (u16)(o.b & 0x7FFF));
        t.MMIOWrite(0x1C2, 0);
        t.MMIOWrite(0x1C4, (u16)((o.b >> 3) & 0x7FFF));
        t.MMIOWrite(0x1C6, 0);
        t.MMIOWrite(0x1C8, (u16)(1 + (o.b & 7)));
        t.MMIOWrite(0x1CA, (u16)(1 + ((o.b >> 4) & 3)));
        t.MMIOWrite(0x1CC, 1);
        for (u16 off = 0x1CE; off <= 0x1D8; off += 2)
            t.MMIOWrite(off, (ext_src || ext_dst) ? 2 : 1);
        t.MMIOWrite(0x1DA, (u16)((ext_src ? 7 : 0) | ((ext_dst ? 7 : 0) << 4)));
        t.MMIOWrite(0x0E6, (u16)(1u << o.a)); // AHBM channel 0 serves this DMA channel
        t.MMIOWrite(0x0E2, 0x0010);           // 16-bit units, no burst
        t.MMIOWrite(0x0E4, ext_dst ? 0x0100 : 0);
        t.MMIOWrite(0x1DE, 0x40C0);
        break;
    }
    case 9: t.log.push_back(fmt("ahbmr16 %04x", t.AHBMRead16(o.a))); break;
    case 10: t.AHBMWrite32(o.a, o.b); break;
    case 11: t.DataWrite((u16)o.a, (u16)o.b, true); break;
    case 12: {
        // place a 3-instruction snippet at a fixed spot and run it: <bank op> ; nop ; brr -1
        static const u16 ops[] = {0xD380 /*cntx s*/, 0xD390 /*cntx r*/, 0x8CDF /*bankr*/, 0x4BBF /*banke all*/, 0x8CD4 /*bankr ar1,arp0*/, 0x8CDD /*bankr ar1*/};
        if (auto* r = t.Regs()) {
            t.ProgramWrite(0x1F00, ops[o.a]);
            t.ProgramWrite(0x1F01, 0x0000);
            t.ProgramWrite(0x1F02, 0x57F0);
            r->pc = 0x1F00;
            t.Run(3);
        }
        break;
    }
    case 13: {
        u16 base = (u16)(0x20 + 0x10 * o.a);
        t.MMIOWrite(base + 4, (u16)o.b);
        t.MMIOWrite(base + 6, 0);
        t.MMIOWrite(base + 0, (u16)((o.c << 2) | (1 << 9) | (1 << 10)));
        break;
    }
    case 14:
        if (o.a == 0)
            t.MMIOWrite(0x2BE, 1);
        else if (o.a == 1)
            t.MMIOWrite(0x2C6, (u16)o.b);
        else if (o.a == 2)
            t.MMIOWrite(0x2CA, 0);
        else
            t.MMIOWrite(0x2BE, 0);
        break;
    case 15: t.MMIOWrite(0x204, (u16)o.a); break;
    case 16: t.MMIOWrite(0x0D4, (u16)o.a); break;
    case 17:
        t.MMIOWrite((u16)(0x0E2 + 6 * o.a), (u16)((o.b << 1) | (o.c << 4)));
        break;
    case 18: t.log.push_back(fmt("mmior %03x=%04x", o.a, t.MMIORead((u16)o.a))); break;
    case 19: t.DataWriteA32(o.a, (u16)o.b); break;
    case 20: t.log.push_back(fmt("a32r %05x=%04x", o.a, t.DataReadA32(o.a))); break;
    case 21: t.log.push_back(fmt("progr %05x=%04x", o.a, t.ProgramRead(o.a))); break;
    case 22:
        if (o.c)
            t.DataWrite((u16)o.a, (u16)o.b, false);
        else
            t.log.push_back(fmt("datar %04x=%04x", o.a, t.DataRead((u16)o.a, false)));
        break;
    case 23: t.MMIOWrite(0x112, (u16)o.a); break;
    case 24: // select a channel, give it address high words, ask for channel 0's, look at the selector again
        t.MMIOWrite(0x1BE, (u16)o.a);
        t.MMIOWrite(0x1C2, (u16)(o.c & 0xF));
        t.MMIOWrite(0x1C6, (u16)((o.c >> 4) & 0xF));
        t.log.push_back(fmt("dmahigh%u=%04x sel=%04x", o.b, o.b ? t.DMAChan0GetDstHigh() : t.DMAChan0GetSrcHigh(), t.MMIORead(0x1BE)));
        break;
    case 25: t.log.push_back(fmt("ahbmget%u[%u]=%04x", o.a, o.b, t.AHBMGet((int)o.a, (u16)o.b))); break;
    case 26: t.MMIOWrite(0x11E, (u16)o.a); break;
    case 27:
        if (auto* r = t.Regs()) {
            r->ipv = 1;
            r->imv = 1;
            r->ie = 1;
            t.Run(o.a);
        }
        break;
    }
}

// ------------------------------------------------------------------ observation
struct Obs {
    std::vector<std::pair<std::string, u64>> items;
};

Obs observe(Api& t, bool full_mem) {
    Obs o;
    if (auto* r = t.Regs()) {
        CaseState s = Capture(*r);
        auto& f = Fields();
        for (size_t i = 0; i < f.size(); ++i)
            o.items.push_back({std::string("reg:") + f[i].name, s.v[i]});
    }
    for (u16 off = 0; off < 0x800; off += 1) {
        if (off == 0x0C2 || off == 0x0C6 || off == 0x0CA)
            continue; // reading CMDi clears its ready flag
        if ((off & 1) && off > 0x40)
            continue; // odd offsets are unmapped storage cells: a few are enough
        u16 v = t.MMIORead(off);
        o.items.push_back({fmt("mmio:%03x", off), v});
    }
    for (u8 i = 0; i < 3; ++i) {
        o.items.push_back({fmt("api:recvready%d", i), t.RecvDataIsReady(i)});
        o.items.push_back({fmt("api:sendempty%d", i), t.SendDataIsEmpty(i)});
        o.items.push_back({fmt("api:peek%d", i), t.PeekRecvData(i)});
    }
    o.items.push_back({"api:semaphore", t.GetSemaphore()});
    o.items.push_back({"api:dma0srchigh", t.DMAChan0GetSrcHigh()});
    o.items.push_back({"api:dma0dsthigh", t.DMAChan0GetDstHigh()});
    o.items.push_back({"mmio:1be:after-query", t.MMIORead(0x1BE)});
    const u8* m = t.Mem();
    u64 h = 1469598103934665603ull;
    size_t from = full_mem ? 0 : 0x40000, to = full_mem ? 0x80000 : 0x40000 + 0x8000;
    const u64* p = reinterpret_cast<const u64*>(m + from);
    for (size_t i = 0; i < (to - from) / 8; ++i)
        h = (h ^ p[i]) * 1099511628211ull;
    o.items.push_back({full_mem ? "memory:all" : "memory:data0-3fff", h});
    u64 lh = 7;
    for (auto& s : t.log)
        for (char ch : s)
            lh = lh * 131 + (unsigned char)ch;
    o.items.push_back({"callbacks+host-reads", lh ^ (t.log.size() << 48)});
    return o;
}

// first differing component ("" if equal)
std::string first_diff(const Obs& a, const Obs& b, std::string& detail) {
    for (size_t i = 0; i < a.items.size() && i < b.items.size(); ++i) {
        if (a.items[i].first != b.items[i].first)
            continue;
        if (a.items[i].second != b.items[i].second) {
            detail = fmt("%s: %" PRIx64 " vs %" PRIx64, a.items[i].first.c_str(), a.items[i].second, b.items[i].second);
            return a.items[i].first;
        }
    }
    return "";
}

std::string coarse(const std::string& comp) {
    // reg:arrn[2] -> reg:arrn ; mmio:214 -> mmio:icu (one key per peripheral block)
    if (comp.rfind("mmio:", 0) == 0) {
        unsigned off = (unsigned)std::strtoul(comp.c_str() + 5, nullptr, 16);
        const char* blk = off < 0x020 ? "low" : off < 0x040 ? "timer" : off < 0x0C0 ? "unmapped-040" : off < 0x0E0 ? "apbp"
                        : off < 0x100 ? "ahbm" : off < 0x140 ? "miu" : off < 0x180 ? "unmapped-140" : off < 0x200 ? "dma"
                        : off < 0x280 ? "icu" : off < 0x380 ? "btdmp" : "unmapped-380";
        return std::string("mmio:") + blk;
    }
    size_t b = comp.find('[');
    return b == std::string::npos ? comp : comp.substr(0, b);
}

template <typename F>
RunResult with_fill(int mode, F&& f) {
    g_fill_mode = mode;
    RunResult r = Classify(f);
    g_fill_mode = 0;
    return r;
}

} // namespace

int main(int argc, char** argv) {
    Ctx ctx;
    ctx.parse(argc, argv, "C17");
    const std::string mode = ctx.mode.empty() ? "alloc" : ctx.mode;
    static std::string prop = ctx.opts.count("prop") ? ctx.opts["prop"] : "C17";
    ctx.prop = prop.c_str();
    g_host_bias = (int)ctx.opt_u64("hostbias", 0);

    for (u64 c = 0; c < ctx.cases; ++c) {
        if (!ctx.selected(c))
            continue;
        Rng g = ctx.case_rng(c);
        ctx.count("cases");
        std::vector<std::unique_ptr<Api>> inst;
        std::vector<int> fills;
        std::string hist;
        bool bad = false;
        auto fail = [&](const std::string& key, const std::string& what) {
            if (bad)
                return;
            bad = true;
            ctx.violation(key, what, c, JObj().str("history", hist.substr(hist.size() > 1500 ? hist.size() - 1500 : 0)).done());
        };
        auto step_all = [&](const Op& o, const char* phase) {
            hist += std::string(kOpNames[o.kind]) + o.str() + " ";
            std::vector<RunResult> rr;
            for (size_t i = 0; i < inst.size(); ++i)
                rr.push_back(with_fill(fills[i], [&] { apply(*inst[i], o); }));
            ctx.count("ops");
            ctx.count(std::string("op_") + kOpNames[o.kind]);
            for (size_t i = 1; i < inst.size(); ++i)
                if (rr[i].outcome != rr[0].outcome) {
                    fail(fmt("%s:%s:outcome:%s", mode.c_str(), phase, kOpNames[o.kind]),
                         fmt("instances end %s differently: %s (%s) vs %s (%s)", kOpNames[o.kind], outcome_name(rr[0].outcome),
                             rr[0].what.c_str(), outcome_name(rr[i].outcome), rr[i].what.c_str()));
                    return false;
                }
            if (rr[0].outcome != OK) {
                ctx.count(std::string("history_ended_") + outcome_name(rr[0].outcome));
                return false; // deliberate assertion / unimplemented: same in all instances, history over
            }
            return true;
        };
        auto compare_all = [&](const char* phase, const Op* last, bool full) {
            std::vector<Obs> obs;
            for (size_t i = 0; i < inst.size(); ++i) {
                Obs o;
                RunResult r = with_fill(fills[i], [&] { o = observe(*inst[i], full); });
                if (r.outcome != OK) {
                    fail(fmt("%s:%s:observe-%s", mode.c_str(), phase, outcome_name(r.outcome)), "observation ended in " + r.what);
                    return;
                }
                obs.push_back(o);
            }
            ctx.count("observations");
            for (size_t i = 1; i < inst.size() && !bad; ++i) {
                std::string detail;
                std::string comp = first_diff(obs[0], obs[i], detail);
                if (!comp.empty())
                    fail(fmt("%s:%s:%s", mode.c_str(), phase, coarse(comp).c_str()),
                         fmt("instance %zu differs from instance 0 in %s after %s", i, detail.c_str(), last ? kOpNames[last->kind] : "start"));
            }
        };

        if (mode == "alloc") {
            // ---------------- four heap fill patterns, same history
            bool with_reset = g.chance(1, 2);
            for (int f = 0; f < 4; ++f) {
                fills.push_back(f);
                g_noise = 88172645463325252ull ^ (c * 2654435761u);
                RunResult r = with_fill(f, [&] { inst.push_back(std::make_unique<CppApi>()); });
                if (r.outcome != OK)
                    return 3;
                inst.back()->fill_mode = f;
            }
            if (with_reset)
                for (size_t i = 0; i < inst.size(); ++i)
                    with_fill(fills[i], [&] { inst[i]->Reset(); });
            const char* phase = with_reset ? "after-reset" : "fresh";
            ctx.count(with_reset ? "histories_after_reset" : "histories_straight_after_construction");
            compare_all(phase, nullptr, true);
            unsigned n = (unsigned)g.range(3, 14);
            for (unsigned k = 0; k < n && !bad; ++k) {
                Op o = make_op(g, false);
                if (!step_all(o, phase))
                    break;
                compare_all(phase, &o, k + 1 == n);
                ctx.seen("nt", fmt("alloc:%s:%s", phase, kOpNames[o.kind]));
            }
        } else if (mode == "reset") {
            // ---------------- A: H1, Reset, H2     B: fresh, Reset, H2
            fills = {0, 0};
            const bool user_memory = g.chance(1, 3); // both instances on host-supplied memory (UserConfig::dsp_memory)
            inst.push_back(std::make_unique<CppApi>(user_memory));
            inst.push_back(std::make_unique<CppApi>(user_memory));
            ctx.count(user_memory ? "reset_histories_on_user_memory" : "reset_histories_on_owned_memory");
            inst[0]->Reset();
            unsigned n1 = (unsigned)g.range(4, 25);
            std::string h1;
            for (unsigned k = 0; k < n1; ++k) {
                Op o = make_op(g, true);
                h1 += std::string(kOpNames[o.kind]) + o.str() + " ";
                RunResult r = Classify([&] { apply(*inst[0], o); });
                ctx.count("dirtying_ops");
                ctx.seen("nt", std::string("reset:dirty:") + kOpNames[o.kind]);
                if (r.outcome != OK)
                    break; // the machine may be left anywhere: Reset must still give a fresh machine
            }
            hist = "H1: " + h1 + " | Reset | H2: ";
            inst[0]->log.clear();
            inst[0]->ext.m.clear();
            RunResult ra = Classify([&] { inst[0]->Reset(); });
            RunResult rb = Classify([&] { inst[1]->Reset(); });
            if (ra.outcome != OK || rb.outcome != OK) {
                fail("reset:reset-call:" + std::string(outcome_name(ra.outcome)), "Reset() itself ended in " + ra.what + rb.what);
            } else {
                compare_all("after-reset", nullptr, true);
                unsigned n2 = (unsigned)g.range(2, 12);
                for (unsigned k = 0; k < n2 && !bad; ++k) {
                    Op o = make_op(g, false);
                    if (!step_all(o, "after-reset"))
                        break;
                    compare_all("after-reset", &o, k + 1 == n2);
                    ctx.seen("nt", std::string("reset:after:") + kOpNames[o.kind]);
                }
            }
        } else { // capi
            fills = {0, 0};
            inst.push_back(std::make_unique<CppApi>());
            inst.push_back(std::make_unique<CApi>());
            inst[0]->Reset();
            inst[1]->Reset();
            unsigned n = g_host_bias ? (unsigned)g.range(10, 60) : (unsigned)g.range(3, 16);
            for (unsigned k = 0; k < n && !bad; ++k) {
                Op o = make_op(g, false);
                if (o.kind == 12 || o.kind == 27)
                    continue; // needs the register accessor
                if (o.kind == 0) { // both restart through Reset so that the C binding (no register accessor) can follow
                    inst[0]->Reset();
                }
                if (!step_all(o, "capi"))
                    break;
                // registers are not observable through the C binding: compare the common part
                Obs a, b;
                Classify([&] { a = observe(*inst[0], k + 1 == n); });
                Classify([&] { b = observe(*inst[1], k + 1 == n); });
                Obs a2;
                for (auto& it : a.items)
                    if (it.first.rfind("reg:", 0) != 0)
                        a2.items.push_back(it);
                std::string detail, comp = first_diff(a2, b, detail);
                ctx.count("observations");
                ctx.seen("nt", std::string("capi:") + kOpNames[o.kind]);
                if (!comp.empty())
                    fail("capi:" + coarse(comp), "C binding differs from C++ facade in " + detail + " after " + kOpNames[o.kind]);
            }
        }
        if (!bad && c < 2)
            ctx.sample(JObj().str("mode", mode).str("history", hist.substr(0, 600)).done());
    }
    return ctx.finish();
}
