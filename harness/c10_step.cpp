// C10 — address registers step linearly, modulo or bit-reversed exactly as configured.
// Oracle: models/step.h (written from the statement). One instruction of an addressing form is executed on the
// bare interpreter; the post-modified register(s) are compared with the model and the address of the access is
// observed two ways: the H2 access log, and (for plain loads/stores) the value moved, data memory being
// pre-filled with an injective address pattern.
#include <algorithm>
#include "exec.h"
#include "models/step.h"

using namespace vf;
using namespace vf::step;

namespace {

struct Bound {
    const FormSpec* sp;
    std::vector<u16> ops;
    std::string roles;
};

const char* kRegisterOperand[32] = {"r0", "r1", "r2", "r3", "r4", "r5", "r7", "y0", "st0", "st1", "st2",
                                    "p", "pc", "sp", "cfgi", "cfgj", "b0h", "b1h", "b0l", "b1l", "ext0",
                                    "ext1", "ext2", "ext3", "a0", "a1", "a0l", "a1l", "a0h", "a1h", "lc", "sv"};
// CaseState field holding a plain 16-bit `Register` operand, or nullptr when the transfer is not a plain copy
const char* plain_field(unsigned reg_index) {
    static const char* f[32] = {"r[0]", "r[1]", "r[2]", "r[3]", "r[4]", "r[5]", "r[7]", "y[0]", nullptr, nullptr,
                                nullptr, nullptr, nullptr, "sp", nullptr, nullptr, nullptr, nullptr, nullptr,
                                nullptr, "ext[0]", "ext[1]", "ext[2]", "ext[3]", nullptr, nullptr, nullptr,
                                nullptr, nullptr, nullptr, nullptr, "sv"};
    return f[reg_index & 31];
}
int r_index_of_register_operand(unsigned reg_index) {
    static const int r[8] = {0, 1, 2, 3, 4, 5, 7, -1};
    return reg_index < 8 ? r[reg_index] : -1;
}

u16 edge_step7(Rng& g) {
    static const u16 e[] = {0, 1, 2, 0x3F, 0x40, 0x41, 0x7F, 0x7E, 5};
    return g.chance(1, 2) ? g.pick(e) : (u16)g.bits(7);
}
u16 edge_mod(Rng& g, u64 c) {
    static const u16 e[] = {0, 1, 2, 3, 4, 5, 7, 8, 15, 16, 31, 32, 63, 64, 127, 128, 255, 256, 257, 510, 511};
    if (g.chance(1, 5))
        return g.pick(e);
    return (u16)(c % 512);
}
u16 edge_r(Rng& g) {
    static const u16 e[] = {0, 1, 2, 3, 0xFFFF, 0xFFFE, 0xFFFD, 0x7FFF, 0x8800, 0x7FFE, 0x00FF, 0x0100, 0xFF00};
    return g.chance(1, 3) ? g.pick(e) : (u16)g.bits(16);
}

bool in_mmio(u16 a) { return a >= 0x8000 && a < 0x8800; }

// field indices resolved once
struct Idx {
    int r[8], m[8], br[8];
    int aroffset[4], arpoffseti[4], arpoffsetj[4], arrn[4], arprni[4], arprnj[4], arstep[4], arpstepi[4], arpstepj[4];
    int cmd, stp16, epi, epj, modi, modj, stepi, stepj, stepi0, stepj0, fn, pcmhi;
    Idx() {
        for (int k = 0; k < 8; ++k) {
            r[k] = FieldIndex(fmt("r[%d]", k));
            m[k] = FieldIndex(fmt("m[%d]", k));
            br[k] = FieldIndex(fmt("br[%d]", k));
        }
        for (int k = 0; k < 4; ++k) {
            aroffset[k] = FieldIndex(fmt("aroffset[%d]", k));
            arpoffseti[k] = FieldIndex(fmt("arpoffseti[%d]", k));
            arpoffsetj[k] = FieldIndex(fmt("arpoffsetj[%d]", k));
            arrn[k] = FieldIndex(fmt("arrn[%d]", k));
            arprni[k] = FieldIndex(fmt("arprni[%d]", k));
            arprnj[k] = FieldIndex(fmt("arprnj[%d]", k));
            arstep[k] = FieldIndex(fmt("arstep[%d]", k));
            arpstepi[k] = FieldIndex(fmt("arpstepi[%d]", k));
            arpstepj[k] = FieldIndex(fmt("arpstepj[%d]", k));
        }
        cmd = FieldIndex("cmd");
        stp16 = FieldIndex("stp16");
        epi = FieldIndex("epi");
        epj = FieldIndex("epj");
        modi = FieldIndex("modi");
        modj = FieldIndex("modj");
        stepi = FieldIndex("stepi");
        stepj = FieldIndex("stepj");
        stepi0 = FieldIndex("stepi0");
        stepj0 = FieldIndex("stepj0");
        fn = FieldIndex("fn");
        pcmhi = FieldIndex("pcmhi");
    }
};

} // namespace

int main(int argc, char** argv) {
    Ctx ctx;
    ctx.parse(argc, argv, "C10");
    Encodings enc;
    std::vector<std::string> unlisted;
    auto matched = MatchForms(enc.all, &unlisted);
    if (!unlisted.empty()) {
        // a decode-table row with address-register operands that the role table does not know: refuse to
        // report "held" for forms that were never exercised
        for (auto& k : unlisted)
            std::fprintf(stderr, "C10: addressing form not in models/step.h: %s\n", k.c_str());
        return 3;
    }
    std::vector<Bound> all, pure;
    for (size_t k = 0; k < Forms().size(); ++k) {
        const FormSpec& sp = Forms()[k];
        if (sp.flags & NO_STEP)
            continue;
        if (matched[k].empty()) {
            // the tree has no row of this shape (any more): say so, do not guess an opcode
            ctx.note(fmt("form %s not present in the decode table", sp.key));
            ctx.count("forms_missing");
            continue;
        }
        Bound b{&sp, matched[k], Roles(sp, enc.all[matched[k][0]].form)};
        all.push_back(b);
        if (std::string(sp.key).rfind("modr", 0) == 0)
            pure.push_back(b);
        ctx.count("forms_bound");
    }
    if (all.empty() || pure.empty()) {
        std::fprintf(stderr, "C10: no addressing form found\n");
        return 3;
    }
    if (ctx.verbose)
        for (auto& b : all)
            std::fprintf(stderr, "form %-22s %5zu opcodes, e.g. %04x %s roles=%s\n", b.sp->tag, b.ops.size(), b.ops[0],
                         enc.all[b.ops[0]].form.str().c_str(), b.roles.c_str());

    Machine m;
    const Idx ix;
    static const u16 kBases[] = {0, 0xFFFF, 0x8000, 0x7FFF};

    for (u64 c = 0; c < ctx.cases; ++c) {
        // a replayed case runs after the earlier cases of its group (they are its history)
        if (!ctx.selected(c) && !(ctx.only_case >= 0 && c / 8 == (u64)ctx.only_case / 8 && c < (u64)ctx.only_case))
            continue;
        Rng g = ctx.case_rng(c);
        m.clean();
        const Bound& b = g.chance(2, 5) ? g.pick(pure) : g.pick(all);
        const FormSpec& sp = *b.sp;
        u16 opcode = g.pick(b.ops);
        if (b.roles.find('S') != std::string::npos || b.roles.find('Z') != std::string::npos) {
            // direct forms carry the step in the opcode: lean towards +1/-1 (the modulo clause)
            auto has_unit_step = [&](u16 op) {
                const Form& f = enc.all[op].form;
                for (size_t k = 0; k < b.roles.size() && k < f.ops.size(); ++k)
                    if ((b.roles[k] == 'S' || b.roles[k] == 'Z') && (f.ops[k].second == Inc || f.ops[k].second == Dec))
                        return true;
                return false;
            };
            if (!has_unit_step(opcode) && g.chance(1, 2))
                opcode = g.pick(b.ops);
        }
        u16 expansion = (u16)g.bits(16);
        Form form = enc.decode(opcode, expansion);

        // ---------------------------------------------------------------- state
        CaseState s = RandomState(g);
        Cfg cfg;
        // HISTORY: the interpreter instance lives across cases, so anything it remembers between steps (memoised masks,
        // cached step values ...) is part of what is observed. Cases come in groups of 8 that share one bit-identical
        // configuration (drawn from the group's own stream) three times out of four, while instruction, step kind and
        // start addresses change from case to case.
        auto gen_cfg = [&](Rng& g, u64 c) {
            Cfg cfg;
            cfg.cmd = g.chance(1, 2);
            cfg.stp16 = g.chance(1, 4);
            cfg.epi = g.chance(1, 6);
            cfg.epj = g.chance(1, 6);
            for (int u = 0; u < 8; ++u) {
                cfg.m[u] = g.chance(3, 5);
                cfg.br[u] = g.chance(1, cfg.m[u] ? 8 : 4);
            }
            cfg.modi = edge_mod(g, c);
            cfg.modj = g.chance(1, 2) ? edge_mod(g, c / 512 + c * 7) : cfg.modi;
            cfg.stepi = edge_step7(g);
            cfg.stepj = edge_step7(g);
            cfg.stepi0 = g.edge16();
            cfg.stepj0 = g.edge16();
            return cfg;
        };
        Rng gg = ctx.case_rng(c / 8, 0x6157);
        const Cfg group = gen_cfg(gg, (c / 8) * 8);
        cfg = gen_cfg(g, c);
        {
            // every field independently: the group's value three times out of four
            unsigned kept = 0;
            auto keep = [&] { bool k = g.chance(3, 4); kept += k; return k; };
            if (keep()) cfg.cmd = group.cmd;
            if (keep()) cfg.stp16 = group.stp16;
            if (keep()) cfg.epi = group.epi, cfg.epj = group.epj;
            if (keep())
                for (int u = 0; u < 8; ++u)
                    cfg.m[u] = group.m[u], cfg.br[u] = group.br[u];
            if (keep()) cfg.modi = group.modi, cfg.stepi = group.stepi;
            if (keep()) cfg.modj = group.modj, cfg.stepj = group.stepj;
            if (keep()) cfg.stepi0 = group.stepi0, cfg.stepj0 = group.stepj0;
            ctx.count("group_configuration_fields_kept", kept);
        }
        s.v[ix.cmd] = cfg.cmd;
        s.v[ix.stp16] = cfg.stp16;
        s.v[ix.epi] = cfg.epi;
        s.v[ix.epj] = cfg.epj;
        s.v[ix.modi] = cfg.modi;
        s.v[ix.modj] = cfg.modj;
        s.v[ix.stepi] = cfg.stepi;
        s.v[ix.stepj] = cfg.stepj;
        s.v[ix.stepi0] = cfg.stepi0;
        s.v[ix.stepj0] = cfg.stepj0;
        ArState ar;
        for (int k = 0; k < 4; ++k) {
            auto stepcode = [&]() -> unsigned { return g.chance(1, 2) ? (unsigned)g.range(1, 2) : (unsigned)g.below(8); };
            ar.arrn[k] = (unsigned)g.below(8);
            ar.arprni[k] = (unsigned)g.below(4);
            ar.arprnj[k] = (unsigned)g.below(4);
            ar.arstep[k] = stepcode();
            ar.arpstepi[k] = stepcode();
            ar.arpstepj[k] = stepcode();
            s.v[ix.arrn[k]] = ar.arrn[k];
            s.v[ix.arprni[k]] = ar.arprni[k];
            s.v[ix.arprnj[k]] = ar.arprnj[k];
            s.v[ix.arstep[k]] = ar.arstep[k];
            s.v[ix.arpstepi[k]] = ar.arpstepi[k];
            s.v[ix.arpstepj[k]] = ar.arpstepj[k];
            // offset addressing is outside the statement
            s.v[ix.aroffset[k]] = s.v[ix.arpoffseti[k]] = s.v[ix.arpoffsetj[k]] = 0;
        }
        for (int u = 0; u < 8; ++u) {
            s.v[ix.m[u]] = cfg.m[u];
            s.v[ix.br[u]] = cfg.br[u];
        }
        s.v[ix.fn] = 0; // norm only steps when the accumulator is not yet normalised

        std::vector<RegUse> uses = Uses(sp, b.roles, form, ar);
        bool dup = false;
        for (size_t i = 0; i < uses.size(); ++i)
            for (size_t j = i + 1; j < uses.size(); ++j)
                dup |= uses[i].unit == uses[j].unit;
        if (uses.empty() || dup) {
            ctx.count("skip_same_register_twice");
            continue;
        }

        // ---------------------------------------------------------------- start values
        u16 r0[8];
        for (int u = 0; u < 8; ++u)
            r0[u] = (u16)s.v[ix.r[u]];
        bool mmio_hit = false;
        for (auto& us : uses) {
            unsigned L = us.unit < 4 ? cfg.modi : cfg.modj;
            unsigned k = bit_length(L);
            u16 mask = (u16)((1u << k) - 1);
            bool walk = modulo_effective(cfg, us.unit, us.dmod) && !cfg.br[us.unit] && (us.step == Inc || us.step == Dec);
            u16 r = 0;
            for (int attempt = 0; attempt < 16; ++attempt) {
                if (walk) {
                    u16 base = (u16)(g.chance(1, 4) ? g.pick(kBases) : g.bits(16)) & (u16)~mask;
                    u16 off;
                    if (g.chance(3, 4) || L == mask) { // inside [base, base+L]
                        unsigned sel = (unsigned)g.below(6);
                        off = sel == 0 ? 0 : sel == 1 ? (u16)L : sel == 2 ? (u16)(L ? L - 1 : 0) : sel == 3 ? (u16)(L ? 1 : 0) : (u16)g.below(L + 1);
                    } else { // outside the buffer but inside the aligned block
                        unsigned sel = (unsigned)g.below(3);
                        off = sel == 0 ? (u16)(L + 1) : sel == 1 ? mask : (u16)g.range(L + 1, mask);
                    }
                    r = base | off;
                } else
                    r = edge_r(g);
                bool asserted;
                u16 a = Address(cfg, us.unit, r, us.dmod, asserted);
                if (us.mem != 'm' || !in_mmio(a))
                    break;
                if (attempt == 15)
                    mmio_hit = true;
            }
            r0[us.unit] = r;
            s.v[ix.r[us.unit]] = r;
        }
        if (mmio_hit) {
            ctx.count("skip_mmio_window");
            continue;
        }

        // ---------------------------------------------------------------- run
        m.load(s);
        m.prog(0, opcode);
        m.prog(1, expansion);
        RunResult rr = m.run(1);
        ctx.count("cases");
        if (rr.outcome != OK) {
            // pc / undefined register operands, unimplemented operand combinations: not this property
            ctx.count(std::string("skip_outcome_") + outcome_name(rr.outcome));
            continue;
        }
        CaseState post = m.capture();
        ctx.count("executed");
        ctx.seen("form", sp.tag);
        ctx.seen("modval", fmt("%u", (unsigned)cfg.modi));
        ctx.seen("modval", fmt("%u", (unsigned)cfg.modj));

        auto detail = [&](const RegUse* us, const std::string& expect, const std::string& got) {
            JObj j;
            j.str("form", sp.tag).str("decoded", form.str()).hexs("opcode", opcode).hexs("expansion", expansion);
            if (us) {
                j.num("register", us->unit).str("step", StepCodeName(us->step)).num("dmod", us->dmod);
                j.str("selected_via", std::string(1, us->via));
                j.hexs("r_before", r0[us->unit]);
                j.num("m", cfg.m[us->unit]).num("br", cfg.br[us->unit]);
                j.num("mod", us->unit < 4 ? cfg.modi : cfg.modj);
                j.hexs("step7", us->unit < 4 ? cfg.stepi : cfg.stepj, 2).hexs("step16", us->unit < 4 ? cfg.stepi0 : cfg.stepj0);
            }
            j.num("cmd", cfg.cmd).num("stp16", cfg.stp16).num("epi", cfg.epi).num("epj", cfg.epj);
            j.str("expected", expect).str("actual", got);
            j.raw("state", StateJson(s));
            return j.done();
        };
        const char* mode = cfg.cmd ? "lite" : "teak";

        // destination of a load that lands in an address register
        int dest_r = -1;
        unsigned reg_operand = 0;
        bool has_G = false, has_g = false;
        for (size_t k = 0; k < b.roles.size() && k < form.ops.size(); ++k) {
            if (b.roles[k] == 'G') {
                has_G = true;
                reg_operand = (unsigned)form.ops[k].second & 31;
                dest_r = r_index_of_register_operand(reg_operand);
            } else if (b.roles[k] == 'g') {
                has_g = true;
                reg_operand = (unsigned)form.ops[k].second & 31;
            }
        }
        if (!std::strcmp(sp.tag, "mov_rn_r6"))
            dest_r = 6;

        // ---------------------------------------------------------------- registers
        bool used[8] = {};
        bool bad = false;
        for (auto& us : uses) {
            used[us.unit] = true;
            u16 after = (u16)post.v[ix.r[us.unit]];
            if ((int)us.unit == dest_r) {
                ctx.count("skip_register_is_load_destination");
                continue;
            }
            Pred p = Predict(cfg, us.unit, r0[us.unit], us.step, us.dmod);
            if (p.kind == Pred::Unasserted) {
                ctx.count(std::string("unasserted_") + p.clause);
                continue;
            }
            ctx.count(std::string("checked_") + p.clause);
            ctx.count("checked_registers");
            ctx.seen("nt", fmt("%s:%c:r%u:%s:%s:%s%s", sp.tag, us.via, us.unit, p.clause, p.edge, mode, us.dmod ? ":dmod" : ""));
            if (!p.holds(r0[us.unit], after) && !bad) {
                bad = true;
                // key: selection path + deciding clause + mode (edge class, dmod and br are in the summary/detail)
                ctx.violation(fmt("step:%c:%s:%s", us.via, p.clause, mode),
                              fmt("%s: r%u=%04x stepped %s [%s] (m=%d br=%d mod=%u cmd=%d) must be %s, is %04x", sp.tag, us.unit,
                                  r0[us.unit], StepCodeName(us.step), p.edge, cfg.m[us.unit], cfg.br[us.unit],
                                  (unsigned)(us.unit < 4 ? cfg.modi : cfg.modj), cfg.cmd, p.str().c_str(), after),
                              c, detail(&us, p.str(), hex(after)));
            }
        }
        for (unsigned u = 0; u < 8 && !bad; ++u) {
            if (used[u] || (int)u == dest_r)
                continue;
            u16 after = (u16)post.v[ix.r[u]];
            if (after != r0[u]) {
                bad = true;
                ctx.violation(fmt("bystander:%c:%s", uses[0].via, (u == 3 && cfg.epi) || (u == 7 && cfg.epj) ? "endptr" : "plain"),
                              fmt("%s: r%u is not an operand but changed %04x -> %04x", sp.tag, u, r0[u], after), c,
                              detail(nullptr, fmt("r%u == %04x", u, r0[u]), hex(after)));
            }
        }

        // ---------------------------------------------------------------- addresses: the access log
        struct Exp {
            u32 log_addr;
            const RegUse* us;
            u16 addr;
        };
        std::vector<Exp> expct;
        bool all_asserted = true;
        u16 pcmhi = (u16)s.v[ix.pcmhi];
        for (auto& us : uses) {
            if (us.mem == 'n')
                continue;
            bool asserted;
            u16 a = Address(cfg, us.unit, r0[us.unit], us.dmod, asserted);
            if (!asserted) {
                all_asserted = false;
                ctx.count("unasserted_address_m+br+dmod");
                continue;
            }
            u32 la = us.mem == 'm' ? kDataBase + a : (((u32)pcmhi << 16) | a);
            expct.push_back({la, &us, a});
        }
        const auto& log = m.log();
        for (auto& e : expct) {
            if (bad)
                break;
            bool found = false;
            for (auto& x : log)
                found |= x.addr == e.log_addr;
            const char* cls = cfg.br[e.us->unit] ? (cfg.m[e.us->unit] ? "m+br" : "bitrev") : "plain";
            ctx.count("checked_addresses");
            ctx.count(std::string("checked_address_") + cls);
            ctx.seen("nt", fmt("%s:%c:r%u:addr:%s:%c", sp.tag, e.us->via, e.us->unit, cls, e.us->mem));
            if (!found) {
                bad = true;
                std::string seen;
                for (auto& x : log)
                    seen += fmt("%s%05x ", x.write ? "w" : "r", x.addr);
                ctx.violation(fmt("addr:%c:%s:%s", e.us->via, cls, e.us->mem == 'm' ? "data" : "prog"),
                              fmt("%s: access through r%u=%04x (m=%d br=%d) must touch %s cell %04x; log: %s", sp.tag,
                                  e.us->unit, r0[e.us->unit], cfg.m[e.us->unit], cfg.br[e.us->unit],
                                  e.us->mem == 'm' ? "data" : "program", e.addr, seen.c_str()),
                              c, detail(e.us, fmt("access at %05x", e.log_addr), seen));
            }
        }
        if (all_asserted && !bad) {
            size_t fetch_words = enc.all[opcode].expanded ? 2 : 1;
            size_t idx = 0;
            for (auto& x : log) {
                bool is_fetch = idx < fetch_words && !x.write && x.addr == idx;
                ++idx;
                if (is_fetch)
                    continue;
                bool ok = false;
                for (auto& e : expct)
                    ok |= e.log_addr == x.addr;
                if (!ok) {
                    bad = true;
                    ctx.violation(fmt("stray-access:%c:%s", uses[0].via, x.write ? "write" : "read"),
                                  fmt("%s: %s at %05x is not the address of any operand register", sp.tag,
                                      x.write ? "write" : "read", x.addr),
                                  c, detail(&uses[0], "accesses only at operand addresses", fmt("%05x", x.addr)));
                    break;
                }
            }
            ctx.count("checked_no_stray_access");
        }

        // ---------------------------------------------------------------- addresses: the value moved
        if (!bad && all_asserted && uses.size() == 1 && uses[0].mem == 'm') {
            const RegUse& us = uses[0];
            bool asserted;
            u16 a = Address(cfg, us.unit, r0[us.unit], us.dmod, asserted);
            u16 cell = DataPattern(a);
            std::string tag = sp.tag;
            const char* dst = nullptr;
            u64 want = cell;
            if (has_G && plain_field(reg_operand))
                dst = plain_field(reg_operand);
            else if (tag == "mov_rn_r6")
                dst = "r[6]";
            else if (tag == "mov_ar_repc")
                dst = "repc";
            else if (tag == "mul_imm")
                dst = "y[0]";
            else if (tag == "mul_y0")
                dst = "x[0]";
            if (dst && !(dst[0] == 'r' && dst[1] == '[' && (unsigned)(dst[2] - '0') == us.unit)) {
                ctx.count("checked_loaded_value");
                ctx.seen("nt", fmt("%s:load:%s", sp.tag, cfg.br[us.unit] && !cfg.m[us.unit] ? "bitrev" : "plain"));
                if (post.at(dst) != want) {
                    bad = true;
                    ctx.violation(fmt("load-value:%c:%s", us.via, cfg.br[us.unit] ? (cfg.m[us.unit] ? "m+br" : "bitrev") : "plain"),
                                  fmt("%s: load through r%u=%04x must deliver the content of cell %04x (%04x), %s holds %04x",
                                      sp.tag, us.unit, r0[us.unit], a, cell, dst, (unsigned)post.at(dst)),
                                  c, detail(&us, fmt("%s == %04x (cell %04x)", dst, cell, a), hex(post.at(dst))));
                }
            }
            const char* src = nullptr;
            if (has_g && plain_field(reg_operand))
                src = plain_field(reg_operand);
            else if (tag == "mov_r6_to_rn")
                src = "r[6]";
            else if (tag == "mov_repc_to_ar")
                src = "repc";
            if (src && !bad) {
                u16 v = (u16)s.at(src);
                ctx.count("checked_stored_value");
                ctx.seen("nt", fmt("%s:store:%s", sp.tag, cfg.br[us.unit] && !cfg.m[us.unit] ? "bitrev" : "plain"));
                bool logged = false;
                for (auto& x : log)
                    logged |= x.write && x.addr == kDataBase + a && x.value == v;
                if (m.data(a) != v || !logged) {
                    bad = true;
                    ctx.violation(fmt("store-value:%c:%s", us.via, cfg.br[us.unit] ? (cfg.m[us.unit] ? "m+br" : "bitrev") : "plain"),
                                  fmt("%s: store of %s=%04x through r%u=%04x must land in cell %04x, which holds %04x", sp.tag,
                                      src, v, us.unit, r0[us.unit], a, m.data(a)),
                                  c, detail(&us, fmt("cell %04x == %04x", a, v), hex(m.data(a))));
                }
            }
        }
        (void)kRegisterOperand;
        if (!bad && ctx.samples_emitted < 2 && uses[0].step != Zero) {
            JObj j;
            j.num("case", (s64)c).str("form", sp.tag).str("decoded", form.str()).hexs("opcode", opcode);
            j.num("register", uses[0].unit).str("step", StepCodeName(uses[0].step)).hexs("r_before", r0[uses[0].unit]);
            j.hexs("r_after", post.v[ix.r[uses[0].unit]]);
            j.num("m", cfg.m[uses[0].unit]).num("br", cfg.br[uses[0].unit]).num("mod", uses[0].unit < 4 ? cfg.modi : cfg.modj).num("cmd", cfg.cmd);
            ctx.sample(j.done());
        }
    }
    return ctx.finish();
}
