// C15 — timers count, fire and reload per mode; fast-forward is exact.
// Oracle: (M) independent model written from timer.md + the property statement, run in lock-step with
// the real Timer objects; (T) twin real instances, one advanced with CoreTiming::Skip(k), the other
// with k x CoreTiming::Tick().
#include <deque>
#include "core_timing.h"
#include "crash.h"
#include "timer.h"
#include "core_shim.h"
#include "worker.h"

using namespace vf;

namespace {

struct ModelTimer {
    u32 counter = 0;
    u16 start_low = 0, start_high = 0;
    u16 mode = 0, pause = 0, mu = 0;
    u16 mirror_low = 0, mirror_high = 0;
    u64 irqs = 0;

    u32 start() const { return ((u32)start_high << 16) | start_low; }
    void mirror() {
        if (mu) {
            mirror_high = counter >> 16;
            mirror_low = counter & 0xFFFF;
        }
    }
    void restart() {
        if (mode != 2) {
            counter = start();
            mirror();
        }
    }
    void tick() {
        if (pause || mode == 3)
            return;
        if (counter == 0) {
            if (mode == 1)
                restart();
            else if (mode == 2) {
                counter = 0xFFFFFFFF;
                mirror();
            }
        } else {
            --counter;
            mirror();
            if (counter == 0)
                ++irqs;
        }
    }
    void event() {
        if (pause || mode != 3 || counter == 0)
            return;
        --counter;
        mirror();
        if (counter == 0)
            ++irqs;
    }
    // number of cycles that can be advanced with certainty that none of them raises the interrupt
    // (the *largest* such number is not demanded, only safety): derived from tick()
    bool irq_within(u64 k) const {
        if (pause || mode == 3 || k == 0)
            return false;
        if (counter != 0)
            return k >= counter;
        if (mode == 1)
            return start() != 0 && k >= (u64)start() + 1;
        if (mode == 2)
            return k >= (u64)0xFFFFFFFF + 1;
        return false;
    }
    // O(1) advance by k cycles, valid when !irq_within(k)
    void advance(u64 k) {
        if (pause || mode == 3 || k == 0)
            return;
        if (counter == 0) {
            if (mode == 1) {
                if (start() == 0)
                    return; // reload of zero every cycle: nothing observable changes
                counter = start() - (u32)(k - 1);
            } else if (mode == 2)
                counter = 0xFFFFFFFF - (u32)(k - 1);
            else
                return;
        } else
            counter -= (u32)k;
        mirror();
    }
};

struct Rig {
    Teakra::CoreTiming ct;
    Teakra::Timer t[2]{{ct}, {ct}};
    u64 irqs[2] = {0, 0};
    // what the handler itself sees: the interrupt is raised when the counter HAS gone from 1 to 0, so inside the handler
    // the counter (and, with MU set, its mirror) read 0
    u64 irq_saw_nonzero[2] = {0, 0};
    Rig() {
        for (int i = 0; i < 2; ++i)
            t[i].SetInterruptHandler([this, i] {
                ++irqs[i];
                if (t[i].counter != 0 || (t[i].update_mmio && (t[i].counter_low != 0 || t[i].counter_high != 0)))
                    ++irq_saw_nonzero[i];
            });
    }
};

const char* mode_name(unsigned m) {
    static const char* n[] = {"single", "auto", "free", "event"};
    return n[m & 3];
}
const char* cclass(u32 c) {
    return c == 0 ? "0" : c == 1 ? "1" : c == 2 ? "2" : c == 0xFFFFFFFF ? "max" : "n";
}

std::string snap(const Teakra::Timer& t, u64 irqs) {
    return fmt("mode=%u pause=%u mu=%u start=%04x%04x counter=%08x mirror=%04x%04x irqs=%" PRIu64,
               (unsigned)t.count_mode, t.pause, t.update_mmio, t.start_high, t.start_low, t.counter,
               t.counter_high, t.counter_low, irqs);
}
std::string snapm(const ModelTimer& t) {
    return fmt("mode=%u pause=%u mu=%u start=%04x%04x counter=%08x mirror=%04x%04x irqs=%" PRIu64, t.mode,
               t.pause, t.mu, t.start_high, t.start_low, t.counter, t.mirror_high, t.mirror_low, t.irqs);
}
bool same(const Teakra::Timer& t, u64 irqs, const ModelTimer& m) {
    return (u16)t.count_mode == m.mode && t.pause == m.pause && t.update_mmio == m.mu &&
           t.start_high == m.start_high && t.start_low == m.start_low && t.counter == m.counter &&
           t.counter_high == m.mirror_high && t.counter_low == m.mirror_low && irqs == m.irqs;
}
bool same2(const Teakra::Timer& a, u64 ia, const Teakra::Timer& b, u64 ib) {
    return a.count_mode == b.count_mode && a.pause == b.pause && a.update_mmio == b.update_mmio &&
           a.start_high == b.start_high && a.start_low == b.start_low && a.counter == b.counter &&
           a.counter_high == b.counter_high && a.counter_low == b.counter_low && ia == ib;
}

u32 edge32(Rng& g) {
    static const u32 e[] = {0, 1, 2, 3, 4, 5, 7, 8, 0xFFFF, 0x10000, 0x10001, 0xFFFFFFFF, 0xFFFFFFFE, 0x80000000};
    return g.chance(2, 3) ? g.pick(e) : (g.chance(1, 2) ? (u32)g.below(40) : (u32)g.bits(32));
}

} // namespace

int main(int argc, char** argv) {
    Ctx ctx;
    ctx.parse(argc, argv, "C15");
    const unsigned ops_per_history = 60;

    for (u64 c = 0; c < ctx.cases; ++c) {
        if (!ctx.selected(c))
            continue;
        Rng g = ctx.case_rng(c);
        Rig A, B; // A uses Skip, B uses Tick
        ModelTimer M[2];
        std::deque<std::string> hist;
        bool bad = false;
        std::string pre[2];
        auto log = [&](const std::string& s) {
            hist.push_back(s);
            if (hist.size() > 40)
                hist.pop_front();
        };
        auto fail = [&](const std::string& key, const std::string& what, int i) {
            if (bad)
                return;
            bad = true;
            std::string h;
            for (auto& s : hist)
                h += s + "; ";
            JObj j;
            j.str("what", what).str("history_tail", h);
            j.str("real_skip", snap(A.t[i], A.irqs[i])).str("real_tick", snap(B.t[i], B.irqs[i]));
            j.str("model", snapm(M[i]));
            ctx.violation(key + ":" + pre[i], what, c, j.done());
        };
        std::string opname;
        auto check_all = [&](const std::string& opkey) {
            for (int i = 0; i < 2 && !bad; ++i) {
                if (A.irq_saw_nonzero[i] || B.irq_saw_nonzero[i])
                    fail("irq:counter-not-zero-in-handler:" + opname, "the interrupt handler ran while the counter (or its mirror) did not read 0 yet", i);
                else if (!same2(A.t[i], A.irqs[i], B.t[i], B.irqs[i]))
                    fail("twin:" + opname, "Skip(k) instance differs from k x Tick() instance after " + opkey, i);
                else if (!same(B.t[i], B.irqs[i], M[i]))
                    fail("model:" + opname, "real timer differs from model after " + opkey, i);
            }
        };

        for (unsigned op = 0; op < ops_per_history && !bad; ++op) {
            int i = (int)g.below(2);
            for (int q = 0; q < 2; ++q)
                pre[q] = fmt("%s:counter=%s%s", mode_name(M[q].mode), cclass(M[q].counter), M[q].pause ? ":paused" : "");
            unsigned kind = (unsigned)g.below(100);
            std::string opkey;
            RunResult rr;
            opname = kind < 18 ? "cfg" : kind < 30 ? "start" : kind < 40 ? "event" : kind < 62 ? "tick" : "skip";
            if (kind < 18) { // write configuration fields (as MMIO 0x20 does: mode, pause, mu, restart bit)
                u16 mode = (u16)g.below(4), pause = g.chance(1, 6), mu = g.chance(3, 4);
                bool res = g.chance(1, 3);
                log(fmt("cfg t%d mode=%s pause=%u mu=%u res=%d", i, mode_name(mode), pause, mu, res));
                opkey = fmt("cfg:%s", mode_name(mode));
                for (Rig* r : {&A, &B}) {
                    r->t[i].count_mode = (Teakra::Timer::CountMode)mode;
                    r->t[i].pause = pause;
                    r->t[i].update_mmio = mu;
                    if (res)
                        r->t[i].Restart();
                }
                M[i].mode = mode;
                M[i].pause = pause;
                M[i].mu = mu;
                if (res)
                    M[i].restart();
                ctx.count("op_cfg");
            } else if (kind < 30) { // start value + restart
                u32 s = edge32(g);
                bool res = g.chance(3, 4);
                log(fmt("start t%d=%08x res=%d", i, s, res));
                opkey = fmt("start:%s:%s", mode_name(M[i].mode), cclass(s));
                for (Rig* r : {&A, &B}) {
                    r->t[i].start_low = s & 0xFFFF;
                    r->t[i].start_high = s >> 16;
                    if (res)
                        r->t[i].Restart();
                }
                M[i].start_low = s & 0xFFFF;
                M[i].start_high = s >> 16;
                if (res)
                    M[i].restart();
                ctx.count("op_start");
            } else if (kind < 40) { // event write
                log(fmt("event t%d", i));
                opkey = fmt("event:%s:%s", mode_name(M[i].mode), cclass(M[i].counter));
                A.t[i].TickEvent();
                B.t[i].TickEvent();
                M[i].event();
                ctx.count("op_event");
            } else if (kind < 62) { // n single ticks on both
                unsigned n = g.chance(1, 2) ? 1 : (unsigned)g.range(1, 6);
                log(fmt("tick x%u", n));
                opkey = fmt("tick:%s:%s", mode_name(M[i].mode), cclass(M[i].counter));
                for (unsigned k = 0; k < n; ++k) {
                    u64 before[2] = {M[0].irqs, M[1].irqs};
                    rr = Classify([&] {
                        A.ct.Tick();
                        B.ct.Tick();
                    });
                    M[0].tick();
                    M[1].tick();
                    for (int q = 0; q < 2; ++q)
                        if (M[q].irqs != before[q]) {
                            ctx.count("irq_fired");
                            ctx.seen("nt", fmt("irq:%s", mode_name(M[q].mode)));
                        }
                }
                ctx.count("op_tick", n);
            } else { // fast-forward
                // the horizon each real timer reports must not skip over an interrupt (model knows)
                // one skip in three goes straight to Timer::Skip with the horizon asked from the TWIN (which is in the same
                // state): nothing has queried the skipping instance since its last change - GetMaxSkip() is const and
                // Skip() may not depend on it having been called
                const bool direct = g.chance(1, 3);
                Rig& Hsrc = direct ? B : A;
                u64 hz[2] = {Hsrc.t[0].GetMaxSkip(), Hsrc.t[1].GetMaxSkip()};
                for (int q = 0; q < 2 && !bad; ++q) {
                    u64 probe = hz[q];
                    if (probe != Teakra::CoreTiming::Callbacks::Infinity && M[q].irq_within(probe)) {
                        log(fmt("horizon t%d=%" PRIu64, q, probe));
                        fail("horizon-skips-irq",
                             "reported horizon would skip over an interrupt", q);
                    }
                }
                if (bad)
                    break;
                u64 h = std::min(hz[0], hz[1]);
                u64 maxk;
                unsigned sel = (unsigned)g.below(8);
                if (sel == 0)
                    maxk = 0;
                else if (sel == 1)
                    maxk = 1;
                else if (sel == 2)
                    maxk = h; // exactly the horizon (may be Infinity)
                else if (sel == 3)
                    maxk = h ? h - 1 : 0;
                else if (sel == 4)
                    maxk = g.bits(34);
                else
                    maxk = g.below(64);
                if (maxk == Teakra::CoreTiming::Callbacks::Infinity)
                    maxk = g.bits(36);
                u64 k = 0;
                log(fmt("skip max=%" PRIu64 " (h0=%" PRIu64 " h1=%" PRIu64 ")", maxk, hz[0], hz[1]));
                opkey = fmt("skip:%s/%s:counter=%s/%s:k=%s", mode_name(M[0].mode), mode_name(M[1].mode),
                            cclass(M[0].counter), cclass(M[1].counter), "?");
                if (direct) {
                    k = std::min(maxk, h);
                    rr = Classify([&] {
                        A.t[0].Skip(k);
                        A.t[1].Skip(k);
                    });
                    ctx.count("direct_skips_with_twin_horizon");
                } else
                    rr = Classify([&] { k = A.ct.Skip(maxk); });
                opkey = fmt("skip:%s/%s:counter=%s/%s:k=%s", mode_name(M[0].mode), mode_name(M[1].mode),
                            cclass(M[0].counter), cclass(M[1].counter), k == 0 ? "0" : "n");
                hist.back() += fmt(" -> k=%" PRIu64, k);
                opname = k == 0 ? "skip:k=0" : "skip:k>0";
                if (rr.outcome != OK) {
                    fail("skip-assert", "Skip raised " + std::string(outcome_name(rr.outcome)) + " " + rr.what, 0);
                    break;
                }
                if (k > maxk) {
                    fail("skip-overshoot", "CoreTiming::Skip returned more than the maximum", 0);
                    break;
                }
                ctx.count("op_skip");
                ctx.count(k == 0 ? "skip_k0" : "skip_kpos");
                ctx.maxv("max_skip", k);
                u64 before[2] = {M[0].irqs, M[1].irqs};
                if (k <= 5000) {
                    for (u64 q = 0; q < k; ++q) {
                        B.ct.Tick();
                        M[0].tick();
                        M[1].tick();
                    }
                    ctx.count("skip_vs_ticks");
                } else {
                    // too long to tick: compare with the O(1) model only; bring B along with the model
                    for (int q = 0; q < 2; ++q) {
                        if (M[q].irq_within(k)) {
                            fail("skip-over-irq", "skip distance passes an interrupt", q);
                            break;
                        }
                        M[q].advance(k);
                        B.t[q].counter = M[q].counter;
                        B.t[q].counter_high = M[q].mirror_high;
                        B.t[q].counter_low = M[q].mirror_low;
                    }
                    ctx.count("skip_vs_model");
                }
                for (int q = 0; q < 2 && !bad; ++q)
                    if (M[q].irqs != before[q])
                        fail("skip-over-irq", "k single ticks raise an interrupt that Skip(k) did not", q);
            }
            if (bad)
                break;
            if (rr.outcome != OK) {
                fail("assert:" + opname, std::string("unexpected ") + outcome_name(rr.outcome) + " " + rr.what, i);
                break;
            }
            ctx.seen("nt", opkey);
            check_all(opkey);
        }
        ctx.count("cases");
        ctx.count("ops", ops_per_history);
        if (!bad && c < 2) {
            std::string h;
            for (auto& s : hist)
                h += s + "; ";
            ctx.sample(JObj().num("case", (s64)c).str("history_tail", h).str("final_t0", snap(A.t[0], A.irqs[0])).done());
        }
    }
    return ctx.finish();
}
