// C07 — interrupts are delivered exactly once, in priority order, never spuriously.
// Oracle (M): an independent model of ICU {request, enable[3], venable, vector[16]} + core {latch[3], vlatch,
// ip[3], ipv, im[3], imv, ie, ic[3], cpc, rep} written from the property statement / icu.md, run in lock-step
// with a real Teakra instance that is single-stepped (Run(1)). Before every step the harness feeds the next
// instruction (from a small pool whose effect on the modelled state is known) at the current pc, and applies
// random host operations (software trigger, acknowledge, re-routing, SendData, timer expiry, DMA start).
// After every step: pc, sp, pushed return address, ie, ip*, im*, MMIO 0x200 are compared with the model.
#include <map>
#include "core_shim.h"
#include "register.h"
#include "teakra/teakra.h"
#include "worker.h"

using namespace vf;

namespace {

struct Model {
    // ICU
    u16 request = 0, enable[3] = {0, 0, 0}, venable = 0;
    u32 vector[16] = {};
    bool vctx[16] = {};
    // core
    bool latch[3] = {false, false, false}, vlatch = false;
    u32 vaddr = 0;
    bool vcs = false;
    u16 ip[3] = {0, 0, 0}, ipv = 0, im[3] = {0, 0, 0}, imv = 0, ie = 0, ic[3] = {0, 0, 0}, cpc = 1;
    u16 ims[3] = {0, 0, 0}, imvs = 0; // hidden bank exchanged by a context store/restore
    bool rep = false;
    u16 repc = 0;
    u32 pc = 0;
    u16 sp = 0;
    std::map<u16, u16> mem;
    int timer[2] = {0, 0}; // cycles until the timer raises its interrupt (0 = idle)
    // statistics
    u64 entries[4] = {0, 0, 0, 0};
    int last_entry = -1;

    void trigger(u16 bits) {
        request |= bits;
        for (int irq = 0; irq < 16; ++irq)
            if (bits & (1u << irq)) {
                for (int l = 0; l < 3; ++l)
                    if (enable[l] & (1u << irq))
                        latch[l] = true;
                if (venable & (1u << irq)) {
                    vlatch = true;
                    vaddr = vector[irq];
                    vcs = vctx[irq];
                }
            }
    }
    void swap_bank() {
        for (int l = 0; l < 3; ++l)
            std::swap(im[l], ims[l]);
        std::swap(imv, imvs);
    }
    void push_pc() {
        u16 l = (u16)(pc & 0xFFFF), h = (u16)(pc >> 16);
        if (cpc) {
            mem[--sp] = h;
            mem[--sp] = l;
        } else {
            mem[--sp] = l;
            mem[--sp] = h;
        }
    }
    void pop_pc() {
        u16 h, l;
        if (cpc) {
            l = mem[sp++];
            h = mem[sp++];
        } else {
            h = mem[sp++];
            l = mem[sp++];
        }
        pc = l | ((u32)h << 16);
    }
};

enum Ins { NOP, INC_A0, INC_A1, EINT, DINT, MOD3, ST0, ST2, RETI, RETIC, REP, BR, CNTX_S, CNTX_R, TRIG };

struct Fed {
    Ins ins;
    u16 w0, w1;
    bool two;
    u16 imm;
};

// one cycle of the model for instruction f (already placed at pc)
void model_step(Model& m, const Fed& f) {
    m.last_entry = -1;
    for (int l = 0; l < 3; ++l)
        if (m.latch[l]) {
            m.latch[l] = false;
            m.ip[l] = 1;
        }
    if (m.vlatch) {
        m.vlatch = false;
        m.ipv = 1;
    }
    u32 fetch_pc = m.pc;
    m.pc += f.two ? 2 : 1;
    if (m.rep) {
        if (m.repc == 0)
            m.rep = false;
        else {
            --m.repc;
            m.pc = fetch_pc; // the one-word instruction is executed again
        }
    }
    switch (f.ins) {
    case NOP:
    case INC_A0:
    case INC_A1:
        break;
    case EINT:
        m.ie = 1;
        break;
    case DINT:
        m.ie = 0;
        break;
    case MOD3: // nimc0 ic0-2(1-3) ou(4-6) ie(7) im0-2(8-10) imv(11) ccnta(13) cpc(14) crep(15)
        for (int l = 0; l < 3; ++l) {
            m.ic[l] = (f.imm >> (1 + l)) & 1;
            m.im[l] = (f.imm >> (8 + l)) & 1;
        }
        m.ie = (f.imm >> 7) & 1;
        m.imv = (f.imm >> 11) & 1;
        m.cpc = (f.imm >> 14) & 1;
        break;
    case ST0: // sat0 ie1 im0(2) im1(3) ...
        m.ie = (f.imm >> 1) & 1;
        m.im[0] = (f.imm >> 2) & 1;
        m.im[1] = (f.imm >> 3) & 1;
        break;
    case ST2: // ... im2 at bit 6
        m.im[2] = (f.imm >> 6) & 1;
        break;
    case RETI:
        m.pop_pc();
        m.ie = 1;
        break;
    case RETIC:
        m.pop_pc();
        m.ie = 1;
        m.swap_bank();
        break;
    case REP:
        m.rep = true;
        m.repc = f.imm;
        break;
    case BR:
        m.pc = f.w1 | ((u32)((f.w0 >> 4) & 3) << 16);
        break;
    case CNTX_S:
    case CNTX_R:
        m.swap_bank();
        break;
    case TRIG: // the guest itself writes the software-trigger register: the request is raised DURING this instruction,
               // after the latches were sampled for it - it is sampled at the next boundary, not lost and not entered now
        m.trigger(f.imm);
        break;
    }
    if (m.ie && !m.rep) {
        bool handled = false;
        for (int l = 0; l < 3 && !handled; ++l)
            if (m.im[l] && m.ip[l]) {
                m.ip[l] = 0;
                m.ie = 0;
                m.push_pc();
                m.pc = 0x0006 + 8 * l;
                if (m.ic[l])
                    m.swap_bank();
                handled = true;
                ++m.entries[l];
                m.last_entry = l;
            }
        if (!handled && m.imv && m.ipv) {
            m.ipv = 0;
            m.ie = 0;
            m.push_pc();
            m.pc = m.vaddr;
            if (m.vcs)
                m.swap_bank();
            ++m.entries[3];
            m.last_entry = 3;
        }
    }
    // end of cycle: peripherals tick
    for (int i = 0; i < 2; ++i)
        if (m.timer[i] > 0 && --m.timer[i] == 0)
            m.trigger(i == 0 ? (1u << 10) : (1u << 9));
}

} // namespace

int main(int argc, char** argv) {
    Ctx ctx;
    ctx.parse(argc, argv, "C07");
    const unsigned steps = 400;

    if (ctx.mode == "wiring") {
        // each peripheral source reaches exactly its documented IRQ number (icu.md / teakra wiring)
        for (u64 c = 0; c < ctx.cases; ++c) {
            if (!ctx.selected(c))
                continue;
            Rng g = ctx.case_rng(c);
            Teakra::UserConfig cfg;
            Teakra::Teakra t(cfg);
            t.Reset();
            int src = (int)(c % 5);
            u16 expect = 0;
            const char* name = "";
            RunResult rr = Classify([&] {
                switch (src) {
                case 0:
                case 1: {
                    name = src == 0 ? "timer0" : "timer1";
                    u16 base = (u16)(0x20 + 0x10 * src);
                    u32 start = (u32)g.range(1, 30);
                    t.MMIOWrite(base + 4, (u16)start);
                    t.MMIOWrite(base + 6, 0);
                    t.MMIOWrite(base + 0, (u16)((g.below(2) << 2) | (1 << 10)));
                    t.Run(start + 1);
                    expect = src == 0 ? (1u << 10) : (1u << 9);
                    break;
                }
                case 2:
                    name = "apbp";
                    if (g.chance(1, 2))
                        t.SendData((u8)g.below(3), (u16)g.bits(16));
                    else
                        t.SetSemaphore((u16)(1u << g.below(16)));
                    expect = 1u << 14;
                    break;
                case 3:
                    name = "dma";
                    t.MMIOWrite(0x1BE, (u16)g.below(8));
                    t.MMIOWrite(0x1DE, 0x40C0);
                    expect = 1u << 15;
                    break;
                case 4:
                    name = "btdmp0";
                    t.MMIOWrite(0x2BE, 1);
                    t.MMIOWrite(0x2C6, (u16)g.bits(16));
                    t.Run(4097);
                    expect = 1u << 11;
                    break;
                }
            });
            u16 got = t.MMIORead(0x200);
            ctx.count("cases");
            ctx.count("wiring_checked");
            ctx.seen("nt", std::string("wiring:") + name);
            if (rr.outcome != OK || got != expect)
                ctx.violation(std::string("wiring:") + name,
                              fmt("%s raised pending=%04x, documented IRQ mask %04x (%s)", name, got, expect, outcome_name(rr.outcome)), c);
        }
        return ctx.finish();
    }

    for (u64 c = 0; c < ctx.cases; ++c) {
        if (!ctx.selected(c))
            continue;
        Rng g = ctx.case_rng(c);
        Teakra::UserConfig cfg;
        Teakra::Teakra t(cfg);
        t.Reset();
        Model m;
        auto& regs = t.GetRegisterState();
        // start state
        m.sp = 0x1000;
        regs.sp = m.sp;
        m.pc = 0x0400 + (u32)g.below(0x100);
        regs.pc = m.pc;
        m.cpc = (u16)g.below(2); // word order of pushed return addresses: fixed per history (changing it between
        regs.cpc = m.cpc;         // a push and the matching pop is a guest bug, not an interrupt-delivery question)
        // every vector is written before any routing (real firmware does; unwritten vectors are C17's subject)
        for (int irq = 0; irq < 16; ++irq) {
            m.vector[irq] = 0x1000 + (u32)g.below(0x1E000);
            m.vctx[irq] = g.chance(1, 3);
            t.MMIOWrite((u16)(0x212 + irq * 4), (u16)((m.vector[irq] >> 16) | (m.vctx[irq] ? 0x8000 : 0)));
            t.MMIOWrite((u16)(0x214 + irq * 4), (u16)(m.vector[irq] & 0xFFFF));
        }
        std::vector<std::string> hist;
        auto note = [&](const std::string& s) {
            hist.push_back(s);
            if (hist.size() > 30)
                hist.erase(hist.begin());
        };
        bool bad = false;
        int depth = 0; // model-side nesting estimate used only to choose what to feed
        Fed pending_rep_body{};
        bool rep_body_next = false;
        for (unsigned st = 0; st < steps && !bad; ++st) {
            // ---------------- host operations between instruction boundaries
            if (!m.rep && !rep_body_next)
                for (int k = 0; k < 2; ++k) {
                    unsigned sel = (unsigned)g.below(100);
                    if (sel < 14) {
                        u16 bits = (u16)(1u << g.below(16));
                        if (g.chance(1, 3))
                            bits |= (u16)(1u << g.below(16));
                        if (g.chance(1, 8))
                            bits |= (u16)g.bits(16);
                        t.MMIOWrite(0x204, bits);
                        m.trigger(bits);
                        note(fmt("trigger %04x", bits));
                        ctx.count("op_trigger");
                    } else if (sel < 20) {
                        u16 bits = g.chance(1, 2) ? (u16)g.bits(16) : (u16)(1u << g.below(16));
                        t.MMIOWrite(0x202, bits);
                        m.request &= ~bits;
                        note(fmt("ack %04x", bits));
                        ctx.count("op_ack");
                    } else if (sel < 28) {
                        int l = (int)g.below(4);
                        u16 mask = g.chance(1, 3) ? (u16)g.bits(16) : (u16)((1u << g.below(16)) | (1u << g.below(16)));
                        if (g.chance(1, 6))
                            mask = 0;
                        if (l < 3) {
                            t.MMIOWrite((u16)(0x206 + 2 * l), mask);
                            m.enable[l] = mask;
                        } else {
                            t.MMIOWrite(0x20C, mask);
                            m.venable = mask;
                        }
                        note(fmt("route line%d=%04x", l, mask));
                        ctx.count("op_route");
                    } else if (sel < 31) {
                        int irq = (int)g.below(16);
                        m.vector[irq] = 0x1000 + (u32)g.below(0x1E000);
                        m.vctx[irq] = g.chance(1, 3);
                        t.MMIOWrite((u16)(0x212 + irq * 4), (u16)((m.vector[irq] >> 16) | (m.vctx[irq] ? 0x8000 : 0)));
                        t.MMIOWrite((u16)(0x214 + irq * 4), (u16)(m.vector[irq] & 0xFFFF));
                        note(fmt("vector irq%d=%05x ctx=%d", irq, m.vector[irq], (int)m.vctx[irq]));
                        ctx.count("op_vector");
                    } else if (sel < 34) {
                        t.SendData((u8)g.below(3), (u16)g.bits(16));
                        m.trigger(1u << 14);
                        note("SendData");
                        ctx.count("op_senddata");
                    } else if (sel < 38) {
                        int i = (int)g.below(2);
                        if (m.timer[i] == 0) {
                            u16 base = (u16)(0x20 + 0x10 * i);
                            int start = (int)g.range(1, 5);
                            t.MMIOWrite(base + 4, (u16)start);
                            t.MMIOWrite(base + 6, 0);
                            t.MMIOWrite(base + 0, 1 << 10); // single mode, restart
                            m.timer[i] = start;
                            note(fmt("timer%d fires in %d", i, start));
                            ctx.count("op_timer");
                        }
                    } else if (sel < 40) {
                        t.MMIOWrite(0x1DE, 0x40C0); // one-element DMA DSP[0] -> DSP[0]; completes at once
                        m.trigger(1u << 15);
                        note("dma start");
                        ctx.count("op_dma");
                    }
                }
            // ---------------- feed the next instruction at pc
            Fed f{};
            if (m.rep || rep_body_next) {
                f = pending_rep_body; // the repeated one-word instruction stays in place
                rep_body_next = false;
            } else {
                unsigned sel = (unsigned)g.below(100);
                bool in_handler = depth > 0;
                bool latched = m.latch[0] || m.latch[1] || m.latch[2] || m.vlatch;
                if (sel >= 94 || (latched && g.chance(2, 5))) {
                    // mov a0l, [0x8204]: a request raised by the very instruction at whose end another one may be entered
                    f.ins = TRIG;
                    f.w0 = 0xD4BC;
                    f.w1 = 0x8204;
                    f.two = true;
                    f.imm = (u16)(1u << g.below(16));
                    if (g.chance(1, 3))
                        f.imm |= (u16)(1u << g.below(16));
                    regs.a[0] = f.imm;
                    ctx.count(latched ? "guest_trigger_while_request_latched" : "guest_trigger");
                } else if (in_handler && sel < 22) {
                    f.ins = g.chance(1, 2) ? RETI : RETIC;
                    f.w0 = f.ins == RETI ? 0x45C0 : 0x45D0;
                } else if (sel < 40) {
                    f.ins = g.chance(1, 2) ? INC_A0 : INC_A1;
                    f.w0 = f.ins == INC_A0 ? 0x67D0 : 0x77D0;
                } else if (sel < 52) {
                    f.ins = EINT;
                    f.w0 = 0x4380;
                } else if (sel < 57) {
                    f.ins = DINT;
                    f.w0 = 0x43C0;
                } else if (sel < 67) {
                    f.ins = MOD3;
                    f.w0 = 0x0037;
                    f.two = true;
                    f.imm = (u16)g.bits(16);
                    if (g.chance(2, 3))
                        f.imm |= 0x0F80; // mostly enabled
                    f.imm = (u16)((f.imm & ~0x4000) | (m.cpc << 14));
                    f.w1 = f.imm;
                } else if (sel < 71) {
                    f.ins = ST0;
                    f.w0 = 0x5E08; // mov #imm16, st0
                    f.two = true;
                    f.imm = f.w1 = (u16)g.bits(16);
                } else if (sel < 74) {
                    f.ins = ST2;
                    f.w0 = 0x5E0A; // mov #imm16, st2
                    f.two = true;
                    f.imm = f.w1 = (u16)(g.bits(16) & 0x03FF); // bits 10-15 of st2 are read-only / reserved
                } else if (sel < 79) {
                    f.ins = REP;
                    f.imm = (u16)g.below(4);
                    f.w0 = (u16)(0x0C00 | f.imm);
                    pending_rep_body = Fed{};
                    pending_rep_body.ins = g.chance(1, 2) ? INC_A0 : NOP;
                    pending_rep_body.w0 = pending_rep_body.ins == INC_A0 ? 0x67D0 : 0x0000;
                    rep_body_next = true;
                } else if (sel < 84) {
                    f.ins = BR;
                    u32 target = 0x0400 + (u32)g.below(0x1E000); // pure program area: words >= 0x20000 alias data memory (stack)
                    f.w0 = (u16)(0x4180 | ((target >> 16) << 4));
                    f.w1 = (u16)(target & 0xFFFF);
                    f.two = true;
                } else if (sel < 87) {
                    f.ins = g.chance(1, 2) ? CNTX_S : CNTX_R;
                    f.w0 = f.ins == CNTX_S ? 0xD380 : 0xD390;
                } else {
                    f.ins = NOP;
                    f.w0 = 0x0000;
                }
            }
            if (m.pc > 0x1FF00) { // keep inside the pure program area
                f = Fed{};
                f.ins = BR;
                f.w0 = 0x4180;
                f.w1 = 0x0400;
                f.two = true;
            }
            t.ProgramWrite(m.pc, f.w0);
            if (f.two)
                t.ProgramWrite(m.pc + 1, f.w1);
            note(fmt("@%05x %04x%s", m.pc, f.w0, f.two ? fmt(" %04x", f.w1).c_str() : ""));
            // ---------------- step both
            bool was_masked_pending = false;
            for (int l = 0; l < 3; ++l)
                was_masked_pending |= (m.ip[l] || m.latch[l]) && (!m.im[l] || !m.ie);
            RunResult rr = Classify([&] { t.Run(1); });
            model_step(m, f);
            ctx.count("steps");
            if (m.last_entry >= 0) {
                ctx.count(fmt("entries_line%d", m.last_entry));
                static const char* ins_names[] = {"nop", "inc_a0", "inc_a1", "eint", "dint", "mod3", "st0", "st2", "reti", "retic", "rep", "br", "cntx_s", "cntx_r", "trig"};
                ctx.seen("nt", fmt("entry:line%d:after-%s:depth%d%s", m.last_entry, ins_names[f.ins], depth > 2 ? 2 : depth,
                                   was_masked_pending ? ":was-held" : ""));
                ++depth;
            }
            if (f.ins == RETI || f.ins == RETIC)
                depth = depth > 0 ? depth - 1 : 0;
            if (was_masked_pending && m.last_entry < 0)
                ctx.count("steps_with_masked_request_held");
            if (m.rep)
                ctx.count("steps_inside_rep");
            // ---------------- compare
            std::string what, cls;
            auto cmp = [&](const char* n, u64 real, u64 model) {
                if (real != model && cls.empty()) {
                    cls = n;
                    what = fmt("%s: real %" PRIx64 " != model %" PRIx64, n, real, model);
                }
            };
            if (rr.outcome != OK) {
                cls = std::string("outcome-") + outcome_name(rr.outcome);
                what = rr.what;
            }
            cmp("pc", regs.pc, m.pc);
            cmp("sp", regs.sp, m.sp);
            cmp("ie", regs.ie, m.ie);
            for (int l = 0; l < 3; ++l) {
                cmp(fmt("ip%d", l).c_str(), regs.ip[l], m.ip[l]);
                cmp(fmt("im%d", l).c_str(), regs.im[l], m.im[l]);
            }
            cmp("ipv", regs.ipv, m.ipv);
            cmp("imv", regs.imv, m.imv);
            cmp("pending(0x200)", t.MMIORead(0x200), m.request);
            if (m.last_entry >= 0) {
                cmp("stack[sp]", t.DataRead(m.sp), m.mem[m.sp]);
                cmp("stack[sp+1]", t.DataRead((u16)(m.sp + 1)), m.mem[(u16)(m.sp + 1)]);
            }
            if (!cls.empty()) {
                bad = true;
                std::string h;
                for (auto& s : hist)
                    h += s + "; ";
                const char* phase = m.last_entry >= 0 ? "model-enters" : (regs.pc != m.pc ? "real-diverges" : "state");
                ctx.violation(fmt("irq:%s:%s", cls.c_str(), phase), what, c,
                              JObj().str("history_tail", h).num("step", st).num("model_entered_line", m.last_entry).done());
            }
        }
        ctx.count("cases");
        if (!bad && c < 2) {
            std::string h;
            for (auto& s : hist)
                h += s + "; ";
            ctx.sample(JObj().str("history_tail", h).num("entries_int0", (s64)m.entries[0]).num("entries_int1", (s64)m.entries[1])
                           .num("entries_int2", (s64)m.entries[2]).num("entries_vectored", (s64)m.entries[3]).done());
        }
    }
    return ctx.finish();
}
