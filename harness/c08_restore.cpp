// C08 — calls/returns, stack push/pop, interrupt entry/exit and context switches restore state exactly.
//
// Oracle: TWIN / metamorphic. Every case runs short programs on the REAL interpreter (bare rig of
// exec.h) from a seeded well-formed state and compares the state after "do X then undo X" with the
// state before (or with a twin machine that never did X). No arithmetic model: the only harness-side
// knowledge is (1) which RegisterState field a plain 16-bit register name denotes, (2) the word order
// the statement gives for the two pc words, (3) which status bits are read-only.
//
// Sections (round-robin over the case index; every shard sweeps all forms of a section from its own offset):
//   call     call/callr (16 conditions) and calla (a0l a1l a0 a1) to ret / reti / rets #k
//   pushpop  push R ; <clobber every register> ; pop R ; push R      (sat=1, sata=1, lp=0)
//   int      interrupt entry (int0/1/2/vectored, with and without context switch) at a random
//            instruction boundary of a straight-line program, handler = reti / retic, vs twin without
//   cntx     cntx s ; cntx r            banke   banke f ; banke f (64 f)        bankr   15 forms twice
// Hidden banks are pre-loaded with random values (a cntx s from a second random state) and made
// visible behaviourally: both twins execute one further cntx s / cntx r / bankr / banke and the
// then-visible registers are compared. Before a revealing cntx r the flags, repc, a1, b1 of both
// twins are overwritten with the same random values, so that what the one-way save slots hold shows.
//
// Programs are laid down as opcode words looked up through vf::Encodings (the tree's own decode table)
// by handler name + operand values; where two handlers of one name have operand lists of identical
// shape the documented base constant of decoder.h is used and cross-checked against the handler name.
// The tree's assembler is never used.
#include <functional>
#include <set>
#include "exec.h"

using namespace vf;

namespace {

// ------------------------------------------------------------------ encoding lookup
struct Pat {
    u32 tag;
    s64 val; // < 0: any
};
template <class T>
u32 TagOf() {
    Rec r;
    r.one(T{});
    return r.form.ops.at(0).first;
}
template <class T>
Pat P(s64 v = -1) {
    return Pat{TagOf<T>(), v};
}

const Encodings* ENC = nullptr;

std::vector<u16> FindAll(const char* name, std::initializer_list<Pat> pats, int expanded = -1) {
    std::vector<u16> out;
    for (u16 op : ENC->of(name)) {
        const Encoding& e = ENC->all[op];
        if (expanded >= 0 && (int)e.expanded != expanded)
            continue;
        if (e.form.ops.size() != pats.size())
            continue;
        size_t i = 0;
        bool ok = true;
        for (auto& p : pats) {
            if (e.form.ops[i].first != p.tag || (p.val >= 0 && e.form.ops[i].second != (u64)p.val)) {
                ok = false;
                break;
            }
            ++i;
        }
        if (ok)
            out.push_back(op);
    }
    return out;
}
[[noreturn]] void Die(const std::string& what) {
    std::fprintf(stderr, "C08 harness: %s\n", what.c_str());
    std::exit(3);
}
std::vector<u16> Need(const char* name, std::initializer_list<Pat> pats, int expanded = -1) {
    auto v = FindAll(name, pats, expanded);
    if (v.empty())
        Die(std::string("no encoding found for handler ") + name);
    return v;
}
// documented constant, cross-checked against the tree's decode table
u16 KnownOp(u16 op, const char* name) {
    if (std::string(ENC->all[op].form.name) != name)
        Die(fmt("opcode %04x is not '%s' in this tree but '%s'", op, name, ENC->all[op].form.name));
    return op;
}
std::vector<u16> Masked(const std::vector<u16>& v, u16 mask, u16 base) {
    std::vector<u16> o;
    for (u16 x : v)
        if ((x & mask) == base)
            o.push_back(x);
    if (o.empty())
        Die(fmt("no encoding with base %04x", base));
    return o;
}

RegName RegisterName(unsigned raw) { return At<Register, 0>::Extract((u16)raw, 0).GetName(); }
RegName SttModName(unsigned raw) { return At<ArArpSttMod, 0>::Extract((u16)raw, 0).GetName(); }

const char* RegStr(RegName r) {
    static const char* n[] = {"a0",   "a0l",  "a0h",  "a0e",  "a1",   "a1l",  "a1h",  "a1e",  "b0",   "b0l",  "b0h",
                              "b0e",  "b1",   "b1l",  "b1h",  "b1e",  "r0",   "r1",   "r2",   "r3",   "r4",   "r5",
                              "r6",   "r7",   "y0",   "p",    "pc",   "sp",   "sv",   "lc",   "ar0",  "ar1",  "arp0",
                              "arp1", "arp2", "arp3", "ext0", "ext1", "ext2", "ext3", "stt0", "stt1", "stt2", "st0",
                              "st1",  "st2",  "cfgi", "cfgj", "mod0", "mod1", "mod2", "mod3", "undefine"};
    return n[(int)r];
}

// ------------------------------------------------------------------ field indices
struct IX {
    int pc, sp, sat, sata, lp, bcn, rep, repc, repcs, cpc, ie, prpage, crep, ccnta, a1s, b1s, ipv, imv, lc0, sv, y0,
        mod0c, stp16;
    int a[2], b[2], r[8], x[2], y[2], p[2], pe[2], ps[2], ip[3], im[3], ic[3], iu[2], ext[4];
    std::vector<int> flags; // the one-way (store-only) shadowed flags
    IX() {
        pc = FieldIndex("pc"), sp = FieldIndex("sp"), sat = FieldIndex("sat"), sata = FieldIndex("sata");
        lp = FieldIndex("lp"), bcn = FieldIndex("bcn"), rep = FieldIndex("rep"), repc = FieldIndex("repc");
        repcs = FieldIndex("repcs"), cpc = FieldIndex("cpc"), ie = FieldIndex("ie"), prpage = FieldIndex("prpage");
        crep = FieldIndex("crep"), ccnta = FieldIndex("ccnta"), a1s = FieldIndex("a1s"), b1s = FieldIndex("b1s");
        ipv = FieldIndex("ipv"), imv = FieldIndex("imv"), lc0 = FieldIndex("bkrep_stack[0].lc");
        sv = FieldIndex("sv"), y0 = FieldIndex("y[0]"), mod0c = FieldIndex("mod0_unk_const");
        stp16 = FieldIndex("stp16");
        for (int i = 0; i < 2; ++i) {
            a[i] = FieldIndex(fmt("a[%d]", i)), b[i] = FieldIndex(fmt("b[%d]", i));
            x[i] = FieldIndex(fmt("x[%d]", i)), y[i] = FieldIndex(fmt("y[%d]", i));
            p[i] = FieldIndex(fmt("p[%d]", i)), pe[i] = FieldIndex(fmt("pe[%d]", i)), ps[i] = FieldIndex(fmt("ps[%d]", i));
            iu[i] = FieldIndex(fmt("iu[%d]", i));
        }
        for (int i = 0; i < 8; ++i)
            r[i] = FieldIndex(fmt("r[%d]", i));
        for (int i = 0; i < 3; ++i)
            ip[i] = FieldIndex(fmt("ip[%d]", i)), im[i] = FieldIndex(fmt("im[%d]", i)), ic[i] = FieldIndex(fmt("ic[%d]", i));
        for (int i = 0; i < 4; ++i)
            ext[i] = FieldIndex(fmt("ext[%d]", i));
        for (const char* f : {"flm", "fvl", "fe", "fc0", "fc1", "fv", "fn", "fm", "fz", "fr"})
            flags.push_back(FieldIndex(f));
    }
};
const IX* X = nullptr;

// plain 16-bit registers: the RegisterState field (or accumulator part) a register NAME denotes.
// Status/config words (st*, stt*, mod*, cfg*, ar*, arp*) are deliberately NOT given a view here:
// their value is observed by pushing them a second time (faithfulness of the views is C20's subject).
bool PlainGet(RegName r, const CaseState& s, u64& out) {
    auto part = [&](int idx, int shift) { out = (s.v[idx] >> shift) & 0xFFFF; return true; };
    switch (r) {
    case RegName::a0l: return part(X->a[0], 0);
    case RegName::a0h: return part(X->a[0], 16);
    case RegName::a1l: return part(X->a[1], 0);
    case RegName::a1h: return part(X->a[1], 16);
    case RegName::b0l: return part(X->b[0], 0);
    case RegName::b0h: return part(X->b[0], 16);
    case RegName::b1l: return part(X->b[1], 0);
    case RegName::b1h: return part(X->b[1], 16);
    case RegName::r0: case RegName::r1: case RegName::r2: case RegName::r3:
    case RegName::r4: case RegName::r5: case RegName::r6: case RegName::r7:
        return part(X->r[(int)r - (int)RegName::r0], 0);
    case RegName::y0: return part(X->y0, 0);
    case RegName::sp: return part(X->sp, 0);
    case RegName::sv: return part(X->sv, 0);
    case RegName::lc: return part(X->lc0, 0); // lp == 0: the loop counter register is frame 0's
    case RegName::ext0: case RegName::ext1: case RegName::ext2: case RegName::ext3:
        return part(X->ext[(int)r - (int)RegName::ext0], 0);
    default: return false;
    }
}

// ------------------------------------------------------------------ comparison helpers
struct Ignore {
    std::vector<char> m;
    Ignore() : m(Fields().size(), 0) {}
    Ignore& operator()(int idx) {
        m[idx] = 1;
        return *this;
    }
};
// first differing field name ("" if none) and a text of all differences
std::string DiffX(const CaseState& a, const CaseState& b, const Ignore& ig, std::string* text = nullptr) {
    std::string first;
    auto& f = Fields();
    int n = 0;
    for (size_t i = 0; i < f.size(); ++i)
        if (!ig.m[i] && a.v[i] != b.v[i]) {
            if (first.empty())
                first = f[i].name;
            if (text && n++ < 10)
                *text += fmt("%s:%" PRIx64 "!=%" PRIx64 " ", f[i].name, a.v[i], b.v[i]);
        }
    return first;
}
// collapse array indices so that one defect gives one key: "r[3]" -> "r[]"
std::string KeyField(std::string f) {
    size_t p = f.find('[');
    if (p != std::string::npos) {
        size_t q = f.find(']', p);
        f = f.substr(0, p + 1) + f.substr(q);
    }
    return f;
}

struct Rig {
    Machine m;
    u32 at = 0;
    std::vector<u16> words;
    void begin(const CaseState& s) {
        m.clean();
        m.load(s);
        words.clear();
    }
    // hidden banks := the visible registers of h (made so by executing a context store), then s
    void begin_hidden(const CaseState& h, const CaseState& s, u16 cntx_s_op, u32 scratch_pc) {
        m.clean();
        CaseState hh = h;
        hh.v[X->pc] = scratch_pc;
        hh.v[X->ie] = 0;
        m.load(hh);
        m.prog(scratch_pc, cntx_s_op);
        m.run(1);
        Apply(s, m.core.regs);
        words.clear();
    }
    void put(u32 addr, u16 w) { m.prog(addr, w); }
    // Overwrite exactly the registers a context restore refills from its one-way save slots (flags, repc, a1, b1):
    // what the slots hold only shows if the visible values have changed since the store.
    void overwrite_restorables(const CaseState& cl) {
        auto set = [&](int idx) { Fields()[idx].set(m.core.regs, cl.v[idx]); };
        for (int f : X->flags)
            set(f);
        set(X->repc), set(X->a[1]), set(X->b[1]);
    }
    u64 reg(int idx) { return Fields()[idx].get(m.core.regs); }
};

std::string Hex(const std::vector<u16>& w) {
    std::string s;
    for (u16 x : w)
        s += fmt("%04x ", x);
    return s;
}

// ------------------------------------------------------------------ instruction pool for the interrupted program
struct PoolIns {
    u16 op;
    bool two;
};
bool SafeSrc(RegName r) {
    switch (r) {
    case RegName::r0: case RegName::r1: case RegName::r2: case RegName::r3: case RegName::r4: case RegName::r5:
    case RegName::r7: case RegName::y0: case RegName::sv: case RegName::ext0: case RegName::ext1:
    case RegName::ext2: case RegName::ext3: case RegName::a0l: case RegName::a1l: case RegName::a0h:
    case RegName::a1h: case RegName::b0l: case RegName::b1l: case RegName::b0h: case RegName::b1h:
    case RegName::cfgi: case RegName::cfgj:
        return true;
    default:
        return false;
    }
}
bool SafeDst(RegName r) { return SafeSrc(r) && r != RegName::cfgi && r != RegName::cfgj; }

std::vector<PoolIns> BuildPool() {
    std::vector<PoolIns> pool;
    // moda4 / moda3: shr shl ror rol clr not neg rnd pacr clrr inc dec copy aX/bX, any condition (one word)
    for (u16 op : ENC->of("moda4"))
        pool.push_back({op, false});
    for (u16 op : ENC->of("moda3"))
        pool.push_back({op, false});
    // alu #imm8, aX (0xC000 | alu<<9 | ax<<8 | imm8): or and xor add cmp sub
    for (u16 op : Masked(Need("alu", {P<Alu>(), P<Imm8>(), P<Ax>()}, 0), 0xF000, 0xC000))
        pool.push_back({op, false});
    // alu ##imm16, aX (0x80C0 | alu<<9 | ax<<8), two words
    for (u16 op : Masked(Need("alu", {P<Alu>(), P<Imm16>(), P<Ax>()}, 1), 0xF0FF, 0x80C0))
        pool.push_back({op, true});
    // mov reg, reg (0x5800 | b<<5 | a)
    for (u16 op : Masked(Need("mov", {P<Register>(), P<Register>()}, 0), 0xFC00, 0x5800)) {
        const Form& f = ENC->all[op].form;
        if (SafeSrc(RegisterName((unsigned)f.ops[0].second)) && SafeDst(RegisterName((unsigned)f.ops[1].second)))
            pool.push_back({op, false});
    }
    // mov ##imm16, reg (0x5E00 | reg), two words
    for (u16 op : Masked(Need("mov", {P<Imm16>(), P<Register>()}, 1), 0xFFE0, 0x5E00)) {
        const Form& f = ENC->all[op].form;
        if (SafeDst(RegisterName((unsigned)f.ops[1].second)))
            pool.push_back({op, true});
    }
    // alm op reg, aX (0x80A0 | alm<<9 | ax<<8 | reg): or and xor add tst0 tst1 cmp sub addh addl subh subl cmpu
    for (u16 op : Masked(Need("alm", {P<Alm>(), P<Register>(), P<Ax>()}, 0), 0xE0E0, 0x80A0)) {
        const Form& f = ENC->all[op].form;
        u64 alm = f.ops[0].second;
        if (alm == 8 || alm == 13 || alm == 14) // msu sqr sqra: keep the multiplier out of it
            continue;
        if (SafeSrc(RegisterName((unsigned)f.ops[1].second)))
            pool.push_back({op, false});
    }
    return pool;
}

// ------------------------------------------------------------------ push/pop forms
enum PPKind { PLAIN, WORD, R6, X0, X1, Y1, REPC, PRPAGE, ABE, PX, ACC4, ACC2 };
struct PPForm {
    std::string name;
    PPKind kind;
    RegName rn = RegName::undefine;
    int idx = 0;                          // ABE/ACC: 0 b0 1 b1 2 a0 3 a1 ; PX: 0/1
    std::vector<std::vector<u16>> pushes; // per stage: equivalent encodings (unused bits)
    std::vector<std::vector<u16>> pops;
    unsigned words = 1;
};

int AccField(int abIdx) { return abIdx < 2 ? X->b[abIdx] : X->a[abIdx - 2]; }

bool PPView(const PPForm& f, const CaseState& s, u64& out) {
    switch (f.kind) {
    case PLAIN: return PlainGet(f.rn, s, out);
    case WORD: return false;
    case R6: out = s.v[X->r[6]]; return true;
    case X0: out = s.v[X->x[0]]; return true;
    case X1: out = s.v[X->x[1]]; return true;
    case Y1: out = s.v[X->y[1]]; return true;
    case REPC: out = s.v[X->repc]; return true;
    case PRPAGE: out = s.v[X->prpage]; return true;
    case ABE: out = (s.v[AccField(f.idx)] >> 32) & 0xFF; return true;
    case PX: out = s.v[X->p[f.idx]] | (s.v[X->pe[f.idx]] << 32); return true;
    case ACC4: case ACC2: out = s.v[AccField(f.idx)]; return true;
    }
    return false;
}

std::vector<PPForm> BuildPushPop() {
    std::vector<PPForm> v;
    // push reg = 0x5E40 | reg ; pop reg = 0x5E60 | reg
    for (unsigned raw = 0; raw < 32; ++raw) {
        RegName rn = RegisterName(raw);
        if (rn == RegName::pc || rn == RegName::p || rn == RegName::a0 || rn == RegName::a1)
            continue; // not 16-bit registers (DESIGN C08 Interpretation)
        PPForm f;
        f.name = RegStr(rn);
        f.rn = rn;
        u64 dummy;
        f.kind = PlainGet(rn, DefaultState(), dummy) ? PLAIN : WORD;
        f.pushes = {Need("push", {P<Register>(raw)})};
        f.pops = {Need("pop", {P<Register>(raw)})};
        v.push_back(f);
    }
    // push/pop ar0 ar1 arp0..3 stt0..2 mod0..3: push = 0xD3D0 | w ; pop = 0x80C7 | w<<8
    for (unsigned raw = 0; raw < 16; ++raw) {
        RegName rn = SttModName(raw);
        if (rn == RegName::undefine)
            continue;
        PPForm f;
        f.name = RegStr(rn);
        f.rn = rn;
        f.kind = WORD;
        f.pushes = {Need("push", {P<ArArpSttMod>(raw)})};
        f.pops = {Need("pop", {P<ArArpSttMod>(raw)})};
        v.push_back(f);
    }
    auto single = [&](const char* nm, PPKind k, const char* pushh, const char* poph) {
        PPForm f;
        f.name = nm;
        f.kind = k;
        f.pushes = {Need(pushh, {})};
        f.pops = {Need(poph, {})};
        v.push_back(f);
    };
    single("r6", R6, "push_r6", "pop_r6");             // 0xD4D7 / 0x0024
    single("x0", X0, "push_x0", "pop_x0");             // 0xD4D4 / 0xD494
    single("x1", X1, "push_x1", "pop_x1");             // 0xD4D5 / 0xD495
    single("y1", Y1, "push_y1", "pop_y1");             // 0xD4D6 / 0x0004
    single("repc", REPC, "push_repc", "pop_repc");     // 0xD7F8 / 0xD7F0
    single("prpage", PRPAGE, "push_prpage", "pop_prpage"); // 0xD7FC / 0xD7F4
    static const char* abn[] = {"b0", "b1", "a0", "a1"};
    for (int i = 0; i < 4; ++i) {
        // push b0e/b1e/a0e/a1e = 0xD7C8 | i<<1 ; pop = 0x47B4 | i
        auto pushe = Need("push", {P<Abe>(i)});
        auto pope = Need("pop", {P<Abe>(i)});
        PPForm f;
        f.name = std::string(abn[i]) + "e";
        f.kind = ABE;
        f.idx = i;
        f.pushes = {pushe};
        f.pops = {pope};
        v.push_back(f);
        // pusha a0/a1 = 0x4384 | x<<6 (bits 0,1 unused) ; pusha b0/b1 = 0xD788 | x<<1 (bit 0 unused);
        // popa b0 b1 a0 a1 = 0x47B0 | i. The two pusha handlers have identically shaped operand lists, so
        // they are told apart by the documented base constant (cross-checked against the handler name).
        std::vector<u16> pusha;
        if (i >= 2)
            for (u16 u = 0; u < 4; ++u)
                pusha.push_back(KnownOp((u16)(0x4384 | ((i - 2) << 6) | u), "pusha"));
        else
            for (u16 u = 0; u < 2; ++u)
                pusha.push_back(KnownOp((u16)(0xD788 | (i << 1) | u), "pusha"));
        auto popa = Need("popa", {P<Ab>(i)});
        PPForm g;
        g.name = std::string(abn[i]) + ":e+pusha";
        g.kind = ACC4;
        g.idx = i;
        g.pushes = {pushe, pusha};
        g.pops = {popa, pope};
        g.words = 3;
        v.push_back(g);
        PPForm h;
        h.name = std::string(abn[i]) + ":pusha32";
        h.kind = ACC2;
        h.idx = i;
        h.pushes = {pusha};
        h.pops = {popa};
        h.words = 2;
        v.push_back(h);
    }
    for (int i = 0; i < 2; ++i) {
        // push p0/p1 = 0xD78C | i<<1 (bit 0 unused) ; pop p0/p1 = 0xD496 | i (pop b0/b1 = 0x0006 | x<<5 has the
        // same operand shape, hence the constant)
        PPForm f;
        f.name = fmt("p%d", i);
        f.kind = PX;
        f.idx = i;
        f.pushes = {Need("push", {P<Px>(i)})};
        f.pops = {{KnownOp((u16)(0xD496 | i), "pop")}};
        f.words = 2;
        v.push_back(f);
    }
    return v;
}

struct Tables {
    u16 nop, cntx_s, cntx_r, reti_true, retic_true, cmp_b0_b1;
    u16 retic_cond[16];
    std::vector<PoolIns> pool;
    std::vector<PPForm> pp;
    std::vector<std::pair<std::string, u16>> bankr; // 15 forms
    Tables() {
        nop = Need("nop", {})[0];         // 0x0000
        cntx_s = Need("cntx_s", {})[0];   // 0xD380 cntx s
        cntx_r = Need("cntx_r", {})[0];   // 0xD390 cntx r
        reti_true = Need("reti", {P<Cond>(0)})[0];   // 0x45C0 reti true
        retic_true = Need("retic", {P<Cond>(0)})[0]; // 0x45D0 retic true
        cmp_b0_b1 = Need("cmp_b0_b1", {})[0];        // 0xD483 cmp b0, b1 (flags only)
        for (int c = 0; c < 16; ++c)
            retic_cond[c] = Need("retic", {P<Cond>(c)})[0]; // 0x45D0 | cond
        pool = BuildPool();
        pp = BuildPushPop();
        bankr.push_back({"all", Need("bankr", {})[0]}); // 0x8CDF bankr
        for (int a = 0; a < 2; ++a)
            bankr.push_back({fmt("ar%d", a), Need("bankr", {P<Ar>(a)})[0]}); // 0x8CDC | a
        for (int p = 0; p < 4; ++p)
            bankr.push_back({fmt("arp%d", p), Need("bankr", {P<Arp>(p)})[0]}); // 0x8CD8 | p
        for (int a = 0; a < 2; ++a)
            for (int p = 0; p < 4; ++p)
                bankr.push_back({fmt("ar%d+arp%d", a, p), Need("bankr", {P<Ar>(a), P<Arp>(p)})[0]}); // 0x8CD0|a<<2|p
    }
};

u32 RandomCodeBase(Rng& g) {
    // program memory of the rig is word addresses [0, 0x20000); keep clear of the vectors and of the top
    static const u32 edge[] = {0xFFF0, 0xFFFC, 0xFFFD, 0xFFFE, 0xFFFF, 0x10000, 0x10001, 0x100, 0x1FE00};
    if (g.chance(1, 4))
        return g.pick(edge);
    return (u32)g.range(0x100, 0x1FE00);
}
void PlaceStack(Rng& g, CaseState& s) { s.v[X->sp] = 0x4008 + g.below(0xFF0); }

} // namespace

int main(int argc, char** argv) {
    Ctx ctx;
    ctx.parse(argc, argv, "C08");
    Encodings enc;
    ENC = &enc;
    IX ix;
    X = &ix;
    Tables T;
    Rig A, B;
    const u32 kScratchPc = 0x30; // where the hidden-bank initialiser (cntx s) is executed

    // call forms: 16 x call, 16 x callr, calla a0l a1l a0 a1
    const unsigned kCallForms = 16 + 16 + 4;
    enum { S_CALL, S_PUSHPOP, S_INT, S_CNTX, S_BANKE, S_BANKR, S_COUNT };
    // relative weights of the sections in the round-robin
    static const int kSchedule[] = {S_CALL, S_PUSHPOP, S_INT, S_CNTX, S_PUSHPOP, S_CALL, S_BANKE, S_INT, S_BANKR, S_PUSHPOP};
    const unsigned kSched = sizeof kSchedule / sizeof kSchedule[0];

    for (u64 c = 0; c < ctx.cases; ++c) {
        if (!ctx.selected(c))
            continue;
        Rng g = ctx.case_rng(c);
        const int section = kSchedule[c % kSched];
        // form index inside the section: every shard sweeps all forms, starting at a different offset
        const u64 fi = c / kSched + (u64)ctx.shard * 7919u;
        ctx.count("cases");
        bool bad = false;
        std::string progtxt;
        CaseState s0;
        auto fail = [&](const std::string& key, const std::string& what, const std::string& extra = "") {
            if (bad)
                return;
            bad = true;
            JObj j;
            j.str("what", what).str("program", progtxt).str("extra", extra).raw("state", StateJson(s0));
            ctx.violation(key, what, c, j.done());
        };
        auto step = [&](Rig& r, const std::string& keybase, const char* where) -> bool {
            RunResult rr = r.m.run(1);
            if (rr.outcome != OK) {
                fail(keybase + ":outcome:" + outcome_name(rr.outcome),
                     fmt("unexpected %s (%s) at %s", outcome_name(rr.outcome), rr.what.c_str(), where));
                return false;
            }
            return true;
        };

        if (section == S_CALL) {
            // ---------------------------------------------------------------- call ... ret
            unsigned form = (unsigned)(fi % kCallForms);
            CaseState s = RandomState(g);
            PlaceStack(g, s);
            u32 pc0 = RandomCodeBase(g);
            unsigned cond = 0;
            std::string fname;
            std::vector<u16> callw;
            u32 target = 0;
            auto far_target = [&](u32 lim) {
                for (;;) {
                    u32 t = (u32)g.range(0x40, lim - 0x10);
                    if (t + 8 < pc0 || t > pc0 + 8)
                        return t;
                }
            };
            if (form < 16) {
                cond = form;
                fname = "call";
                target = g.chance(1, 3) ? far_target(0x10000) : far_target(0x1FF00);
                // call addr18, cond = 0x41C0 | (addr>>16)<<4 | cond ; second word = addr & 0xFFFF
                callw = {g.pick(Need("call", {P<Address18_16>(), P<Address18_2>(target >> 16), P<Cond>(cond)})),
                         (u16)(target & 0xFFFF)};
            } else if (form < 32) {
                cond = form - 16;
                fname = "callr";
                int off;
                do
                    off = (int)g.below(128) - 64;
                while (off == 0 || off == -1); // 0: target is the return address; -1: target is the callr itself
                target = pc0 + 1 + (u32)off;
                // callr rel7, cond = 0x1000 | (rel7 & 0x7F)<<4 | cond
                callw = {g.pick(Need("callr", {P<RelAddr7>(off & 0x7F), P<Cond>(cond)}))};
            } else {
                unsigned k = form - 32;
                unsigned x = k & 1;
                if (k < 2) {
                    fname = fmt("calla:a%ul", x);
                    target = far_target(0x10000);
                    callw = {KnownOp((u16)(0xD480 | (x << 8)), "calla")}; // calla a0l / a1l
                    s.v[X->a[x]] = sext((g.bits(40) & ~0xFFFFull) | target, 40);
                } else {
                    fname = fmt("calla:a%u", x);
                    target = g.chance(1, 3) ? far_target(0x10000) : far_target(0x1FF00);
                    callw = {KnownOp((u16)(0xD381 | (x << 4)), "calla")}; // calla a0 / a1
                    s.v[X->a[x]] = sext((g.bits(40) & ~0x3FFFFull) | target, 40);
                }
            }
            const u32 ret_addr = pc0 + (u32)callw.size();
            // matching return: ret true / ret <same cond> / reti true / reti <same cond> / rets #k
            unsigned rk = (unsigned)g.below(5);
            unsigned k8 = 0;
            u16 retw;
            std::string rname;
            unsigned rcond = (rk == 1 || rk == 3) ? cond : 0;
            if (rk < 2) {
                retw = Need("ret", {P<Cond>(rcond)})[0]; // ret cond = 0x4580 | cond
                rname = rcond ? "ret:samecond" : "ret";
            } else if (rk < 4) {
                retw = Need("reti", {P<Cond>(rcond)})[0]; // reti cond = 0x45C0 | cond
                rname = rcond ? "reti:samecond" : "reti";
            } else {
                static const unsigned ks[] = {0, 1, 2, 3, 7, 0x80, 0xFF};
                k8 = g.chance(1, 2) ? g.pick(ks) : (unsigned)g.below(256);
                retw = Need("rets", {P<Imm8>(k8)})[0]; // rets #imm8 = 0x0900 | imm8
                rname = "rets";
            }
            s.v[X->pc] = pc0;
            s0 = s;
            A.begin(s);
            for (size_t i = 0; i < callw.size(); ++i)
                A.put(pc0 + (u32)i, callw[i]);
            A.put(target, retw);
            progtxt = fmt("@%05x: %s(%s) ; @%05x: %04x(%s #%u)", pc0, Hex(callw).c_str(), fname.c_str(), target, retw,
                          rname.c_str(), k8);
            const u16 sp0 = (u16)s.v[X->sp];
            const unsigned cpc = (unsigned)s.v[X->cpc];
            std::string kb = "call:" + fname;
            if (!step(A, kb, "call"))
                continue;
            CaseState s1 = A.m.capture();
            std::vector<MemAccess> log1 = A.m.log();
            Ignore igpc;
            igpc(X->pc);
            if (s1.v[X->pc] == ret_addr) {
                // not taken: behaves as the inlined (empty) subroutine
                ctx.count("call_not_taken");
                ctx.count(fmt("call_not_taken_c%u", cond));
                std::string txt, f = DiffX(s1, s, igpc, &txt);
                if (!f.empty())
                    fail(kb + ":not-taken:changed:" + KeyField(f), "a call that is not taken changed a register", txt);
                for (auto& a : log1)
                    if (a.write)
                        fail(kb + ":not-taken:wrote-memory", "a call that is not taken wrote memory");
                if (!bad)
                    ctx.seen("nt", fmt("call:%s:cond=%u:not-taken:cpc=%u", fname.c_str(), cond, cpc));
            } else if (s1.v[X->pc] == target) {
                ctx.count("call_taken");
                ctx.count(fmt("call_taken_c%u", cond));
                ctx.count(fmt("call_taken_cpc%u", cpc));
                if (s1.v[X->sp] != (u16)(sp0 - 2))
                    fail(kb + ":sp-after-call", "call did not move sp down by two words",
                         fmt("sp0=%04x sp=%04" PRIx64, sp0, s1.v[X->sp]));
                // statement: cpc==1: high word pushed first, then low (low word at the lower address); cpc==0 reverse
                u16 hi = (u16)(ret_addr >> 16), lo = (u16)(ret_addr & 0xFFFF);
                u16 w_upper = A.m.data((u16)(sp0 - 1)), w_lower = A.m.data((u16)(sp0 - 2));
                u16 e_upper = cpc == 1 ? hi : lo, e_lower = cpc == 1 ? lo : hi;
                if (w_upper != e_upper || w_lower != e_lower)
                    fail(kb + fmt(":stack-words:cpc=%u", cpc), "return address words on the stack are not in the stated order",
                         fmt("ret=%05x [sp0-1]=%04x [sp0-2]=%04x expected %04x %04x", ret_addr, w_upper, w_lower, e_upper,
                             e_lower));
                if (bad || !step(A, kb, "return"))
                    continue;
                CaseState s2 = A.m.capture();
                std::string kr = kb + ":" + rname;
                if (s2.v[X->pc] != ret_addr)
                    fail(kr + fmt(":resume-pc:cpc=%u", cpc), "return did not resume at the instruction after the call",
                         fmt("expected pc=%05x got %05" PRIx64, ret_addr, s2.v[X->pc]));
                u16 esp = (u16)(sp0 + (rk == 4 ? k8 : 0));
                if (s2.v[X->sp] != esp)
                    fail(kr + ":sp-restored", "stack pointer not restored by the matching return",
                         fmt("expected sp=%04x got %04" PRIx64, esp, s2.v[X->sp]));
                // call ; ret  ==  inlined empty subroutine: nothing else changes (reti additionally sets ie)
                Ignore ig;
                ig(X->pc)(X->sp);
                CaseState e = s;
                if (rk == 2 || rk == 3)
                    e.v[X->ie] = 1;
                std::string txt, f = DiffX(s2, e, ig, &txt);
                if (!f.empty())
                    fail(kr + ":changed:" + KeyField(f), "call+return changed a register other than pc/sp", txt);
                if (!bad)
                    ctx.seen("nt", fmt("call:%s:cond=%u:taken:cpc=%u:%s:hi=%u", fname.c_str(), cond, cpc, rname.c_str(),
                                       (unsigned)(ret_addr >> 16)));
            } else {
                fail(kb + ":pc-after-call", "after a call pc is neither the target nor the next instruction",
                     fmt("pc=%05" PRIx64 " target=%05x next=%05x", s1.v[X->pc], target, ret_addr));
            }
            if (!bad && c < 2)
                ctx.sample(JObj().str("section", "call").str("program", progtxt).unum("cpc", cpc).done());
        } else if (section == S_PUSHPOP) {
            // ---------------------------------------------------------------- push R ; clobber ; pop R ; push R
            const PPForm& f = T.pp[fi % T.pp.size()];
            CaseState s = RandomState(g);
            PlaceStack(g, s);
            s.v[X->sat] = 1, s.v[X->sata] = 1; // saturation disabled (both directions)
            u32 pc0 = RandomCodeBase(g);
            s.v[X->pc] = pc0;
            if (f.kind == PX) {
                s.v[X->ps[f.idx]] = 0;
                s.v[X->pe[f.idx]] = (s.v[X->p[f.idx]] >> 31) & 1;
            }
            if (f.kind == ACC2)
                s.v[AccField(f.idx)] = sext(g.chance(1, 2) ? g.edge40() : g.bits(32), 32);
            s0 = s;
            A.begin(s);
            std::vector<u16> w;
            for (auto& st : f.pushes)
                w.push_back(g.pick(st));
            for (auto& st : f.pops)
                w.push_back(g.pick(st));
            for (auto& st : f.pushes)
                w.push_back(g.pick(st));
            for (size_t i = 0; i < w.size(); ++i)
                A.put(pc0 + (u32)i, w[i]);
            progtxt = fmt("@%05x: %s(push;pop;push %s)", pc0, Hex(w).c_str(), f.name.c_str());
            const u16 sp0 = (u16)s.v[X->sp];
            std::string kb = "pushpop:" + f.name;
            std::vector<std::pair<u32, u16>> w1, w2;
            bool ok = true;
            for (size_t i = 0; i < f.pushes.size() && ok; ++i) {
                ok = step(A, kb, "push");
                for (auto& a : A.m.log())
                    if (a.write)
                        w1.push_back({a.addr, a.value});
            }
            if (!ok)
                continue;
            if (A.reg(X->sp) != (u16)(sp0 - f.words) || w1.size() != f.words)
                fail(kb + ":push-sp", "push did not move sp down by the size of the value",
                     fmt("sp0=%04x sp=%04" PRIx64 " words written=%zu", sp0, A.reg(X->sp), w1.size()));
            for (size_t i = 0; i < w1.size() && !bad; ++i)
                if (w1[i].first != kDataBase + (u16)(sp0 - 1 - i))
                    fail(kb + ":push-address", "push wrote outside the words just below the old sp");
            if (bad)
                continue;
            // clobber: a program between push and pop may have changed every register. Kept: sp/pc, the
            // modes the statement fixes (sat, sata, no loop), and the read-only status bits (ip, iu, bcn, lp).
            CaseState cl = RandomState(g);
            cl.v[X->sat] = 1, cl.v[X->sata] = 1;
            cl.v[X->pc] = A.reg(X->pc), cl.v[X->sp] = A.reg(X->sp);
            for (int i = 0; i < 2; ++i)
                cl.v[X->iu[i]] = s.v[X->iu[i]];
            cl.v[X->mod0c] = s.v[X->mod0c];
            if (f.kind == PX)
                cl.v[X->ps[f.idx]] = 0;
            if (f.kind == PLAIN && f.rn == RegName::sp)
                ; // sp itself cannot be clobbered while it addresses the saved word
            Apply(cl, A.m.core.regs);
            for (size_t i = 0; i < f.pops.size() && ok; ++i)
                ok = step(A, kb, "pop");
            if (!ok)
                continue;
            CaseState s2 = A.m.capture();
            if (s2.v[X->sp] != sp0)
                fail(kb + ":sp-restored", "push;pop did not restore the stack pointer",
                     fmt("sp0=%04x sp=%04" PRIx64, sp0, s2.v[X->sp]));
            u64 v0 = 0, v2 = 0;
            if (PPView(f, s, v0) && PPView(f, s2, v2) && v0 != v2)
                fail(kb + ":value", "push;pop did not restore the register value",
                     fmt("before=%" PRIx64 " after=%" PRIx64, v0, v2));
            for (size_t i = 0; i < f.pushes.size() && ok && !bad; ++i) {
                ok = step(A, kb, "second push");
                for (auto& a : A.m.log())
                    if (a.write)
                        w2.push_back({a.addr, a.value});
            }
            if (!ok || bad)
                continue;
            if (w1 != w2) {
                std::string t;
                for (size_t i = 0; i < w1.size() && i < w2.size(); ++i)
                    t += fmt("%04x/%04x ", w1[i].second, w2[i].second);
                fail(kb + ":repush", "the register reads (pushes) differently after push;pop than before", t);
            }
            if (!bad) {
                ctx.count("pushpop_pairs");
                bool trivial = f.kind == PRPAGE; // only prpage == 0 can be executed (fetch uses prpage)
                if (!trivial)
                    ctx.seen("nt", "pushpop:" + f.name);
                ctx.seen("pushpop_regs", f.name);
                if (c < 2)
                    ctx.sample(JObj().str("section", "pushpop").str("program", progtxt).done());
            }
        } else if (section == S_INT) {
            // ---------------------------------------------------------------- interrupt entry + reti/retic vs twin
            const unsigned line = (unsigned)(fi % 4); // 0..2: int0..2, 3: vectored
            const bool cs = ((fi / 4) % 2) != 0;      // context switch on entry (ic[line] / vectored flag)
            const char* reveal_name[] = {"none", "cntx_s", "cntx_r", "bankr"};
            const unsigned reveal = (unsigned)((fi / 8) % 4);
            CaseState hidden = RandomState(g);
            CaseState s = RandomState(g);
            PlaceStack(g, s);
            s.v[X->ie] = 1;
            for (int i = 0; i < 3; ++i)
                s.v[X->ic[i]] = (line == (unsigned)i) ? cs : g.below(2);
            if (line < 3)
                s.v[X->im[line]] = 1;
            else
                s.v[X->imv] = 1;
            u32 pc0;
            do
                pc0 = RandomCodeBase(g);
            while (pc0 < 0x100);
            u32 vec = line < 3 ? 0x0006 + 8 * line : 0;
            // L counts single-cycle steps; one element in three programs is a single-instruction repeat "rep #n ; X"
            // (1 + n+1 steps): a request raised while the rep instruction itself or a non-final repetition executes is
            // held off (C07), one raised during the final repetition or any other instruction is entered at that boundary
            unsigned L = 0;
            const unsigned n_ins = 3 + (unsigned)g.below(6);
            const int rep_at = g.chance(1, 3) ? (int)g.below(n_ins) : -1;
            std::vector<u16> w;
            std::vector<u32> starts; // per step: address of the instruction executed in it
            for (unsigned i = 0; i < n_ins; ++i) {
                const PoolIns* pi = &g.pick(T.pool);
                if ((int)i == rep_at) {
                    while (pi->two)
                        pi = &g.pick(T.pool);
                    const unsigned n = (unsigned)g.below(4);
                    starts.push_back(pc0 + (u32)w.size());
                    w.push_back((u16)(0x0C00 | n));
                    ++L;
                    for (unsigned r = 0; r <= n; ++r) {
                        starts.push_back(pc0 + (u32)w.size());
                        ++L;
                    }
                    w.push_back(pi->op);
                    ctx.count("int_programs_with_rep");
                    continue;
                }
                starts.push_back(pc0 + (u32)w.size());
                w.push_back(pi->op);
                if (pi->two)
                    w.push_back((u16)g.edge16());
                ++L;
            }
            const u32 end = pc0 + (u32)w.size();
            starts.push_back(end);
            if (line == 3)
                do
                    vec = (u32)g.range(0x40, 0x1FF00);
                while (vec + 4 >= pc0 && vec <= end + 4);
            u16 rev_op = reveal == 1 ? T.cntx_s : reveal == 2 ? T.cntx_r : reveal == 3 ? T.bankr[0].second : T.nop;
            s.v[X->pc] = pc0;
            s0 = s;
            const unsigned k = (unsigned)g.below(L); // the interrupt is raised while instruction k executes
            for (Rig* r : {&A, &B}) {
                r->begin_hidden(hidden, s, T.cntx_s, kScratchPc);
                for (size_t i = 0; i < w.size(); ++i)
                    r->put(pc0 + (u32)i, w[i]);
                r->put(end, rev_op);
                r->put(vec, cs ? T.retic_true : T.reti_true);
            }
            // context-switching handlers also come as "<flag-only compare> ; retic <cond>" where cond is chosen to be
            // TRUE on the handler's own flags (it may well be false on the interrupted program's flags, which the
            // restore brings back): the return must be taken exactly once, on the flags valid when retic executes
            const bool cond_handler = cs && g.chance(1, 2);
            if (cond_handler)
                A.put(vec, T.cmp_b0_b1);
            progtxt = fmt("@%05x: %s; irq line %u cs=%d during instr %u; handler @%05x; reveal %s", pc0, Hex(w).c_str(), line,
                          (int)cs, k, vec, reveal_name[reveal]);
            std::string kb = fmt("int:%s:%s", line < 3 ? fmt("int%u", line).c_str() : "vint", cs ? "retic" : "reti");
            // twin B: uninterrupted
            CaseState Bk;
            bool ok = true;
            for (unsigned i = 0; i < L && ok; ++i) {
                ok = step(B, kb, "twin program");
                if (i == k)
                    Bk = B.m.capture();
            }
            if (!ok)
                continue;
            if (B.reg(X->pc) != end) {
                fail(kb + ":twin-pc", "uninterrupted straight-line program did not reach its end");
                continue;
            }
            CaseState Bend = B.m.capture();
            // A: interrupted
            for (unsigned i = 0; i < k && ok; ++i)
                ok = step(A, kb, "program before the interrupt");
            if (!ok)
                continue;
            if (line < 3)
                A.m.core.SignalInterrupt(line);
            else
                A.m.core.SignalVectoredInterrupt(vec, cs);
            if (!step(A, kb, "interrupted instruction"))
                continue;
            if (A.reg(X->pc) != vec) {
                // whether an interrupt is delivered is C07's subject; without an entry there is nothing to check
                ctx.count("int_not_entered");
                continue;
            }
            ctx.count(fmt("int_entered_%s", line < 3 ? fmt("int%u", line).c_str() : "vint"));
            if (cs)
                ctx.count("int_entered_with_context_switch");
            {
                const u16 spk = (u16)Bk.v[X->sp];
                const u32 ra = (u32)Bk.v[X->pc];
                const unsigned cpc = (unsigned)Bk.v[X->cpc];
                u16 hi = (u16)(ra >> 16), lo = (u16)ra;
                u16 w_upper = A.m.data((u16)(spk - 1)), w_lower = A.m.data((u16)(spk - 2));
                if (A.reg(X->sp) != (u16)(spk - 2))
                    fail(kb + ":entry-sp", "interrupt entry did not push two words");
                else if (w_upper != (cpc == 1 ? hi : lo) || w_lower != (cpc == 1 ? lo : hi))
                    fail(kb + fmt(":entry-stack-words:cpc=%u", cpc), "interrupted pc not pushed in the stated word order",
                         fmt("ra=%05x [sp-1]=%04x [sp-2]=%04x", ra, w_upper, w_lower));
            }
            if (cond_handler && !bad) {
                if (!step(A, kb, "handler compare"))
                    continue;
                const auto& hr = A.m.core.regs;
                std::vector<unsigned> pass;
                auto add = [&](unsigned c, bool t) {
                    if (t)
                        pass.push_back(c);
                };
                add(1, hr.fz == 1), add(2, hr.fz == 0), add(3, hr.fz == 0 && hr.fm == 0), add(4, hr.fm == 0), add(5, hr.fm == 1);
                add(6, hr.fm == 1 || hr.fz == 1), add(7, hr.fn == 0), add(8, hr.fc0 == 1), add(9, hr.fv == 1), add(10, hr.fe == 1);
                add(11, hr.flm == 1 || hr.fvl == 1);
                unsigned c = pass[g.below(pass.size())];
                A.put(vec + 1, T.retic_cond[c]);
                ctx.count("int_conditional_retic");
                kb += ":cond";
            }
            if (bad || !step(A, kb, "handler"))
                continue;
            if (A.reg(X->pc) != Bk.v[X->pc])
                fail(kb + ":resume-pc", "return from interrupt did not resume the interrupted instruction stream",
                     fmt("expected %05" PRIx64 " got %05" PRIx64, Bk.v[X->pc], A.reg(X->pc)));
            if (A.reg(X->ie) != 1)
                fail(kb + ":ie", "interrupts are not re-enabled after return from interrupt");
            {
                // right after the return everything the program can see is as at the boundary
                CaseState Ak = A.m.capture();
                Ignore ig;
                for (int i = 0; i < 3; ++i)
                    ig(X->ip[i]);
                ig(X->ipv)(X->repcs)(X->a1s)(X->b1s);
                std::string txt, f = DiffX(Ak, Bk, ig, &txt);
                if (!f.empty())
                    fail(kb + ":after-return:" + KeyField(f), "a register differs right after return from interrupt", txt);
            }
            for (unsigned i = k + 1; i < L && ok && !bad; ++i)
                ok = step(A, kb, "program after the interrupt");
            if (!ok || bad)
                continue;
            if (A.reg(X->pc) != end) {
                fail(kb + ":end-pc", "interrupted program did not reach its end");
                continue;
            }
            CaseState Aend = A.m.capture();
            {
                // final state equals the uninterrupted run's, except ip and the one-way save slots
                CaseState e = Bend;
                if (cs) {
                    if (Bk.v[X->crep] == 0)
                        e.v[X->repcs] = Bk.v[X->repc];
                    if (Bk.v[X->ccnta] == 0)
                        e.v[X->a1s] = Bk.v[X->a[1]], e.v[X->b1s] = Bk.v[X->b[1]];
                }
                Ignore ig;
                for (int i = 0; i < 3; ++i)
                    ig(X->ip[i]);
                ig(X->ipv);
                std::string txt, f = DiffX(Aend, e, ig, &txt);
                if (!f.empty())
                    fail(kb + ":final:" + KeyField(f), "final state differs from the uninterrupted run's", txt);
                if (Aend.v[X->ie] != 1)
                    fail(kb + ":ie-final", "ie is not 1 at the end of the interrupted run");
            }
            if (bad)
                continue;
            if (reveal) {
                if (reveal == 2) {
                    CaseState cl = RandomState(g);
                    A.overwrite_restorables(cl), B.overwrite_restorables(cl);
                }
                if (!step(A, kb, "reveal") || !step(B, kb, "reveal(twin)"))
                    continue;
                CaseState Ar = A.m.capture(), Br = B.m.capture();
                CaseState e = Br;
                if (cs && reveal == 2) { // cntx r exposes the one-way slots: they hold what was saved at entry
                    for (int fidx : X->flags)
                        e.v[fidx] = Bk.v[fidx];
                    if (Bk.v[X->crep] == 0)
                        e.v[X->repc] = e.v[X->repcs] = Bk.v[X->repc];
                    if (Bk.v[X->ccnta] == 0) {
                        e.v[X->a[1]] = e.v[X->a1s] = Bk.v[X->a[1]];
                        e.v[X->b[1]] = e.v[X->b1s] = Bk.v[X->b[1]];
                    }
                } else if (cs && reveal == 3) {
                    if (Bk.v[X->crep] == 0)
                        e.v[X->repcs] = Bk.v[X->repc];
                    if (Bk.v[X->ccnta] == 0)
                        e.v[X->a1s] = Bk.v[X->a[1]], e.v[X->b1s] = Bk.v[X->b[1]];
                }
                Ignore ig;
                for (int i = 0; i < 3; ++i)
                    ig(X->ip[i]);
                ig(X->ipv);
                std::string txt, f = DiffX(Ar, e, ig, &txt);
                if (!f.empty())
                    fail(kb + fmt(":hidden:%s:", reveal_name[reveal]) + KeyField(f),
                         cs && reveal == 2 ? "after interrupt entry/exit a hidden bank or save slot is not as the statement says"
                                           : "after interrupt entry/exit a hidden two-way bank differs from the twin's",
                         txt);
            }
            if (!bad) {
                ctx.seen("nt", fmt("%s:reveal=%s:cpc=%u:two-word=%d", kb.c_str(), reveal_name[reveal],
                                   (unsigned)Bk.v[X->cpc], (int)(starts[k + 1] - starts[k] == 2)));
                if (c < 4)
                    ctx.sample(JObj().str("section", "int").str("program", progtxt).done());
            }
        } else if (section == S_CNTX || section == S_BANKE || section == S_BANKR) {
            // ---------------------------------------------------------------- X ; X^-1 leaves everything as it was
            CaseState hidden = RandomState(g);
            CaseState s = RandomState(g);
            PlaceStack(g, s);
            u32 pc0 = RandomCodeBase(g);
            s.v[X->pc] = pc0;
            std::vector<u16> pair;
            std::string kb, form;
            u16 rev_op = T.nop;
            std::string rev_name = "none";
            unsigned rsel = (unsigned)g.below(4);
            bool store_restore = false;
            if (section == S_CNTX) {
                pair = {T.cntx_s, T.cntx_r}; // cntx s ; cntx r
                kb = "cntx";
                form = fmt("ccnta=%u:crep=%u", (unsigned)s.v[X->ccnta], (unsigned)s.v[X->crep]);
                store_restore = true;
                if (rsel == 0)
                    rev_op = T.cntx_s, rev_name = "cntx_s";
                else if (rsel == 1)
                    rev_op = T.cntx_r, rev_name = "cntx_r";
                else if (rsel == 2)
                    rev_op = T.bankr[0].second, rev_name = "bankr";
                else
                    rev_op = T.cntx_r, rev_name = "cntx_r";
            } else if (section == S_BANKE) {
                unsigned f = (unsigned)(fi % 64);
                u16 op = Need("banke", {P<BankFlags>(f)})[0]; // banke flags = 0x4B80 | flags
                pair = {op, op};
                kb = "banke";
                form = fmt("f=%02x:stp16=%u", f, (unsigned)s.v[X->stp16]);
                unsigned f2 = rsel == 0 ? 63 : rsel == 1 ? f : (unsigned)g.below(64);
                rev_op = Need("banke", {P<BankFlags>(f2)})[0];
                rev_name = "banke";
            } else {
                auto& br = T.bankr[fi % T.bankr.size()];
                pair = {br.second, br.second};
                kb = "bankr:" + br.first;
                form = br.first;
                if (rsel < 2)
                    rev_op = T.bankr[0].second, rev_name = "bankr";
                else if (rsel == 2)
                    rev_op = T.cntx_s, rev_name = "cntx_s";
                else
                    rev_op = g.pick(T.bankr).second, rev_name = "bankr-part";
            }
            s0 = s;
            for (Rig* r : {&A, &B}) {
                r->begin_hidden(hidden, s, T.cntx_s, kScratchPc);
                r->put(pc0, pair[0]);
                r->put(pc0 + 1, pair[1]);
                r->put(pc0 + 2, rev_op);
            }
            progtxt = fmt("@%05x: %s then %04x(%s)", pc0, Hex(pair).c_str(), rev_op, rev_name.c_str());
            if (!step(A, kb, "first of the pair") || !step(A, kb, "second of the pair"))
                continue;
            CaseState a2 = A.m.capture();
            {
                CaseState e = s;
                e.v[X->pc] = pc0 + 2;
                if (store_restore) { // only the one-way save slots take the saved values
                    if (s.v[X->crep] == 0)
                        e.v[X->repcs] = s.v[X->repc];
                    if (s.v[X->ccnta] == 0)
                        e.v[X->a1s] = s.v[X->a[1]], e.v[X->b1s] = s.v[X->b[1]];
                }
                std::string txt, f = DiffX(a2, e, Ignore(), &txt);
                if (!f.empty())
                    fail(kb + ":visible:" + KeyField(f), "a program-visible register is not as it was after the pair", txt);
            }
            if (bad)
                continue;
            // twin B skips the pair, then both reveal
            B.m.core.regs.pc = pc0 + 2;
            if (rev_name == "cntx_r") {
                CaseState cl = RandomState(g);
                A.overwrite_restorables(cl), B.overwrite_restorables(cl);
            }
            if (!step(A, kb, "reveal") || !step(B, kb, "reveal(twin)"))
                continue;
            CaseState Ar = A.m.capture(), Br = B.m.capture();
            CaseState e = Br;
            if (store_restore) {
                if (rev_name == "cntx_r") {
                    for (int fidx : X->flags)
                        e.v[fidx] = s.v[fidx];
                    if (s.v[X->crep] == 0)
                        e.v[X->repc] = e.v[X->repcs] = s.v[X->repc];
                    if (s.v[X->ccnta] == 0) {
                        e.v[X->a[1]] = e.v[X->a1s] = s.v[X->a[1]];
                        e.v[X->b[1]] = e.v[X->b1s] = s.v[X->b[1]];
                    }
                } else if (rev_name == "bankr") {
                    if (s.v[X->crep] == 0)
                        e.v[X->repcs] = s.v[X->repc];
                    if (s.v[X->ccnta] == 0)
                        e.v[X->a1s] = s.v[X->a[1]], e.v[X->b1s] = s.v[X->b[1]];
                }
            }
            std::string txt, f = DiffX(Ar, e, Ignore(), &txt);
            if (!f.empty())
                fail(kb + ":hidden:" + rev_name + ":" + KeyField(f),
                     store_restore && rev_name == "cntx_r" ? "a hidden bank / one-way save slot is not as the statement says after the pair"
                                                           : "a hidden two-way bank differs from the twin's after the pair",
                     txt);
            if (!bad) {
                ctx.count(section == S_CNTX ? "cntx_pairs" : section == S_BANKE ? "banke_pairs" : "bankr_pairs");
                ctx.seen("nt", kb + ":" + form + ":reveal=" + rev_name);
                if (c < 6)
                    ctx.sample(JObj().str("section", kb).str("program", progtxt).done(), 5);
            }
        }
    }
    return ctx.finish();
}
