// C05 — assembly text and machine code correspond one-to-one; the C binding respects the caller's
// buffer; the shipped firmware sources assemble to the shipped binaries.
//
// Oracle: twin use of the real code against itself.
//   mode roundtrip : COMPLETE over the 65536 first words (opcode % nshards == shard). Disassemble ->
//                    assemble (Parser) -> disassemble / execute again; opcodes grouped by their text
//                    must lie inside one decoded Form (handler + operand values, from the tree's own
//                    decode table via the recording visitor).
//   mode cbinding  : Teakra_Disasm_Do into a buffer embedded in a larger heap block whose every other
//                    byte is a canary, for EVERY dstlen 0..len+2; with --exact 1 (asan flavour) also
//                    into an allocation of exactly dstlen bytes so that the sanitizer sees it.
//   mode firmware  : the tree's own makedsp1 / dsp1_reader (built into <libdir>/bin) on the four
//                    hwtest/*/firm/source and hwtest/*/data/cdc.bin; outputs compared with the
//                    shipped binary, with an independent reading of the DSP1 container and with the
//                    source lines.
// A "case" is an opcode (roundtrip), a (text length class, opcode, second word) pick (cbinding) or
// a firmware directory (firmware).
#include <algorithm>
#include <cctype>
#include <fcntl.h>
#include <fstream>
#include <glob.h>
#include <sstream>
#include <sys/stat.h>
#include <sys/wait.h>
#include <unordered_map>
#include "exec.h"
#include "parser.h"
#include "teakra/disassembler.h"
#include "teakra/disassembler_c.h"

using namespace vf;
namespace Dis = Teakra::Disassembler;
using Tokens = std::vector<std::string>;

namespace {

std::string join(const Tokens& t, const char* sep) {
    std::string s;
    for (size_t i = 0; i < t.size(); ++i) {
        if (i)
            s += sep;
        s += t[i];
    }
    return s;
}
bool has_error(const Tokens& t) {
    for (auto& s : t)
        if (s.find("[ERROR]") != std::string::npos)
            return true;
    return false;
}
std::string jtokens(const Tokens& t) { return join(t, " | "); }

// disassembly of all 65536 first words with second word 0
struct TextTable {
    std::vector<Tokens> tok;
    std::vector<u8> threw, renderable;
    std::vector<std::string> key;
    std::unordered_map<std::string, std::pair<u16, u32>> group; // text -> (lowest opcode, members)
    TextTable() : tok(0x10000), threw(0x10000, 0), renderable(0x10000, 0), key(0x10000) {
        for (u32 op = 0; op < 0x10000; ++op) {
            RunResult r = Classify([&] { tok[op] = Dis::GetTokenList((u16)op); });
            if (r.outcome != OK || tok[op].empty()) {
                threw[op] = 1;
                continue;
            }
            if (has_error(tok[op]))
                continue;
            renderable[op] = 1;
            key[op] = join(tok[op], "\x1f");
            auto it = group.find(key[op]);
            if (it == group.end())
                group.emplace(key[op], std::make_pair((u16)op, 1u));
            else
                ++it->second.second;
        }
    }
};

const char* eclass(u16 e) { return e == 0 ? "0" : "nonzero"; }

// index of the first operand that differs, for a stable key
std::string form_diff_site(const Form& a, const Form& b) {
    if (std::string(a.name) != b.name)
        return std::string(a.name) + "|" + b.name;
    size_t n = std::min(a.ops.size(), b.ops.size());
    for (size_t i = 0; i < n; ++i)
        if (a.ops[i] != b.ops[i])
            return std::string(a.name) + ":operand" + std::to_string(i);
    return std::string(a.name) + ":operand-count";
}

struct ExecOut {
    RunResult rr;
    CaseState st;
    std::vector<std::pair<u32, u16>> writes;
};
ExecOut exec_one(Machine& m, const CaseState& s, u32 pc, u16 op, u16 e) {
    ExecOut o;
    m.clean();
    m.load(s);
    m.prog(pc, op);
    m.prog(pc + 1, e);
    o.rr = m.run(1);
    o.st = m.capture();
    for (auto& a : m.log())
        if (a.write)
            o.writes.emplace_back(a.addr, a.value);
    return o;
}

// ------------------------------------------------------------------------------------ roundtrip
int mode_roundtrip(Ctx& ctx) {
    const unsigned nexp = (unsigned)ctx.opt_u64("nexp", ctx.thorough ? 256 : 8);
    const unsigned nstates = (unsigned)ctx.opt_u64("nstates", ctx.thorough ? 64 : 8);
    TextTable tt;
    Encodings enc;
    std::unique_ptr<Teakra::Parser> parser;
    RunResult pr = Classify([&] { parser = Teakra::GenerateParser(); });
    if (pr.outcome != OK || !parser) {
        // the assembler refuses to build: its own consistency assertion (later opcodes with the same
        // text must be bit-supersets of the first) or another exception
        ctx.violation(std::string("parser:generate:") + outcome_name(pr.outcome),
                      "GenerateParser() did not return a parser: " + pr.what, 0,
                      JObj().str("what", pr.what).done());
        parser.reset(); // the text-group, Do() and second-word checks below still run
    }
    Machine m;
    const u16 fixed_e[] = {0, 1, 0x7FFF, 0x8000, 0xFFFF};

    for (u32 op32 = 0; op32 < 0x10000; ++op32) {
        if ((int)(op32 % (u32)ctx.nshards) != ctx.shard || !ctx.selected(op32))
            continue;
        const u16 op = (u16)op32;
        const u64 c = op32;
        Rng g = ctx.case_rng(c);
        ctx.count("cases");
        const Form& form = enc.all[op].form;
        const std::string hname = form.name;

        std::vector<u16> es(fixed_e, fixed_e + 5);
        for (unsigned i = 0; i < nexp; ++i)
            es.push_back((u16)g.bits(16));

        // C binding / C++ agreement on the need for a second word (all opcodes)
        bool need = false, need_c = false;
        RunResult nr = Classify([&] {
            need = Dis::NeedExpansion(op);
            need_c = Teakra_Disasm_NeedExpansion(op);
        });
        if (nr.outcome != OK) {
            ctx.count("needexpansion_threw");
        } else if (need != need_c) {
            ctx.violation("cbinding:needexpansion:differs-from-cxx:" + hname,
                          "Teakra_Disasm_NeedExpansion != Disassembler::NeedExpansion", c,
                          JObj().hexs("opcode", op).num("cxx", need).num("c", need_c).done());
        }
        ctx.count("needexpansion_compared");

        if (tt.threw[op]) {
            ctx.count("disasm_threw_skipped");
            continue;
        }

        // Do(op,e) == tokens joined by four spaces; same text for two second words only if the
        // decoded form is the same
        std::map<std::string, u16> text_of_e;
        std::vector<Tokens> toks_e(es.size());
        bool threw_e = false;
        for (size_t i = 0; i < es.size() && !threw_e; ++i) {
            std::string d;
            RunResult r = Classify([&] {
                toks_e[i] = Dis::GetTokenList(op, es[i]);
                d = Dis::Do(op, es[i]);
            });
            if (r.outcome != OK) {
                threw_e = true;
                break;
            }
            ctx.count("do_vs_tokens_compared");
            std::string j = join(toks_e[i], "    ");
            if (d != j)
                ctx.violation(fmt("do:differs-from-joined-tokens:ntokens=%s", toks_e[i].size() > 1 ? "many" : "1"),
                              "Disassembler::Do is not the token list joined by four spaces", c,
                              JObj().hexs("opcode", op).hexs("second_word", es[i]).str("do", d).str("joined", j).done());
            if (need && tt.renderable[op] && !has_error(toks_e[i])) {
                auto ins = text_of_e.emplace(j, es[i]);
                if (!ins.second && ins.first->second != es[i]) {
                    Form fa = enc.decode(op, ins.first->second), fb = enc.decode(op, es[i]);
                    ctx.count("second_word_pairs_compared");
                    if (!(fa == fb))
                        ctx.violation("text-collision:second-word:" + form_diff_site(fa, fb),
                                      "one opcode prints the same text for two second words that decode differently", c,
                                      JObj().hexs("opcode", op).hexs("second_word_a", ins.first->second)
                                          .hexs("second_word_b", es[i]).str("text", j)
                                          .str("form_a", fa.str()).str("form_b", fb.str()).done());
                }
            }
        }
        if (threw_e) {
            ctx.count("disasm_threw_skipped");
            continue;
        }
        if (need && tt.renderable[op]) {
            ctx.count("two_word_opcodes_second_word_texts_checked");
            ctx.count("two_word_distinct_texts_seen", text_of_e.size());
        }

        if (!tt.renderable[op]) {
            ctx.count("error_text_skipped");
            ctx.seen("error_handlers", hname);
            continue;
        }
        ctx.count("renderable");
        const Tokens& tok = tt.tok[op];
        if (!(toks_e[0] == tok)) // e == 0 again: the disassembler is a function of (opcode, second word)
            ctx.violation("disasm:not-deterministic:" + hname, "two calls of GetTokenList(op,0) differ", c,
                          JObj().hexs("opcode", op).str("first", jtokens(tok)).str("second", jtokens(toks_e[0])).done());

        // ---- text groups: same text only inside one decoded form
        auto& grp = tt.group.at(tt.key[op]);
        bool reported = false; // one key per opcode: the first (most specific) disagreement
        if (grp.first == op) {
            ctx.count("text_groups");
            if (grp.second > 1)
                ctx.count("text_groups_multi");
            ctx.maxv("max_group_size", grp.second);
        } else {
            ctx.count("group_members_compared");
            const Form& rep = enc.all[grp.first].form;
            if (!(rep == form) && (reported = true))
                ctx.violation("text-collision:" + form_diff_site(rep, form),
                              "two opcodes that differ in decoded handler/operands print the same text", c,
                              JObj().hexs("opcode", op).hexs("same_text_as", grp.first).str("text", jtokens(tok))
                                  .str("form", form.str()).str("form_other", rep.str()).done());
        }

        // ---- assemble the text again
        if (!parser) {
            ctx.count("not_assembled_no_parser");
            continue;
        }
        Teakra::Parser::Opcode r;
        RunResult par = Classify([&] { r = parser->Parse(tok); });
        if (par.outcome != OK) {
            ctx.violation("parse:exception:" + hname, "Parser::Parse raised " + par.what, c,
                          JObj().hexs("opcode", op).str("text", jtokens(tok)).done());
            continue;
        }
        if (r.status == Teakra::Parser::Opcode::Invalid) {
            ctx.violation("parse:invalid:" + hname, "the parser rejects the disassembler's own token list", c,
                          JObj().hexs("opcode", op).str("text", jtokens(tok)).done());
            continue;
        }
        bool r_exp = r.status == Teakra::Parser::Opcode::ValidWithExpansion;
        if (r_exp != need) {
            ctx.violation("parse:second-word-need-differs:" + hname,
                          "parser status (Valid/ValidWithExpansion) disagrees with NeedExpansion(op)", c,
                          JObj().hexs("opcode", op).hexs("parsed", r.opcode).num("need", need).num("parser_says", r_exp)
                              .str("text", jtokens(tok)).done());
            continue;
        }
        ctx.count("parse_ok");
        if (need)
            ctx.count("parse_ok_two_word");
        ctx.seen("nt", "h:" + hname);
        ctx.seen("handlers_roundtripped", hname);

        if (r.opcode == op) {
            ctx.count("assembles_to_itself");
            if (ctx.samples_emitted < 1 && need)
                ctx.sample(JObj().str("mode", "roundtrip").hexs("opcode", op).str("text", jtokens(tok))
                               .str("form", form.str()).num("second_word", need).done());
            continue;
        }

        // ---- the assembler returned another encoding: it must be indistinguishable
        ctx.count("alias_opcodes");
        ctx.seen("alias_handlers", hname);
        const Form& rform = enc.all[r.opcode].form;
        if (!reported && !(rform == form) && (reported = true))
            ctx.violation("roundtrip:form-differs:" + form_diff_site(form, rform),
                          "re-assembled opcode decodes to another handler/operands", c,
                          JObj().hexs("opcode", op).hexs("reassembled", r.opcode).str("text", jtokens(tok))
                              .str("form", form.str()).str("form_reassembled", rform.str()).done());
        bool need_r = false;
        Classify([&] { need_r = Dis::NeedExpansion(r.opcode); });
        if (!reported && need_r != need && (reported = true))
            ctx.violation("roundtrip:second-word-need-differs:" + hname,
                          "re-assembled opcode has a different need for a second word", c,
                          JObj().hexs("opcode", op).hexs("reassembled", r.opcode).done());
        for (size_t i = 0; i < es.size() && !reported; ++i) {
            Tokens t2;
            RunResult r2 = Classify([&] { t2 = Dis::GetTokenList(r.opcode, es[i]); });
            ctx.count("alias_texts_compared");
            if (r2.outcome != OK || !(t2 == toks_e[i])) {
                ctx.violation("roundtrip:text-differs:" + hname + ":e=" + eclass(es[i]),
                              "disassembly of the re-assembled opcode differs from the original's", c,
                              JObj().hexs("opcode", op).hexs("reassembled", r.opcode).hexs("second_word", es[i])
                                  .str("text", jtokens(toks_e[i])).str("text_reassembled", jtokens(t2)).done());
                reported = true;
                break;
            }
        }
        for (unsigned k = 0; k < nstates && !reported; ++k) {
            StateGenOpts so;
            so.pc = g.chance(1, 4) ? 0 : (u32)g.below(0x1FF00);
            CaseState s = RandomState(g, so);
            u16 e = k < 5 ? fixed_e[k] : (u16)g.bits(16);
            ExecOut a = exec_one(m, s, so.pc, op, e);
            ExecOut b = exec_one(m, s, so.pc, r.opcode, e);
            ctx.count("alias_exec_compared");
            ctx.count(std::string("exec_outcome_") + outcome_name(a.rr.outcome));
            std::string what;
            if (a.rr.outcome != b.rr.outcome)
                what = fmt("outcome %s vs %s", outcome_name(a.rr.outcome), outcome_name(b.rr.outcome));
            else if (a.st.v != b.st.v)
                what = "registers: " + Diff(a.st, b.st);
            else if (a.writes != b.writes)
                what = fmt("memory writes differ (%zu vs %zu)", a.writes.size(), b.writes.size());
            if (!what.empty()) {
                ctx.violation("roundtrip:exec-differs:" + form_diff_site(form, rform),
                              "executing the re-assembled opcode differs from executing the original: " + what, c,
                              JObj().hexs("opcode", op).hexs("reassembled", r.opcode).hexs("second_word", e)
                                  .str("text", jtokens(tok)).str("diff", what).raw("state", StateJson(s)).done());
                break;
            }
        }
        if (ctx.samples_emitted < 3)
            ctx.sample(JObj().str("mode", "roundtrip-alias").hexs("opcode", op).hexs("reassembled", r.opcode)
                           .str("text", jtokens(tok)).str("form", form.str()).done());
    }
    return ctx.finish();
}

// ------------------------------------------------------------------------------------- cbinding
unsigned char canary_byte(size_t i) { return (unsigned char)(0x80 | ((i * 37 + 11) & 0x7F)); } // never ASCII / NUL

const char* dstlen_class(size_t dstlen, size_t len) {
    if (dstlen == 0)
        return "0";
    if (dstlen == 1)
        return "1";
    if (dstlen <= len)
        return "le-len";
    if (dstlen == len + 1)
        return "len+1";
    return "gt-len+1";
}

int mode_cbinding(Ctx& ctx) {
    const bool exact = ctx.opt_u64("exact", 0) != 0;
    // all texts (second word 0) by length
    std::map<size_t, std::vector<u16>> by_len;
    size_t maxlen = 0;
    for (u32 op = 0; op < 0x10000; ++op) {
        std::string s;
        RunResult r = Classify([&] { s = Dis::Do((u16)op, 0); });
        if (r.outcome != OK)
            continue;
        by_len[s.size()].push_back((u16)op);
        maxlen = std::max(maxlen, s.size());
    }
    std::vector<size_t> lens;
    for (auto& kv : by_len)
        lens.push_back(kv.first);
    if (lens.empty()) {
        ctx.note("no opcode could be disassembled");
        return ctx.finish();
    }
    ctx.maxv("distinct_text_lengths_available", lens.size());

    constexpr size_t kZone = 64;
    for (int pass = 0; pass < (exact ? 2 : 1); ++pass) {
        for (u64 c = 0; c < ctx.cases; ++c) {
            if (!ctx.selected(c))
                continue;
            Rng g = ctx.case_rng(c);
            u64 global = c * (u64)ctx.nshards + (u64)ctx.shard;
            size_t want = lens[global % lens.size()]; // every distinct length is visited in turn
            u16 op = g.pick(by_len[want]);
            static const u16 fe[] = {0, 0, 0, 1, 0x7FFF, 0x8000, 0xFFFF};
            u16 e = g.chance(1, 2) ? g.pick(fe) : (u16)g.bits(16);
            std::string ref;
            Tokens tk;
            RunResult rr = Classify([&] {
                ref = Dis::Do(op, e);
                tk = Dis::GetTokenList(op, e);
            });
            if (rr.outcome != OK) {
                ctx.count("disasm_threw_skipped");
                continue;
            }
            const size_t len = ref.size();
            auto detail = [&](size_t dstlen) {
                return JObj().hexs("opcode", op).hexs("second_word", e).str("text", ref).unum("len", len).unum("dstlen", dstlen);
            };

            if (pass == 1) {
                // allocation of exactly dstlen bytes: the sanitizer is the monitor (asan flavour only)
                for (size_t dstlen = 0; dstlen <= len + 2; ++dstlen) {
                    char* p = (char*)std::malloc(dstlen);
                    if (!p && dstlen)
                        continue;
                    volatile size_t ret = Teakra_Disasm_Do(p, dstlen, op, e);
                    (void)ret;
                    if (dstlen) {
                        volatile size_t n = strnlen(p, dstlen); // reads only inside the allocation
                        (void)n;
                    }
                    std::free(p);
                    ctx.count("exact_alloc_calls");
                }
                ctx.count("exact_alloc_cases");
                continue;
            }

            ctx.count("cases");
            ctx.count("cbinding_cases");
            ctx.seen("nt", "len:" + std::to_string(len));
            ctx.seen("text_lengths", std::to_string(len));
            ctx.maxv("max_text_len", len);
            if (e)
                ctx.count("cbinding_cases_nonzero_second_word");

            if (ref != join(tk, "    "))
                ctx.violation(fmt("do:differs-from-joined-tokens:ntokens=%s", tk.size() > 1 ? "many" : "1"),
                              "Disassembler::Do is not the token list joined by four spaces", c, detail(0).done());

            // dst == NULL: accepted, returns the length
            for (size_t dl : {(size_t)0, (size_t)1, len, len + 1, (size_t)4096}) {
                size_t ret = 0;
                RunResult r = Classify([&] { ret = Teakra_Disasm_Do(nullptr, dl, op, e); });
                ctx.count("null_dst_calls");
                if (r.outcome != OK || ret != len)
                    ctx.violation("cbinding:dst=null:return-value",
                                  "Teakra_Disasm_Do(NULL, n, ..) does not return the text length", c,
                                  detail(dl).unum("returned", ret).done());
            }

            // block = [front zone 64][caller buffer: dstlen bytes][back zone >= 64 + len]; every byte
            // outside the caller buffer is a canary (the back zone is long enough to contain a
            // complete runaway copy of the text)
            const size_t total = kZone + (len + 2) + kZone + len + kZone;
            unsigned char* block = (unsigned char*)std::malloc(total);
            if (!block) {
                ctx.note("malloc failed");
                break;
            }
            bool case_bad = false;
            for (size_t dstlen = 0; dstlen <= len + 2; ++dstlen) {
                for (size_t i = 0; i < total; ++i)
                    block[i] = canary_byte(i);
                char* dst = (char*)block + kZone;
                size_t ret = 0;
                RunResult r = Classify([&] { ret = Teakra_Disasm_Do(dst, dstlen, op, e); });
                ctx.count("cbinding_calls");
                ctx.seen("buffer_sizes", std::to_string(dstlen));
                const std::string cls = std::string("cbinding:dstlen=") + dstlen_class(dstlen, len);
                if (r.outcome != OK) {
                    ctx.violation(cls + ":exception", "Teakra_Disasm_Do raised " + r.what, c, detail(dstlen).done());
                    case_bad = true;
                    continue;
                }
                if (ret != len) {
                    ctx.violation(cls + ":return-value", "return value is not the full text length", c,
                                  detail(dstlen).unum("returned", ret).done());
                    case_bad = true;
                }
                // bytes written must lie inside [0, dstlen)
                size_t before = 0, beyond = 0, first_beyond = 0, first_before = 0;
                for (size_t i = 0; i < kZone; ++i)
                    if (block[i] != canary_byte(i)) {
                        if (!before)
                            first_before = kZone - i;
                        ++before;
                    }
                for (size_t i = kZone + dstlen; i < total; ++i)
                    if (block[i] != canary_byte(i)) {
                        if (!beyond)
                            first_beyond = i - kZone;
                        ++beyond;
                    }
                if (beyond) {
                    ctx.violation(cls + ":writes-beyond-buffer",
                                  fmt("%zu byte(s) written at or after dst[dstlen] (first at dst[%zu], dstlen=%zu, text length %zu)",
                                      beyond, first_beyond, dstlen, len),
                                  c, detail(dstlen).unum("bytes_beyond", beyond).unum("first_offset", first_beyond).done());
                    case_bad = true;
                }
                if (before) {
                    ctx.violation(cls + ":writes-before-buffer",
                                  fmt("%zu byte(s) written before dst (nearest at dst[-%zu], dstlen=%zu)", before,
                                      first_before, dstlen),
                                  c, detail(dstlen).unum("bytes_before", before).unum("nearest_negative_offset", first_before).done());
                    case_bad = true;
                }
                if (dstlen > 0) {
                    size_t n = std::min(len, dstlen - 1);
                    if (std::memcmp(dst, ref.data(), n) != 0) {
                        ctx.violation(cls + ":text-prefix-differs",
                                      "the bytes in the buffer are not the prefix of the C++ text", c,
                                      detail(dstlen).str("got", std::string(dst, dst + n)).done());
                        case_bad = true;
                    }
                    if (dst[n] != 0) {
                        ctx.violation(cls + ":no-nul-after-text",
                                      fmt("dst[min(len,dstlen-1)] = dst[%zu] is not NUL (dstlen=%zu, text length %zu): the C string "
                                          "in the buffer is not the text",
                                          n, dstlen, len),
                                      c, detail(dstlen).unum("nul_expected_at", n).unum("byte_there", (unsigned char)dst[n]).done());
                        case_bad = true;
                    }
                    ctx.count("nul_checked");
                    if (dstlen <= len)
                        ctx.count("truncating_calls");
                }
            }
            std::free(block);
            if (!case_bad && ctx.samples_emitted < 2)
                ctx.sample(JObj().str("mode", "cbinding").hexs("opcode", op).hexs("second_word", e).str("text", ref)
                               .unum("len", len).str("dstlen_tried", fmt("0..%zu", len + 2)).done());
        }
    }
    return ctx.finish();
}

// ------------------------------------------------------------------------------------- firmware
bool read_file(const std::string& p, std::vector<u8>& out) {
    std::ifstream f(p, std::ios::binary);
    if (!f.is_open())
        return false;
    out.assign(std::istreambuf_iterator<char>(f), std::istreambuf_iterator<char>());
    return true;
}

// runs argv[0] with stdout/stderr silenced; returns exit status, -1 spawn failure, 1000+signal
int run_tool(const std::vector<std::string>& argv) {
    pid_t pid = fork();
    if (pid < 0)
        return -1;
    if (pid == 0) {
        std::vector<char*> a;
        for (auto& s : argv)
            a.push_back(const_cast<char*>(s.c_str()));
        a.push_back(nullptr);
        int dn = open("/dev/null", O_WRONLY);
        if (dn >= 0) {
            dup2(dn, 1);
            dup2(dn, 2);
        }
        execv(a[0], a.data());
        _exit(127);
    }
    int st = 0;
    if (waitpid(pid, &st, 0) < 0)
        return -1;
    if (WIFSIGNALED(st))
        return 1000 + WTERMSIG(st);
    return WEXITSTATUS(st);
}

Tokens split_ws(const std::string& s) {
    Tokens out;
    std::istringstream is(s);
    std::string t;
    while (is >> t)
        out.push_back(t);
    return out;
}
bool parse_hex(const std::string& s, u32& v) {
    if (s.empty())
        return false;
    char* end = nullptr;
    v = (u32)std::strtoul(s.c_str(), &end, 16);
    return end && *end == 0;
}

struct SrcItem {
    int line = 0;
    bool is_data = false;
    u16 word = 0;        // data
    Tokens tokens0;      // instruction text with the second word's digits replaced by 0000
    Tokens tokens_e;     // instruction text with the '$' removed (digits lower-cased): what a disassembler prints
    bool has_e = false;
    u16 e = 0;
    std::string text;
};
struct SrcSegment {
    bool data = false;
    u32 target = 0;
    std::vector<SrcItem> items;
};

// Independent reading of the source format: "segment p|d <hex>", "data <hex>", "// comment",
// "$xxxx" = second word, written in place of its four digits inside the operand that shows it.
bool read_source(const std::string& path, std::vector<SrcSegment>& segs, u64& lines, std::string& err) {
    std::ifstream in(path);
    if (!in.is_open()) {
        err = "cannot open";
        return false;
    }
    std::string line;
    int no = 0;
    while (std::getline(in, line)) {
        ++no;
        ++lines;
        auto cp = line.find("//");
        if (cp != std::string::npos)
            line.erase(cp);
        SrcItem it;
        it.line = no;
        std::string l0 = line, le = line;
        auto dp = line.find('$');
        if (dp != std::string::npos) {
            if (line.size() < dp + 5) {
                err = fmt("line %d: short second word", no);
                return false;
            }
            std::string digits = line.substr(dp + 1, 4);
            u32 v;
            if (!parse_hex(digits, v)) {
                err = fmt("line %d: bad second word", no);
                return false;
            }
            it.has_e = true;
            it.e = (u16)v;
            for (auto& ch : digits)
                ch = (char)std::tolower((unsigned char)ch);
            l0 = line.substr(0, dp) + "0000" + line.substr(dp + 5);
            le = line.substr(0, dp) + digits + line.substr(dp + 5);
        }
        Tokens t0 = split_ws(l0);
        if (t0.empty())
            continue;
        if (t0[0] == "segment") {
            u32 tgt;
            if (t0.size() != 3 || (t0[1] != "p" && t0[1] != "d") || !parse_hex(t0[2], tgt)) {
                err = fmt("line %d: bad segment directive", no);
                return false;
            }
            SrcSegment s;
            s.data = t0[1] == "d";
            s.target = tgt;
            segs.push_back(s);
            continue;
        }
        if (segs.empty()) {
            err = fmt("line %d: content before the first segment", no);
            return false;
        }
        if (t0[0] == "data") {
            u32 v;
            if (t0.size() != 2 || !parse_hex(t0[1], v)) {
                err = fmt("line %d: bad data directive", no);
                return false;
            }
            it.is_data = true;
            it.word = (u16)v;
        } else {
            it.tokens0 = t0;
            it.tokens_e = split_ws(le);
            it.text = join(it.tokens_e, " ");
        }
        segs.back().items.push_back(it);
    }
    return true;
}

struct BinSegment {
    u8 memory_type = 0;
    u32 target = 0;
    std::vector<u16> words;
};
u32 rd32(const std::vector<u8>& b, size_t o) { return b[o] | (b[o + 1] << 8) | (b[o + 2] << 16) | ((u32)b[o + 3] << 24); }
// Independent reading of the DSP1 container (3dbrew layout: header 0x300, segment table at 0x120, 0x30 each)
bool read_dsp1(const std::vector<u8>& b, std::vector<BinSegment>& segs, std::string& err) {
    if (b.size() < 0x300 || std::memcmp(&b[0x100], "DSP1", 4) != 0) {
        err = "no DSP1 header";
        return false;
    }
    unsigned n = b[0x10E];
    if (n > 10) {
        err = "segment count > 10";
        return false;
    }
    for (unsigned i = 0; i < n; ++i) {
        size_t o = 0x120 + i * 0x30;
        u32 off = rd32(b, o), addr = rd32(b, o + 4), size = rd32(b, o + 8);
        BinSegment s;
        s.memory_type = b[o + 15];
        s.target = addr;
        if ((u64)off + size > b.size() || (size & 1)) {
            err = fmt("segment %u outside the file", i);
            return false;
        }
        for (u32 k = 0; k < size; k += 2)
            s.words.push_back((u16)(b[off + k] | (b[off + k + 1] << 8)));
        segs.push_back(s);
    }
    return true;
}

struct RdItem {
    u32 addr = 0;
    u16 word = 0;
    std::string text; // empty: raw word
    bool has_e = false;
    u16 e = 0;
    u32 e_addr = 0;
};
struct RdSegment {
    bool data = false;
    std::vector<RdItem> items;
};
// dsp1_reader listing: ">>>>>>>> Segment <<<<<<<<" / ">>>>>>>> Data Segment <<<<<<<<",
// "AAAAAAAA  WWWW         text", "AAAAAAAA  WWWW ^^^" (second word of the line above), "AAAAAAAA  WWWW"
bool read_listing(const std::string& path, std::vector<RdSegment>& segs, std::string& err) {
    std::ifstream in(path);
    if (!in.is_open()) {
        err = "cannot open listing";
        return false;
    }
    std::string line;
    int no = 0;
    while (std::getline(in, line)) {
        ++no;
        if (split_ws(line).empty())
            continue;
        if (line.rfind(">>>>>>>>", 0) == 0) {
            RdSegment s;
            s.data = line.find("Data Segment") != std::string::npos;
            segs.push_back(s);
            continue;
        }
        u32 a, w;
        if (line.size() < 14 || segs.empty() || !parse_hex(line.substr(0, 8), a) || line.substr(8, 2) != "  " ||
            !parse_hex(line.substr(10, 4), w)) {
            err = fmt("listing line %d not understood: %s", no, line.c_str());
            return false;
        }
        std::string rest = line.substr(14);
        Tokens rt = split_ws(rest);
        if (rt.size() == 1 && rt[0] == "^^^") {
            if (segs.back().items.empty() || segs.back().items.back().has_e || segs.back().items.back().text.empty()) {
                err = fmt("listing line %d: second word without an instruction", no);
                return false;
            }
            auto& it = segs.back().items.back();
            it.has_e = true;
            it.e = (u16)w;
            it.e_addr = a;
            continue;
        }
        RdItem it;
        it.addr = a;
        it.word = (u16)w;
        if (!rt.empty()) {
            size_t p = rest.find_first_not_of(' ');
            it.text = rest.substr(p);
        }
        segs.back().items.push_back(it);
    }
    return true;
}

int mode_firmware(Ctx& ctx) {
    const std::string libdir = ctx.opts["libdir"], repo = ctx.opts["repo"], verif = ctx.opts["verif"];
    std::vector<std::string> dirs;
    {
        glob_t gl;
        std::string pat = repo + "/hwtest/*/firm/source";
        if (glob(pat.c_str(), 0, nullptr, &gl) == 0) {
            for (size_t i = 0; i < gl.gl_pathc; ++i)
                dirs.push_back(gl.gl_pathv[i]);
            globfree(&gl);
        }
        std::sort(dirs.begin(), dirs.end());
    }
    ctx.maxv("firmware_sources_found", dirs.size());
    const std::string makedsp1 = libdir + "/bin/makedsp1", reader = libdir + "/bin/dsp1_reader";
    bool have_make = access(makedsp1.c_str(), X_OK) == 0, have_reader = access(reader.c_str(), X_OK) == 0;
    if (!have_make)
        ctx.violation("firmware:tool-missing:makedsp1", "the tree's makedsp1 did not build (" + makedsp1 + ")", 0);
    if (!have_reader)
        ctx.violation("firmware:tool-missing:dsp1_reader", "the tree's dsp1_reader did not build (" + reader + ")", 0);

    std::unique_ptr<Teakra::Parser> parser;
    RunResult pr = Classify([&] { parser = Teakra::GenerateParser(); });
    if (pr.outcome != OK || !parser)
        ctx.violation(std::string("parser:generate:") + outcome_name(pr.outcome),
                      "GenerateParser() did not return a parser: " + pr.what, 0);

    for (u64 c = 0; c < dirs.size(); ++c) {
        if (!ctx.selected(c))
            continue;
        const std::string src = dirs[c];
        std::string tester = src.substr(0, src.size() - std::strlen("/firm/source"));
        const std::string shipped_path = tester + "/data/cdc.bin";
        tester = tester.substr(tester.rfind('/') + 1);
        ctx.count("cases");
        auto det = [&]() { return JObj().str("tester", tester).str("source", src).str("shipped", shipped_path); };

        std::vector<u8> shipped;
        if (!read_file(shipped_path, shipped)) {
            ctx.violation("firmware:shipped-binary-missing", "cannot read " + shipped_path, c, det().done());
            continue;
        }
        std::vector<SrcSegment> ssegs;
        u64 lines = 0;
        std::string err;
        if (!read_source(src, ssegs, lines, err)) {
            ctx.violation("firmware:source-not-understood", "harness cannot read " + src + ": " + err, c, det().done());
            continue;
        }
        ctx.count("fw_source_lines", lines);
        ctx.count("fw_source_segments", ssegs.size());

        // ---- (a) assemble with the tree's own tool: byte-identical to the shipped binary
        const std::string tmpbase = verif + "/.build/c05_fw_" + std::to_string((long)getpid()) + "_" + tester;
        if (have_make) {
            const std::string outp = tmpbase + ".bin";
            unlink(outp.c_str());
            int rc = run_tool({makedsp1, src, outp});
            ctx.count("fw_makedsp1_runs");
            std::vector<u8> built;
            if (rc != 0) {
                ctx.violation("firmware:makedsp1:" + std::string(rc >= 1000 ? "crashed" : "exit-nonzero"),
                              fmt("makedsp1 on %s/firm/source ended with status %d", tester.c_str(), rc), c, det().num("status", rc).done());
            } else if (!read_file(outp, built)) {
                ctx.violation("firmware:makedsp1:no-output", "makedsp1 wrote no output file", c, det().done());
            } else {
                ctx.count("fw_bytes_compared", std::max(built.size(), shipped.size()));
                if (built != shipped) {
                    size_t n = std::min(built.size(), shipped.size()), i = 0;
                    while (i < n && built[i] == shipped[i])
                        ++i;
                    const char* where = built.size() != shipped.size() && i == n ? "size" : i < 0x300 ? "header" : "payload";
                    ctx.violation(std::string("firmware:makedsp1:output-differs:") + where,
                                  fmt("assembled %s differs from the shipped cdc.bin at byte 0x%zx (sizes %zu / %zu)", tester.c_str(), i,
                                      built.size(), shipped.size()),
                                  c, det().unum("first_difference", i).unum("built_size", built.size())
                                         .unum("shipped_size", shipped.size())
                                         .hexs("built_byte", i < built.size() ? built[i] : 0, 2)
                                         .hexs("shipped_byte", i < shipped.size() ? shipped[i] : 0, 2).done());
                } else {
                    ctx.count("fw_binaries_identical");
                    ctx.seen("nt", "fw:" + tester);
                }
            }
            unlink(outp.c_str());
        }

        // ---- (b) independent reading of the shipped container vs the source structure
        std::vector<BinSegment> bsegs;
        if (!read_dsp1(shipped, bsegs, err)) {
            ctx.violation("firmware:shipped-binary-not-dsp1", shipped_path + ": " + err, c, det().done());
            continue;
        }

        // ---- (c) disassemble the shipped binary with the tree's own tool
        std::vector<RdSegment> rsegs;
        bool have_listing = false;
        if (have_reader) {
            const std::string lst = tmpbase + ".lst";
            unlink(lst.c_str());
            int rc = run_tool({reader, shipped_path, lst});
            ctx.count("fw_dsp1_reader_runs");
            if (rc != 0)
                ctx.violation("firmware:dsp1_reader:" + std::string(rc >= 1000 ? "crashed" : "exit-nonzero"),
                              fmt("dsp1_reader on %s/data/cdc.bin ended with status %d", tester.c_str(), rc), c, det().num("status", rc).done());
            else if (!read_listing(lst, rsegs, err))
                ctx.violation("firmware:dsp1_reader:listing-not-understood", err, c, det().done());
            else
                have_listing = true;
            unlink(lst.c_str());
        }
        if (!have_listing)
            continue;

        // listing vs container: same segments (program and data kinds), same addresses, same words
        std::vector<const BinSegment*> shown;
        for (auto& b : bsegs)
            if (b.memory_type <= 2)
                shown.push_back(&b);
        bool aligned = shown.size() == rsegs.size() && rsegs.size() == ssegs.size();
        if (!aligned)
            ctx.violation("firmware:dsp1_reader:segment-count",
                          fmt("segments: source %zu, container %zu, listing %zu", ssegs.size(), shown.size(), rsegs.size()), c, det().done());
        for (size_t si = 0; aligned && si < rsegs.size(); ++si) {
            const RdSegment& rs = rsegs[si];
            const BinSegment& bs = *shown[si];
            const SrcSegment& ss = ssegs[si];
            ctx.count("fw_segments_compared");
            auto sdet = [&]() { return det().unum("segment", si).hexs("target", ss.target, 5); };
            if (rs.data != (bs.memory_type == 2) || rs.data != ss.data || bs.target != ss.target) {
                ctx.violation("firmware:dsp1_reader:segment-kind-or-target", "segment kind/target differ between source, container and listing",
                              c, sdet().hexs("container_target", bs.target, 5).num("container_type", bs.memory_type).done());
                continue;
            }
            // flatten the listing into words and check addresses
            std::vector<u16> words;
            bool addr_ok = true;
            for (auto& it : rs.items) {
                addr_ok &= it.addr == bs.target + words.size();
                words.push_back(it.word);
                if (it.has_e) {
                    addr_ok &= it.e_addr == bs.target + words.size();
                    words.push_back(it.e);
                }
            }
            ctx.count("fw_words_compared", words.size());
            if (!addr_ok)
                ctx.violation("firmware:dsp1_reader:addresses", "listing addresses are not target + word index", c, sdet().done());
            if (words != bs.words) {
                ctx.violation("firmware:dsp1_reader:words-differ-from-binary", "the listing's word stream is not the segment's content", c,
                              sdet().unum("listing_words", words.size()).unum("binary_words", bs.words.size()).done());
                continue;
            }
            // listing vs source lines
            size_t ri = 0;
            bool seg_ok = true;
            for (size_t ii = 0; ii < ss.items.size() && seg_ok; ++ii) {
                const SrcItem& s = ss.items[ii];
                auto ldet = [&]() { return sdet().num("line", s.line).str("source_text", s.is_data ? fmt("data %04x", s.word) : s.text); };
                if (ri >= rs.items.size()) {
                    ctx.violation("firmware:stream:listing-shorter-than-source", "source line has no counterpart in the listing", c, ldet().done());
                    seg_ok = false;
                    break;
                }
                const RdItem& r = rs.items[ri++];
                if (s.is_data) {
                    ctx.count("fw_data_words_compared");
                    if (r.word != s.word) {
                        ctx.violation("firmware:stream:data-word-differs", "data line differs from the binary word", c,
                                      ldet().hexs("listing_word", r.word).done());
                        seg_ok = false;
                    }
                    if (r.has_e) { // a data word that decodes as a two-word instruction swallows the next data line
                        if (ii + 1 < ss.items.size() && ss.items[ii + 1].is_data && ss.items[ii + 1].word == r.e)
                            ++ii;
                        else {
                            ctx.violation("firmware:stream:data-misaligned", "listing consumed a second word that is not the next data line", c, ldet().done());
                            seg_ok = false;
                        }
                    }
                    continue;
                }
                if (ss.data) { // instruction text inside a data segment: not used by the shipped sources
                    ctx.count("fw_instruction_in_data_segment");
                    if (s.has_e)
                        ++ri;
                    continue;
                }
                ctx.count("fw_instructions_compared");
                Tokens rt = split_ws(r.text);
                if (!rt.empty())
                    ctx.seen("fw_mnemonics", rt[0]);
                const std::string mn = s.tokens0[0];
                // the disassembly of the shipped word(s) is the source line
                if (rt != s.tokens_e) {
                    ctx.violation("firmware:stream:text-differs:" + mn, "disassembly of the shipped binary is not the source line", c,
                                  ldet().hexs("opcode", r.word).hexs("second_word", r.e).str("listing_text", r.text).done());
                    seg_ok = false;
                    break;
                }
                if (r.has_e != s.has_e || (s.has_e && r.e != s.e)) {
                    ctx.violation("firmware:stream:second-word-differs:" + mn, "second word of the listing is not the source's $xxxx", c,
                                  ldet().hexs("opcode", r.word).num("listing_has", r.has_e).hexs("listing_second_word", r.e)
                                      .num("source_has", s.has_e).hexs("source_second_word", s.e).done());
                    seg_ok = false;
                    break;
                }
                if (s.has_e)
                    ctx.count("fw_second_words_compared");
                // the library agrees with the tool, and the in-process assembler gives the shipped opcode
                Tokens lib;
                Classify([&] { lib = Dis::GetTokenList(r.word, r.e); });
                if (lib != rt)
                    ctx.violation("firmware:stream:tool-vs-library-text:" + mn, "dsp1_reader text differs from Disassembler::GetTokenList", c,
                                  ldet().hexs("opcode", r.word).str("library", jtokens(lib)).str("listing_text", r.text).done());
                if (parser) {
                    Teakra::Parser::Opcode po;
                    Classify([&] { po = parser->Parse(s.tokens0); });
                    bool want_e = s.has_e;
                    if (po.status == Teakra::Parser::Opcode::Invalid || po.opcode != r.word ||
                        (po.status == Teakra::Parser::Opcode::ValidWithExpansion) != want_e)
                        ctx.violation("firmware:parse:opcode-differs:" + mn, "assembling the source line does not give the shipped opcode", c,
                                      ldet().hexs("shipped_opcode", r.word).hexs("parsed_opcode", po.opcode).num("status", (int)po.status).done());
                    ctx.count("fw_lines_parsed_in_process");
                }
                if (ctx.samples_emitted < 2 && s.has_e)
                    ctx.sample(JObj().str("mode", "firmware").str("tester", tester).num("line", s.line).str("source_text", s.text)
                                   .hexs("opcode", r.word).hexs("second_word", r.e).str("listing_text", r.text).done());
            }
            if (seg_ok && ri != rs.items.size())
                ctx.violation("firmware:stream:listing-longer-than-source", "listing has instructions with no source line", c,
                              sdet().unum("listing_items", rs.items.size()).unum("consumed", ri).done());
            if (seg_ok)
                ctx.count("fw_segments_identical");
        }
        ctx.seen("nt", "fwlist:" + tester);
    }
    return ctx.finish();
}

} // namespace

int main(int argc, char** argv) {
    Ctx ctx;
    ctx.parse(argc, argv, "C05");
    if (ctx.mode == "cbinding")
        return mode_cbinding(ctx);
    if (ctx.mode == "firmware")
        return mode_firmware(ctx);
    return mode_roundtrip(ctx);
}
