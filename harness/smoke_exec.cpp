#include "exec.h"
using namespace vf;
int main(int argc, char** argv) {
    Ctx ctx; ctx.parse(argc, argv, "C00");
    Encodings enc;
    std::fprintf(stderr, "handlers=%zu undefined=%zu alm=%zu\n", enc.by_name.size(), enc.of("undefined").size(), enc.of("alm").size());
    int exp=0; for (auto&e:enc.all) exp+=e.expanded; std::fprintf(stderr,"expanded=%d\n",exp);
    std::fprintf(stderr, "0x67D0 -> %s\n", enc.all[0x67D0].form.str().c_str());
    int multi=0; for (u32 op=0;op<0x10000;++op) if (enc.table.Matches(op)>1) ++multi; std::fprintf(stderr,"multi=%d\n",multi);
    Machine m; CaseState s = DefaultState(); m.load(s); m.prog(0, 0x67D0);
    auto r = m.run(1); CaseState a = m.capture();
    std::fprintf(stderr, "outcome=%s diff=%s log=%zu interp=%s/%d\n", outcome_name(r.outcome), Diff(s,a).c_str(), m.log().size(), InterpHandlerName(0x67D0), InterpNeedExpansion(0x67D0));
    ctx.count("cases"); return ctx.finish();
}
