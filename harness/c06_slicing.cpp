// C06 — Run(n) is equivalent to n single-cycle steps, however it is sliced.
// Oracle (T): three real Teakra instances execute the same generated program with the same host events at the
// same cycle boundaries; they differ only in how the cycle budget between two host events is sliced:
//   A: one Run(len)      B: len x Run(1)      C: random composition (including Run(0))
// After every interval: registers, data memory digest, MMIO read-back and the ordered callback log must agree.
#include "core_shim.h"
#include "guestprog.h"
#include "state.h"
#include "teakra/teakra.h"
#include "verif_hooks.h"
#include "worker.h"

using namespace vf;

namespace {

struct Instance {
    Teakra::UserConfig cfg;
    Teakra::Teakra t{cfg};
    std::vector<std::string> log; // ordered callback / host observation log
    Instance() {
        t.Reset();
        t.SetAudioCallback([this](std::array<std::int16_t, 2> s) { log.push_back(fmt("audio %d %d", s[0], s[1])); });
        for (int i = 0; i < 3; ++i)
            t.SetRecvDataHandler((u8)i, [this, i] { log.push_back(fmt("recvhandler %d", i)); });
        t.SetSemaphoreHandler([this] { log.push_back("semhandler"); });
    }
    void load(const Prog& p) {
        for (auto& kv : p.words)
            t.ProgramWrite(kv.first, kv.second);
    }
    void apply(const HostEvent& e) {
        switch (e.kind) {
        case 0:
            t.SendData((u8)e.a, e.b);
            break;
        case 1:
            t.SetSemaphore(e.a);
            break;
        case 2:
            log.push_back(fmt("recv%d ready=%d value=%04x", e.a, (int)t.RecvDataIsReady((u8)e.a), t.RecvData((u8)e.a)));
            break;
        case 3:
            t.ClearSemaphore(e.a);
            break;
        case 4:
            t.MMIOWrite(0x204, e.a);
            break;
        case 5:
            log.push_back(fmt("getsem %04x empty=%d%d%d", t.GetSemaphore(), (int)t.SendDataIsEmpty(0), (int)t.SendDataIsEmpty(1),
                              (int)t.SendDataIsEmpty(2)));
            break;
        case 6:
            t.MaskSemaphore(e.a);
            break;
        }
    }
    u64 mem_digest(bool full) {
        const u8* m = t.GetDspMemory();
        u64 h = 1469598103934665603ull;
        size_t from = 0x40000, to = full ? 0x80000 : 0x40000 + 0x6000; // data bank 0 words 0..0x2FFF (log + stack area)
        if (full)
            from = 0;
        const u64* p = reinterpret_cast<const u64*>(m + from);
        for (size_t i = 0; i < (to - from) / 8; ++i)
            h = (h ^ p[i]) * 1099511628211ull;
        return h;
    }
    std::string mmio_snapshot() {
        static const u16 regs[] = {0x20, 0x24, 0x26, 0x28, 0x2A, 0x30, 0x34, 0x36, 0x38, 0x3A, 0x200, 0x0D6, 0x0D8, 0x2C2, 0x0CC, 0x0CE, 0x0D2};
        std::string s;
        for (u16 r : regs)
            s += fmt("%03x=%04x ", r, t.MMIORead(r));
        return s;
    }
};

u64 g_skips = 0, g_skip0 = 0, g_skipped_cycles = 0;
void skip_obs(std::uint64_t k) {
    ++g_skips;
    g_skip0 += k == 0;
    g_skipped_cycles += k;
}

} // namespace

int main(int argc, char** argv) {
    Ctx ctx;
    ctx.parse(argc, argv, "C06");
    Teakra::Verif::skip_observer = &skip_obs;
    for (u64 c = 0; c < ctx.cases; ++c) {
        if (!ctx.selected(c))
            continue;
        Rng g = ctx.case_rng(c);
        Plan pl = make_plan(g);
        Instance A, B, C;
        A.load(pl.prog);
        B.load(pl.prog);
        C.load(pl.prog);
        bool bad = false;
        u64 total = 0;
        u64 case_skips0 = g_skips;
        std::string slicing;
        for (size_t iv = 0; iv < pl.interval.size() && !bad; ++iv) {
            u32 len = pl.interval[iv];
            total += len;
            u64 s0 = g_skips, z0 = g_skip0, sc0 = g_skipped_cycles;
            RunResult ra = Classify([&] { A.t.Run(len); });
            ctx.count("idle_skips_in_A", g_skips - s0);
            ctx.count("idle_skip0_in_A", g_skip0 - z0);
            ctx.count("cycles_skipped_in_A", g_skipped_cycles - sc0);
            u64 sb = g_skips;
            RunResult rb = Classify([&] {
                for (u32 i = 0; i < len; ++i)
                    B.t.Run(1);
            });
            if (g_skips != sb)
                ctx.count("unexpected_skip_in_single_steps", g_skips - sb);
            slicing.clear();
            RunResult rc = Classify([&] {
                u32 left = len;
                while (left) {
                    unsigned s = (unsigned)g.below(10);
                    u32 k = s == 0 ? 0 : s < 4 ? 1 : s < 6 ? (u32)g.range(2, 9) : s < 8 ? (u32)g.range(10, 300) : (u32)g.range(300, 8000);
                    if (k > left)
                        k = left;
                    if (slicing.size() < 200)
                        slicing += fmt("%u,", k);
                    C.t.Run(k);
                    left -= k;
                }
                if (g.chance(1, 3))
                    C.t.Run(0);
            });
            if (ra.outcome != rb.outcome || ra.outcome != rc.outcome) {
                bad = true;
                ctx.violation("slicing:outcome", fmt("outcome differs: Run(n)=%s steps=%s mixed=%s", outcome_name(ra.outcome),
                                                     outcome_name(rb.outcome), outcome_name(rc.outcome)),
                              c, JObj().str("program", pl.desc).done());
                break;
            }
            if (ra.outcome != OK) {
                ctx.count(std::string("ended_") + outcome_name(ra.outcome));
                break;
            }
            for (auto& e : pl.events[iv]) {
                A.apply(e);
                B.apply(e);
                C.apply(e);
                ctx.count("host_events");
            }
            // ---- compare at the common boundary
            Instance* inst[3] = {&A, &B, &C};
            const char* nm[3] = {"Run(n)", "n x Run(1)", "mixed"};
            CaseState st[3];
            std::string mm[3];
            u64 md[3];
            bool last = iv + 1 == pl.interval.size();
            for (int i = 0; i < 3; ++i) {
                st[i] = Capture(inst[i]->t.GetRegisterState());
                mm[i] = inst[i]->mmio_snapshot();
                md[i] = inst[i]->mem_digest(last);
            }
            for (int i = 1; i < 3 && !bad; ++i) {
                std::string what, cls;
                const int ref = 1; // B (all single steps) is the definition of "n single-cycle steps"
                int other = i == 1 ? 0 : 2;
                if (st[other].v != st[ref].v) {
                    cls = "registers";
                    what = Diff(st[other], st[ref], 10);
                } else if (mm[other] != mm[ref]) {
                    cls = "mmio";
                    what = mm[other] + " != " + mm[ref];
                } else if (md[other] != md[ref]) {
                    cls = "memory";
                    what = "data memory digest differs";
                } else if (inst[other]->log != inst[ref]->log) {
                    cls = "callbacks";
                    size_t k = 0;
                    while (k < inst[other]->log.size() && k < inst[ref]->log.size() && inst[other]->log[k] == inst[ref]->log[k])
                        ++k;
                    what = fmt("event #%zu: '%s' vs '%s' (counts %zu/%zu)", k, k < inst[other]->log.size() ? inst[other]->log[k].c_str() : "(none)",
                               k < inst[ref]->log.size() ? inst[ref]->log[k].c_str() : "(none)", inst[other]->log.size(), inst[ref]->log.size());
                }
                if (!cls.empty()) {
                    bad = true;
                    JObj j;
                    j.str("program", pl.desc).num("interval", (s64)iv).num("cycles_in_interval", len).num("cycles_total", (s64)total);
                    j.str("compared", std::string(nm[other]) + " vs " + nm[ref]).str("difference(" + std::string(nm[other]) + "!=steps)", what);
                    j.str("mixed_slicing", slicing);
                    ctx.violation(fmt("slicing:%s:%s", other == 0 ? "run-n" : "mixed", cls.c_str()),
                                  fmt("%s differs from single-stepping in %s: %s", nm[other], cls.c_str(), what.c_str()), c, j.done());
                }
            }
        }
        ctx.count("cases");
        ctx.count("cycles", total);
        if (!bad) {
            const auto& r = A.t.GetRegisterState();
            u64 frames = 0, hostirq = 0;
            for (auto& s : A.log) {
                frames += s.rfind("audio", 0) == 0;
                hostirq += s.rfind("recvhandler", 0) == 0 || s == "semhandler";
            }
            ctx.count("audio_frames", frames);
            ctx.count("host_callbacks", hostirq);
            u64 handler_entries = r.a[1] & 0xFFFF; // inc a1 per handler (approximate: context switches swap a1/b1)
            ctx.count("handler_entries_approx", handler_entries);
            ctx.seen("nt", pl.shape + fmt(" skipped=%d irq=%d frames=%d hostcb=%d", g_skips != case_skips0, handler_entries != 0, frames != 0, hostirq != 0));
            if (c < 2)
                ctx.sample(JObj().str("program", pl.desc).num("intervals", (s64)pl.interval.size()).num("cycles", (s64)total)
                               .num("callback_events", (s64)A.log.size()).done());
        }
    }
    return ctx.finish();
}
