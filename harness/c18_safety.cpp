// C18 — no guest program, register write or in-contract host call makes the emulator touch memory out of
// bounds; execution ends only by returning, UnimplementedException or a deliberate assertion.
// Oracle (S): ASan+UBSan build (flavour asan; also runs in flavour fast where only the bounds observer and the
// outcome classes are active) + the H2 bounds observer on SharedMemory::ReadWord/WriteWord (ASan cannot see far
// out-of-bounds accesses) + a watchdog for bounded cases.
// Cases run in forked children, one Teakra per batch of 64 cases; the child journals the case index before it
// runs it, so a sanitizer abort / signal / hang is attributed to one case and the run continues after it.
#include <cxxabi.h>
#include <dlfcn.h>
#include <execinfo.h>
#include <fcntl.h>
#include <poll.h>
#include <signal.h>
#include <sys/wait.h>
#include <unistd.h>
#include <fstream>
#include <sstream>
#include <unordered_map>
#include "core_shim.h"
#include "rec.h"
#include "state.h"
#include "teakra/teakra.h"
#include "verif_hooks.h"
#include "worker.h"

using namespace vf;

namespace {

constexpr unsigned kBatch = 64;
std::string g_oob_site;

std::string frame_name(void* addr) {
    Dl_info info;
    if (!dladdr(addr, &info) || !info.dli_sname)
        return "";
    int st = 0;
    char* d = abi::__cxa_demangle(info.dli_sname, nullptr, nullptr, &st);
    std::string s = d ? d : info.dli_sname;
    std::free(d);
    size_t p = s.find('(');
    if (p != std::string::npos)
        s = s.substr(0, p);
    return s;
}

void bounds_observer(const Teakra::SharedMemory*, std::uint32_t a, bool w, std::uint16_t) {
    if ((u64)a * 2 + 1 < 0x80000)
        return;
    // innermost teakra frames that are not the accessor itself
    void* frames[24];
    int n = backtrace(frames, 24);
    std::string site;
    int got = 0;
    for (int i = 1; i < n && got < 2; ++i) {
        std::string f = frame_name(frames[i]);
        if (f.find("Teakra::") == std::string::npos || f.find("SharedMemory") != std::string::npos ||
            f.find("std::") == 0 || f.find("Verif") != std::string::npos)
            continue;
        size_t lt = f.find('<');
        if (lt != std::string::npos)
            f = f.substr(0, lt);
        if (!site.empty() && site.find(f) != std::string::npos)
            continue;
        site += (site.empty() ? "" : "<-") + f;
        ++got;
    }
    g_oob_site = fmt("%s:%s", w ? "write" : "read", site.empty() ? "?" : site.c_str());
    throw OobVeto{a, w};
}

struct Ext { // sparse external memory behind the AHBM callbacks
    std::unordered_map<u32, u8> m;
    u8 r8(u32 a) { return m.count(a) ? m[a] : (u8)(a * 7 + 3); }
    void w8(u32 a, u8 v) {
        if (m.size() < 200000)
            m[a] = v;
    }
};

struct Rig {
    Teakra::UserConfig cfg;
    Teakra::Teakra t{cfg};
    Ext ext;
    u64 audio = 0, hostcb = 0;
    Rig() {
        Teakra::AHBMCallback cb;
        cb.read8 = [this](u32 a) { return ext.r8(a); };
        cb.write8 = [this](u32 a, u8 v) { ext.w8(a, v); };
        cb.read16 = [this](u32 a) { return (u16)(ext.r8(a) | (ext.r8(a + 1) << 8)); };
        cb.write16 = [this](u32 a, u16 v) {
            ext.w8(a, (u8)v);
            ext.w8(a + 1, (u8)(v >> 8));
        };
        cb.read32 = [this](u32 a) { return (u32)(ext.r8(a) | (ext.r8(a + 1) << 8) | (ext.r8(a + 2) << 16) | ((u32)ext.r8(a + 3) << 24)); };
        cb.write32 = [this](u32 a, u32 v) {
            for (int i = 0; i < 4; ++i)
                ext.w8(a + i, (u8)(v >> (8 * i)));
        };
        t.SetAHBMCallback(cb);
        t.SetAudioCallback([this](std::array<std::int16_t, 2>) { ++audio; });
        for (int i = 0; i < 3; ++i)
            t.SetRecvDataHandler((u8)i, [this] { ++hostcb; });
        t.SetSemaphoreHandler([this] { ++hostcb; });
    }
};

struct Gen {
    std::vector<std::vector<u16>> by_handler;
    Gen() {
        RecTable table;
        std::map<std::string, std::vector<u16>> m;
        for (u32 op = 0; op < 0x10000; ++op) {
            Form f;
            bool e;
            table.Decode((u16)op, 0, f, e);
            m[f.name].push_back((u16)op);
        }
        for (auto& kv : m)
            by_handler.push_back(kv.second);
    }
    u16 word(Rng& g) const {
        unsigned s = (unsigned)g.below(10);
        if (s < 5)
            return (u16)g.bits(16);
        if (s < 9) {
            auto& v = by_handler[g.below(by_handler.size())];
            return v[g.below(v.size())];
        }
        static const u16 sp[] = {0x0000, 0xFFFF, 0x8000, 0x57F0, 0x4180, 0x41C0, 0x45C0, 0x0C00, 0x5C00, 0xD7F4, 0x5DD0, 0x0028};
        return g.pick(sp);
    }
};

u16 interesting(Rng& g) {
    unsigned s = (unsigned)g.below(8);
    if (s == 0)
        return 0;
    if (s == 1)
        return 0xFFFF;
    if (s == 2)
        return (u16)(1u << g.below(16));
    if (s == 3)
        return (u16)~(1u << g.below(16));
    if (s == 4)
        return 0x40C0;
    if (s == 5)
        return (u16)g.below(16);
    return (u16)g.bits(16);
}

const u16 kDocOffsets[] = {0x01A, 0x020, 0x022, 0x024, 0x026, 0x028, 0x02A, 0x02C, 0x02E, 0x030, 0x032, 0x034, 0x036, 0x038, 0x03A,
                           0x03C, 0x03E, 0x0C0, 0x0C2, 0x0C4, 0x0C6, 0x0C8, 0x0CA, 0x0CC, 0x0CE, 0x0D0, 0x0D2, 0x0D4, 0x0D6, 0x0D8,
                           0x0E0, 0x0E2, 0x0E4, 0x0E6, 0x0E8, 0x0EA, 0x0EC, 0x0EE, 0x0F0, 0x0F2, 0x10E, 0x110, 0x112, 0x114, 0x116,
                           0x11A, 0x11E, 0x184, 0x18C, 0x1BE, 0x1C0, 0x1C2, 0x1C4, 0x1C6, 0x1C8, 0x1CA, 0x1CC, 0x1CE, 0x1D0, 0x1D2,
                           0x1D4, 0x1D6, 0x1D8, 0x1DA, 0x1DC, 0x1DE, 0x200, 0x202, 0x204, 0x206, 0x208, 0x20A, 0x20C, 0x212, 0x214,
                           0x24E, 0x250, 0x2A2, 0x2BE, 0x2C2, 0x2C6, 0x2CA, 0x322, 0x33E, 0x342, 0x346, 0x34A};

// keeps a started DMA bounded: sizes are forced small right before the magic start value is written
void mmio_write(Rig& r, Rng& g, u16 off, u16 v, bool dsp_path) {
    off &= 0x7FF;
    if (off == 0x1DE && v == 0x40C0) {
        r.t.MMIOWrite(0x1C8, (u16)g.below(40));
        r.t.MMIOWrite(0x1CA, (u16)g.below(40));
        r.t.MMIOWrite(0x1CC, (u16)g.below(40));
    }
    if (dsp_path)
        r.t.DataWrite((u16)(r.t.MMIORead(0x11E) + off), v); // current window base
    else
        r.t.MMIOWrite((u16)(off + 0x800 * g.below(4)), v);
}

const char* kKinds[] = {"prog", "mmio", "dma", "host", "firmware"};
constexpr int kNumKinds = 5;

// the four DSP firmware images shipped with the hardware testers (DSP1 container, see src/dsp1_reader/main.cpp)
struct Firmware {
    struct Seg {
        u8 type;
        u32 target;
        std::vector<u16> words;
    };
    std::string name;
    std::vector<Seg> segs;
};
std::vector<Firmware> g_firmware;

void load_firmware(const std::string& repo) {
    static const char* names[] = {"dsptester", "dspapbptester", "dspmemorytester", "dspvictester"};
    for (const char* n : names) {
        std::ifstream f(repo + "/hwtest/" + n + "/data/cdc.bin", std::ios::binary);
        std::vector<u8> raw((std::istreambuf_iterator<char>(f)), std::istreambuf_iterator<char>());
        if (raw.size() < 0x300)
            continue;
        Firmware fw;
        fw.name = n;
        unsigned nseg = raw[0x10E];
        for (unsigned i = 0; i < nseg && i < 10; ++i) {
            const u8* e = raw.data() + 0x120 + i * 0x30;
            auto rd32 = [](const u8* q) { return (u32)(q[0] | (q[1] << 8) | (q[2] << 16) | ((u32)q[3] << 24)); };
            u32 off = rd32(e), addr = rd32(e + 4), size = rd32(e + 8);
            Firmware::Seg sg;
            sg.type = e[15];
            sg.target = addr;
            if ((u64)off + size > raw.size())
                continue;
            for (u32 b = 0; b + 1 < size; b += 2)
                sg.words.push_back((u16)(raw[off + b] | (raw[off + b + 1] << 8)));
            fw.segs.push_back(sg);
        }
        g_firmware.push_back(fw);
    }
}

// returns the kind index; everything random comes from g
int run_case(Rig& r, const Gen& gen, Rng& g, u64 c, Ctx& ctx, std::string& desc, RunResult& rr) {
    int kind = (int)(c % kNumKinds);
    if (kind == 4 && g_firmware.empty())
        kind = 0;
    auto& t = r.t;
    rr = Classify([&] {
        t.Reset();
        u8* mem = t.GetDspMemory();
        auto& regs = t.GetRegisterState();
        if (kind == 0) {
            // ---- random program: several windows of random code, control flow to any 18-bit address
            for (int wdw = 0; wdw < 6; ++wdw) {
                u32 base = wdw == 0 ? (u32)g.below(0x3FFC0) : (u32)g.below(0x40000 - 48);
                if (wdw == 5)
                    base = 0x3FFD0; // end of program space
                for (u32 i = 0; i < 48 && base + i < 0x40000; ++i) {
                    u16 w = gen.word(g);
                    mem[(base + i) * 2] = (u8)w;
                    mem[(base + i) * 2 + 1] = (u8)(w >> 8);
                }
                if (wdw == 0)
                    regs.pc = base;
            }
            StateGenOpts o;
            o.loops = g.chance(1, 3);
            o.random_ints = g.chance(1, 2);
            CaseState s = RandomState(g, o);
            s["pc"] = regs.pc;
            if (s["lp"] && g.chance(1, 2)) {
                // an active loop nest whose block ends are actually reached: the innermost (sometimes every) frame ends on
                // one of the next few words, starts nearby, and has a small remaining count (also 0: last iteration)
                unsigned depth = (unsigned)s["bcn"];
                for (unsigned f = depth; f-- > 0;) {
                    if (f + 1 != depth && !g.chance(1, 3))
                        continue;
                    u64 pc = s["pc"];
                    s[fmt("bkrep_stack[%u].end", f).c_str()] = (pc + g.below(6)) & 0x3FFFF;
                    s[fmt("bkrep_stack[%u].start", f).c_str()] = g.chance(1, 2) ? pc : ((pc + 0x3FFFC + g.below(8)) & 0x3FFFF);
                    s[fmt("bkrep_stack[%u].lc", f).c_str()] = g.chance(2, 3) ? g.below(3) : g.bits(16);
                }
            }
            if (g.chance(1, 5))
                s["pc"] = g.chance(1, 2) ? 0x3FFF0 + g.below(16) : g.below(8);
            if (g.chance(1, 8))
                s["prpage"] = g.below(16); // register.md: 4-bit register, "should remain 0"
            Apply(s, regs);
            if (g.chance(1, 3)) { // status/config words all-ones / all-zeros / random through the architectural setters
                u16 v = g.chance(1, 3) ? 0xFFFF : g.chance(1, 2) ? 0 : (u16)g.bits(16);
                switch (g.below(19)) {
                case 0: regs.Set<Teakra::stt0>(v); break;
                case 1: regs.Set<Teakra::stt1>(v); break;
                case 2: regs.Set<Teakra::stt2>(v); break;
                case 3: regs.Set<Teakra::mod0>(v); break;
                case 4: regs.Set<Teakra::mod1>(v); break;
                case 5: regs.Set<Teakra::mod2>(v); break;
                case 6: regs.Set<Teakra::mod3>(v); break;
                case 7: regs.Set<Teakra::st0>(v); break;
                case 8: regs.Set<Teakra::st1>(v); break;
                case 9: regs.Set<Teakra::st2>(v); break;
                case 10: regs.Set<Teakra::cfgi>(v); break;
                case 11: regs.Set<Teakra::cfgj>(v); break;
                case 12: regs.Set<Teakra::ar0>(v); break;
                case 13: regs.Set<Teakra::ar1>(v); break;
                case 14: regs.Set<Teakra::arp0>(v); break;
                case 15: regs.Set<Teakra::arp1>(v); break;
                case 16: regs.Set<Teakra::arp2>(v); break;
                case 17: regs.Set<Teakra::arp3>(v); break;
                case 18: regs.Set<Teakra::icr>(v); break;
                }
            }
            unsigned n = g.chance(1, 4) ? (unsigned)g.range(1, 8) : (unsigned)g.range(8, 2000);
            u32 dpc = regs.pc < 0x3FFFE ? regs.pc : 0x3FFFE;
            desc = fmt("prog pc=%05x prpage=%x cycles=%u code@%05x=%04x %04x", regs.pc, regs.prpage, n, dpc,
                       mem[dpc * 2] | (mem[dpc * 2 + 1] << 8), mem[dpc * 2 + 2] | (mem[dpc * 2 + 3] << 8));
            if (g.chance(1, 4)) {
                unsigned left = n;
                while (left) {
                    unsigned k = std::min<unsigned>(left, (unsigned)g.range(1, 300));
                    t.Run(k);
                    left -= k;
                }
            } else
                t.Run(n);
        } else if (kind == 1) {
            // ---- MMIO fuzz through both paths, interleaved with Run
            unsigned nops = (unsigned)g.range(5, 40);
            desc = "mmio";
            for (unsigned i = 0; i < nops; ++i) {
                u16 off = g.chance(3, 4) ? g.pick(kDocOffsets) : (u16)g.below(0x800);
                u16 v = interesting(g);
                unsigned s = (unsigned)g.below(10);
                if (desc.size() < 400)
                    desc += fmt(" %s%03x=%04x", s < 5 ? "W" : s < 7 ? "D" : s < 9 ? "R" : "run", off, v);
                if (off == 0x112 && s < 7 && v >= 2 && g.chance(9, 10))
                    v &= 1; // z_page >= 2 is a deliberate assertion on the next data access; keep some
                if (s < 5)
                    mmio_write(r, g, off, v, false);
                else if (s < 7)
                    mmio_write(r, g, off, v, true);
                else if (s < 8)
                    (void)t.MMIORead((u16)(off + 0x800 * g.below(4)));
                else if (s < 9)
                    (void)t.DataRead((u16)(t.MMIORead(0x11E) + off));
                else
                    t.Run((unsigned)g.range(1, 200));
            }
        } else if (kind == 2) {
            // ---- DMA / AHBM configuration fuzz (<= 2^20 elements)
            u16 chan = g.chance(5, 6) ? (u16)g.below(8) : interesting(g);
            for (int a = 0; a < 3; ++a) {
                t.MMIOWrite((u16)(0x0E2 + a * 6), (u16)g.bits(16));
                t.MMIOWrite((u16)(0x0E4 + a * 6), (u16)g.bits(16));
                t.MMIOWrite((u16)(0x0E6 + a * 6), g.chance(1, 2) ? (u16)(1u << g.below(8)) : (u16)g.bits(8));
            }
            t.MMIOWrite(0x1BE, chan);
            u16 srcl = (u16)g.bits(16), dstl = (u16)g.bits(16);
            u16 srch = g.chance(2, 3) ? (u16)g.below(2) : interesting(g), dsth = g.chance(2, 3) ? (u16)g.below(2) : interesting(g);
            // addresses whose DERIVED quantities sit at a boundary: data-area base + address (+ a few elements) just below
            // 2^32, just below/above the end of the array counted in words (0x40000) or in bytes (0x80000), the bank border
            auto derived_edge = [&]() -> u32 {
                static const u64 borders[] = {1ull << 32, 1ull << 32, 0x40000, 0x80000, 0x20000, 0x30000, 0x10000};
                u64 B = g.pick(borders);
                u64 base = g.chance(2, 3) ? 0x20000 : 0;
                return (u32)(B - base - g.below(g.chance(1, 2) ? 24 : 160) + g.below(4));
            };
            if (g.chance(1, 4)) {
                u32 a = derived_edge();
                srcl = (u16)a, srch = (u16)(a >> 16);
            }
            if (g.chance(1, 4)) {
                u32 a = derived_edge();
                dstl = (u16)a, dsth = (u16)(a >> 16);
            }
            t.MMIOWrite(0x1C0, srcl);
            t.MMIOWrite(0x1C2, srch);
            t.MMIOWrite(0x1C4, dstl);
            t.MMIOWrite(0x1C6, dsth);
            u32 s0, s1, s2;
            unsigned shape = (unsigned)g.below(6);
            if (shape == 0) {
                s0 = g.chance(1, 2) ? 0xFFFF : 0xFFFE;
                s1 = (u32)g.below(3);
                s2 = (u32)g.below(3);
            } else if (shape == 1) {
                s0 = (u32)g.below(3);
                s1 = 0xFFFF;
                s2 = (u32)g.below(3);
            } else {
                s0 = (u32)g.below(64);
                s1 = (u32)g.below(32);
                s2 = (u32)g.below(16);
            }
            t.MMIOWrite(0x1C8, (u16)s0);
            t.MMIOWrite(0x1CA, (u16)s1);
            t.MMIOWrite(0x1CC, (u16)s2);
            for (u16 off = 0x1CE; off <= 0x1D8; off += 2)
                t.MMIOWrite(off, g.chance(1, 2) ? (u16)g.below(5) : interesting(g));
            u16 spaces;
            static const u16 sp[] = {0, 7, 1, 5};
            spaces = (u16)(g.pick(sp) | (g.pick(sp) << 4) | (g.chance(1, 3) ? 0x400 : 0));
            if (g.chance(1, 8))
                spaces = (u16)g.bits(16);
            if (g.chance(1, 3)) {
                // the configuration real programs use most: a plain contiguous block copy (unit steps on the inner dimension,
                // DSP memory on at least one side, word or double-word elements)
                static const u16 plain[] = {0x00, 0x00, 0x70, 0x07};
                bool dw = g.chance(1, 4);
                spaces = (u16)(g.pick(plain) | (dw ? 0x400 : 0));
                t.MMIOWrite(0x1CE, dw ? 2 : 1);
                t.MMIOWrite(0x1D0, dw ? 2 : 1);
            }
            t.MMIOWrite(0x1DA, spaces);
            t.MMIOWrite(0x1DC, (u16)g.bits(16));
            desc = fmt("dma chan=%04x src=%04x%04x dst=%04x%04x size=%x/%x/%x spaces=%04x", chan, srch, srcl, dsth, dstl, s0, s1, s2, spaces);
            t.MMIOWrite(0x1DE, 0x40C0);
            (void)t.MMIORead(0x200);
        } else if (kind == 4) {
            // ---- one of the shipped tester firmwares, driven by random host commands in its command area
            const Firmware& fw = g_firmware[g.below(g_firmware.size())];
            for (auto& sg : fw.segs)
                for (size_t i = 0; i < sg.words.size(); ++i) {
                    if (sg.type == 2)
                        t.DataWrite((u16)(sg.target + i), sg.words[i], true);
                    else
                        t.ProgramWrite((sg.target + (u32)i) & 0x3FFFF, sg.words[i]);
                }
            desc = "firmware " + fw.name;
            unsigned nops = (unsigned)g.range(5, 60);
            for (unsigned i = 0; i < nops; ++i) {
                unsigned s = (unsigned)g.below(10);
                if (s < 4)
                    t.Run((unsigned)g.range(1, 3000));
                else if (s < 8) { // command words: [0] signal, [1] type, [2] address, [3..] arguments
                    u16 a = (u16)g.below(16);
                    u16 v = a == 2 ? (g.chance(1, 2) ? (u16)(0x8000 + g.pick(kDocOffsets)) : (u16)g.bits(16)) : a < 2 ? (u16)g.below(3) : interesting(g);
                    t.DataWrite(a, v, true);
                } else if (s == 8)
                    t.SendData((u8)g.below(3), (u16)g.bits(16));
                else {
                    t.SetSemaphore((u16)(1u << g.below(16)));
                    (void)t.RecvData((u8)g.below(3));
                }
            }
        } else {
            // ---- in-contract host calls with extreme arguments
            desc = "host";
            unsigned nops = (unsigned)g.range(3, 25);
            for (unsigned i = 0; i < nops; ++i) {
                unsigned s = (unsigned)g.below(22);
                u32 a32 = g.chance(1, 3) ? 0xFFFFFFFFu : g.chance(1, 2) ? (u32)g.bits(32) : (u32)g.bits(17);
                u32 p18 = g.chance(1, 3) ? 0x3FFFF : (u32)g.below(0x40000);
                u16 v = interesting(g);
                if (desc.size() < 300)
                    desc += fmt(" %u", s);
                switch (s) {
                case 0: (void)t.ProgramRead(p18); break;
                case 1: t.ProgramWrite(p18, v); break;
                case 2: (void)t.DataRead(v, g.chance(1, 2)); break;
                case 3: t.DataWrite(v, (u16)g.bits(16), true); break;
                case 4: (void)t.DataReadA32(a32); break;
                case 5: t.DataWriteA32(a32, v); break;
                case 6: t.Run(0); break;
                case 7: t.Run((unsigned)g.below(50)); break;
                case 8: (void)t.AHBMRead16(a32); break;
                case 9: t.AHBMWrite16(a32, v); break;
                case 10: (void)t.AHBMRead32(a32); break;
                case 11: t.AHBMWrite32(a32, (u32)g.bits(32)); break;
                case 12: (void)t.AHBMGetUnitSize((u16)g.below(3)); (void)t.AHBMGetDirection((u16)g.below(3)); (void)t.AHBMGetDmaChannel((u16)g.below(3)); break;
                case 13: t.SendData((u8)g.below(3), v); break;
                case 14: (void)t.RecvData((u8)g.below(3)); (void)t.PeekRecvData((u8)g.below(3)); break;
                case 15: t.SetSemaphore(v); break;
                case 16: t.ClearSemaphore(v); t.MaskSemaphore((u16)g.bits(16)); (void)t.GetSemaphore(); break;
                case 17: (void)t.DMAChan0GetSrcHigh(); (void)t.DMAChan0GetDstHigh(); break;
                case 18: (void)t.MMIORead(v); break;
                case 19: (void)t.RecvDataIsReady((u8)g.below(3)); (void)t.SendDataIsEmpty((u8)g.below(3)); break;
                case 20: t.DataWrite(v, (u16)g.bits(16), false); break; // may hit the MMIO window: covered by kind 1 guard
                case 21: t.Reset(); break;
                }
            }
        }
    });
    (void)ctx;
    return kind;
}

std::string read_file(const std::string& p) {
    std::ifstream f(p);
    std::stringstream ss;
    ss << f.rdbuf();
    return ss.str();
}

std::string sanitizer_key(const std::string& log, int status, bool hang) {
    if (hang)
        return "hang";
    std::string k;
    size_t p = log.find("runtime error: ");
    if (p != std::string::npos) {
        std::string msg = log.substr(p + 15, 60);
        std::string kind;
        for (char ch : msg) {
            if (ch == '\n')
                break;
            if (std::isdigit((unsigned char)ch) || ch == '-')
                continue;
            kind += ch == ' ' ? '-' : ch;
        }
        while (kind.find("--") != std::string::npos)
            kind.replace(kind.find("--"), 2, "-");
        // file of the report line
        size_t ls = log.rfind('\n', p);
        std::string line = log.substr(ls == std::string::npos ? 0 : ls + 1, p - (ls == std::string::npos ? 0 : ls + 1));
        size_t sl = line.rfind('/');
        std::string file = sl == std::string::npos ? line : line.substr(sl + 1);
        size_t col = file.find(':');
        size_t col2 = col == std::string::npos ? col : file.find(':', col + 1);
        if (col2 != std::string::npos)
            file = file.substr(0, col2);
        return "ubsan:" + kind.substr(0, 48) + ":" + file;
    }
    p = log.find("ERROR: AddressSanitizer: ");
    if (p != std::string::npos) {
        std::string kind = log.substr(p + 25, 40);
        kind = kind.substr(0, kind.find_first_of(" \n"));
        std::string fn;
        size_t q = log.find(" in Teakra::", p);
        if (q != std::string::npos) {
            fn = log.substr(q + 4, 80);
            fn = fn.substr(0, fn.find_first_of("(< \n"));
        }
        return "asan:" + kind + ":" + fn;
    }
    if (log.find("Assertion") != std::string::npos && log.find("__glibcxx") != std::string::npos)
        return "libstdcxx-assertion";
    if (WIFSIGNALED(status))
        return fmt("signal-%d", WTERMSIG(status));
    return fmt("exit-%d", WIFEXITED(status) ? WEXITSTATUS(status) : -1);
}

} // namespace

int main(int argc, char** argv) {
    Ctx ctx;
    ctx.parse(argc, argv, "C18");
    Teakra::Verif::mem_observer = &bounds_observer;
    Gen gen;
    load_firmware(ctx.opts.count("repo") ? ctx.opts["repo"] : "/repo");
    std::string tmpdir = ctx.opts.count("verif") ? ctx.opts["verif"] + "/.build" : "/tmp";
    std::string errfile = fmt("%s/c18_err_%d_%d.txt", tmpdir.c_str(), (int)getpid(), ctx.shard);
    const int hang_seconds = 25;

    u64 first = 0, last = ctx.cases;
    if (ctx.only_case >= 0) { // replay: rerun the batch that contains the case, from its beginning
        first = ((u64)ctx.only_case / kBatch) * kBatch;
        last = (u64)ctx.only_case + 1;
    }
    u64 c = first;
    int confirm_round = 0;
    bool hang_confirmed_once = false;
    while (c < last) {
        u64 batch_start = (c / kBatch) * kBatch;
        u64 batch_end = std::min<u64>(batch_start + kBatch, last);
        int jp[2];
        if (pipe(jp) != 0)
            return 3;
        std::fflush(ctx.out);
        pid_t pid = -1;
        for (int attempt = 0; attempt < 20 && pid < 0; ++attempt) { // a loaded machine may refuse a fork for a moment
            pid = fork();
            if (pid < 0)
                sleep(3);
        }
        if (pid < 0) {
            ctx.note("fork failed repeatedly");
            return 3; // harness failure: the driver reports the run as inconclusive
        }
        if (pid == 0) {
            close(jp[0]);
            int ef = open(errfile.c_str(), O_WRONLY | O_CREAT | O_TRUNC, 0644);
            dup2(ef, 2);
            // child: fresh counters; its lines are appended to the same out file
            ctx.counters.clear();
            ctx.sets.clear();
            ctx.maxes.clear();
            Rig rig;
            for (u64 k = batch_start; k < batch_end; ++k) {
                Rng g = ctx.case_rng(k);
                if (k < c) { // decided by an earlier child that died later: re-executed only to rebuild instance state
                    std::string d;
                    RunResult rr;
                    // cases recorded as crashing/hanging are listed in opts["skip"] (comma separated) and left out
                    std::string sk = "," + ctx.opts["skip"] + ",";
                    if (sk.find(fmt(",%" PRIu64 ",", k)) == std::string::npos)
                        run_case(rig, gen, g, k, ctx, d, rr);
                    continue;
                }
                u64 kk = k;
                if (write(jp[1], &kk, 8) != 8)
                    _exit(4);
                std::string desc;
                RunResult rr;
                g_oob_site.clear();
                int kind = run_case(rig, gen, g, k, ctx, desc, rr);
                ctx.count("cases");
                ctx.count(std::string("cases_") + kKinds[kind]);
                ctx.count(std::string("ending_") + outcome_name(rr.outcome));
                ctx.seen("nt", fmt("%s:%s%s%s", kKinds[kind], outcome_name(rr.outcome), rr.outcome == ASSERT_ ? ":" : "",
                                   rr.outcome == ASSERT_ ? rr.what.substr(0, 40).c_str() : ""));
                if (rr.outcome == ASSERT_)
                    ctx.seen("deliberate_assertions", rr.what.substr(0, 60));
                if (rr.outcome == OOB)
                    ctx.violation(fmt("oob:%s:%s", g_oob_site.c_str(), kKinds[kind]),
                                  fmt("access outside the 0x80000-byte DSP memory (%s) in case: %s", rr.what.c_str(), desc.c_str()), k,
                                  JObj().str("case", desc).str("site", g_oob_site).done());
                else if (rr.outcome == OTHER_EXC)
                    ctx.violation(fmt("exception:%s:%s", rr.what.substr(0, 40).c_str(), kKinds[kind]),
                                  "foreign exception leaves the API: " + rr.what + " in case: " + desc, k, JObj().str("case", desc).done());
                if (k < 4 && ctx.shard == 0)
                    ctx.sample(JObj().num("case", (s64)k).str("input", desc).str("ending", outcome_name(rr.outcome)).done(), 4);
            }
            // emit child counters (summed by the driver), no "done" record
            for (auto& kv : ctx.counters)
                std::fprintf(ctx.out, "{\"t\":\"counter\",\"k\":%s,\"v\":%" PRIu64 "}\n", jstr(kv.first).c_str(), kv.second);
            for (auto& kv : ctx.sets) {
                std::fprintf(ctx.out, "{\"t\":\"set\",\"k\":%s,\"v\":[", jstr(kv.first).c_str());
                bool f = true;
                for (auto& v : kv.second) {
                    std::fprintf(ctx.out, "%s%s", f ? "" : ",", jstr(v).c_str());
                    f = false;
                }
                std::fprintf(ctx.out, "]}\n");
            }
            std::fflush(ctx.out);
            _exit(0);
        }
        close(jp[1]);
        // parent: follow the journal with a progress watchdog
        u64 cur = c;
        bool started = false, hang = false;
        for (;;) {
            struct pollfd pfd = {jp[0], POLLIN, 0};
            int pr = poll(&pfd, 1, hang_seconds * 1000);
            if (pr == 0) {
                hang = true;
                kill(pid, SIGKILL);
                break;
            }
            u64 k;
            ssize_t rd = read(jp[0], &k, 8);
            if (rd != 8)
                break;
            cur = k;
            started = true;
        }
        close(jp[0]);
        int status = 0;
        waitpid(pid, &status, 0);
        bool clean = !hang && WIFEXITED(status) && WEXITSTATUS(status) == 0;
        if (clean) {
            c = batch_end;
            confirm_round = 0;
            continue;
        }
        if (!started) {
            // nothing of the workload ran yet: resource trouble on a loaded machine (retried), or the facade cannot even be
            // constructed (then it happens every time and is reported)
            static int died_early = 0;
            std::string elog = read_file(errfile);
            unlink(errfile.c_str());
            if (++died_early <= 3) {
                ctx.note("child died before the first case (retrying): " + elog.substr(0, 300));
                sleep(2);
                continue;
            }
            ctx.violation("crash:before-first-case:" + sanitizer_key(elog, status, false), "the child process died before its first case, four times in a row", c,
                          JObj().str("log", elog.substr(0, 2000)).done());
            c = batch_end;
            died_early = 0;
            continue;
        }
        std::string log = read_file(errfile);
        std::string key = sanitizer_key(log, status, hang);
        // the first hang of a worker is confirmed by a second run of the same batch prefix before it is reported
        if (hang && confirm_round == 0 && !hang_confirmed_once) {
            confirm_round = 1;
            continue; // same c: the batch is re-run up to the hanging case
        }
        confirm_round = 0;
        if (hang)
            hang_confirmed_once = true;
        ctx.count("cases");
        ctx.count(hang ? "hangs" : "aborted_cases");
        ctx.violation(key + ":" + kKinds[cur % kNumKinds],
                      fmt("%s in case %" PRIu64 " (%s workload)", hang ? "no progress for 25 s (bounded case does not end)" : "sanitizer/signal abort",
                          cur, kKinds[cur % kNumKinds]),
                      cur, JObj().str("report", log.substr(0, 3500)).done());
        // continue after the failing case: it is skipped when the batch state is rebuilt
        ctx.opts["skip"] += fmt("%s%" PRIu64, ctx.opts["skip"].empty() ? "" : ",", cur);
        c = cur + 1;
    }
    unlink(errfile.c_str());
    return ctx.finish();
}
