// Independent model of a DMA transfer, written from /repo/src/dma.md, /repo/src/ahbm.md and the statement
// of property C13. It does not look at dma.cpp/ahbm.cpp.
//
//  * one transfer = a three-level array walk: SIZE0 is the finest dimension; the address stepping after an
//    element is STEP0 inside a dimension-0 row, STEP1 when a row is finished, STEP2 when a dimension-1 block
//    is finished (dma.md example: 0,2,4/5,7,9/...||31,...). STEP values are added "as-is" (unsigned).
//  * SIZEx == 0 has the same effect as 1.
//  * double-word mode: one 32-bit element counts as 2 in the dimension-0 counter (a row ends once the counter
//    has reached SIZE0), addresses are aligned down to 32-bit boundaries.
//  * per element the source is read, then the destination is written (so overlapping ranges are defined).
//  * space 0 = DSP data memory: word address A is word 0x20000 + A of the shared memory (little endian);
//    space 7 = external memory (byte addressed). The model only describes external accesses of a unit
//    that matches the element width at a naturally aligned address (what the property states): each such
//    access transfers exactly those bytes at exactly that address. Everything else (8-bit units, width
//    mismatch, unaligned addresses) is hardware-quirk territory outside the statement and is not modelled.
#pragma once
#include <array>
#include <cstdint>
#include <unordered_map>
#include <vector>

namespace vf {
namespace dma_model {

using u8 = std::uint8_t;
using u16 = std::uint16_t;
using u32 = std::uint32_t;
using u64 = std::uint64_t;

constexpr u32 kDspDataWords = 0x20000;  // two banks of 0x10000 words
constexpr u32 kDspDataByteOffset = 0x40000; // word 0x20000

struct Config {
    u32 src_addr = 0, dst_addr = 0;
    u16 size[3] = {0, 0, 0};
    u16 src_step[3] = {0, 0, 0};
    u16 dst_step[3] = {0, 0, 0};
    u16 src_space = 0, dst_space = 0; // 0 DSP data memory, 7 external
    bool dword = false;
};

inline u32 Count(const Config& c, int dim) {
    u32 n = c.size[dim] ? c.size[dim] : 1;
    if (dim == 0 && c.dword)
        n = (n + 1) / 2; // counter advances by two per element; row ends when counter >= SIZE0
    return n;
}
inline u64 Elements(const Config& c) {
    return (u64)Count(c, 0) * Count(c, 1) * Count(c, 2);
}

// calls f(src_address, dst_address) for every element, in transfer order
template <typename F>
void Walk(const Config& c, F&& f) {
    const u32 n0 = Count(c, 0), n1 = Count(c, 1), n2 = Count(c, 2);
    u32 s = c.src_addr, d = c.dst_addr;
    for (u32 k = 0; k < n2; ++k)
        for (u32 j = 0; j < n1; ++j)
            for (u32 i = 0; i < n0; ++i) {
                f(s, d);
                int level = (i + 1 < n0) ? 0 : (j + 1 < n1) ? 1 : (k + 1 < n2) ? 2 : -1;
                if (level >= 0) {
                    s += c.src_step[level];
                    d += c.dst_step[level];
                }
            }
}

// Sparse byte-addressed external memory with a deterministic background pattern
struct SparseMem {
    static constexpr u32 kPageBits = 6, kPageSize = 1u << kPageBits;
    u64 background = 0;
    std::unordered_map<u32, std::array<u8, kPageSize>> pages;

    static u8 Bg(u64 seed, u32 a) {
        u64 z = (seed ^ a) * 0x9E3779B97F4A7C15ull;
        z = (z ^ (z >> 29)) * 0xBF58476D1CE4E5B9ull;
        return (u8)(z >> 40);
    }
    std::array<u8, kPageSize>& Page(u32 a) {
        u32 p = a >> kPageBits;
        auto it = pages.find(p);
        if (it != pages.end())
            return it->second;
        auto& pg = pages[p];
        for (u32 i = 0; i < kPageSize; ++i)
            pg[i] = Bg(background, (p << kPageBits) + i);
        return pg;
    }
    u8 Get(u32 a) { return Page(a)[a & (kPageSize - 1)]; }
    void Set(u32 a, u8 v) { Page(a)[a & (kPageSize - 1)] = v; }
    u8 Peek(u32 a) const {
        auto it = pages.find(a >> kPageBits);
        return it == pages.end() ? Bg(background, a) : it->second[a & (kPageSize - 1)];
    }
    u32 Read(u32 a, unsigned width) {
        u32 v = 0;
        for (unsigned i = 0; i < width; ++i)
            v |= (u32)Get(a + i) << (8 * i);
        return v;
    }
    void Write(u32 a, unsigned width, u32 v) {
        for (unsigned i = 0; i < width; ++i)
            Set(a + i, (u8)(v >> (8 * i)));
    }
    // first differing byte address, or false
    bool Differs(const SparseMem& o, u32* where) const {
        for (auto& kv : pages)
            for (u32 i = 0; i < kPageSize; ++i) {
                u32 a = (kv.first << kPageBits) + i;
                if (kv.second[i] != o.Peek(a)) {
                    *where = a;
                    return true;
                }
            }
        for (auto& kv : o.pages)
            if (!pages.count(kv.first))
                for (u32 i = 0; i < kPageSize; ++i) {
                    u32 a = (kv.first << kPageBits) + i;
                    if (kv.second[i] != Peek(a)) {
                        *where = a;
                        return true;
                    }
                }
        return false;
    }
};

struct Access {
    u32 addr;
    u32 value;
    u8 width; // bytes
    bool operator==(const Access& o) const { return addr == o.addr && value == o.value && width == o.width; }
    bool operator!=(const Access& o) const { return !(*this == o); }
};

struct Machine {
    std::vector<u8> dsp;   // the whole 0x80000-byte shared memory
    SparseMem ext;
    std::vector<Access> reads, writes; // external accesses of the current transfer, in order
    bool dsp_out_of_range = false;     // a DSP-side address left the data area (harness bug, C18's subject)

    u16 DspWord(u32 a) {
        if (a >= kDspDataWords) {
            dsp_out_of_range = true;
            return 0;
        }
        u32 b = kDspDataByteOffset + 2 * a;
        return (u16)(dsp[b] | (dsp[b + 1] << 8));
    }
    void SetDspWord(u32 a, u16 v) {
        if (a >= kDspDataWords) {
            dsp_out_of_range = true;
            return;
        }
        u32 b = kDspDataByteOffset + 2 * a;
        dsp[b] = (u8)v;
        dsp[b + 1] = (u8)(v >> 8);
    }

    void Run(const Config& c) {
        reads.clear();
        writes.clear();
        Walk(c, [&](u32 s, u32 d) {
            if (c.dword) {
                u32 v;
                if (c.src_space == 0) {
                    u32 l = s & ~1u;
                    v = DspWord(l) | ((u32)DspWord(l + 1) << 16);
                } else {
                    u32 a = s & ~3u;
                    v = ext.Read(a, 4);
                    reads.push_back({a, v, 4});
                }
                if (c.dst_space == 0) {
                    u32 l = d & ~1u;
                    SetDspWord(l, (u16)v);
                    SetDspWord(l + 1, (u16)(v >> 16));
                } else {
                    u32 a = d & ~3u;
                    ext.Write(a, 4, v);
                    writes.push_back({a, v, 4});
                }
            } else {
                u16 v;
                if (c.src_space == 0)
                    v = DspWord(s);
                else {
                    v = (u16)ext.Read(s, 2);
                    reads.push_back({s, v, 2});
                }
                if (c.dst_space == 0)
                    SetDspWord(d, v);
                else {
                    ext.Write(d, 2, v);
                    writes.push_back({d, v, 2});
                }
            }
        });
    }
};

// Is the external side of this transfer inside what the property states (and the model describes)?
//   element_bytes: 2 (word mode) or 4 (double-word mode); unit_bytes: configured AHBM unit (1,2,4)
//   burst_len: 1, 4 or 8
struct ExtClass {
    bool aligned = true;    // every external element address is a multiple of the element width
    bool contiguous = true; // every external element address == previous + element width (per side)
};
inline ExtClass ClassifyExt(const Config& c) {
    ExtClass r;
    const u32 e = c.dword ? 4 : 2;
    bool first = true;
    u32 ps = 0, pd = 0;
    Walk(c, [&](u32 s, u32 d) {
        if (c.src_space == 7) {
            if (s % e)
                r.aligned = false;
            if (!first && s != ps + e)
                r.contiguous = false;
        }
        if (c.dst_space == 7) {
            if (d % e)
                r.aligned = false;
            if (!first && d != pd + e)
                r.contiguous = false;
        }
        ps = s;
        pd = d;
        first = false;
    });
    return r;
}

} // namespace dma_model
} // namespace vf
