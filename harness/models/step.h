// C10 model: what the property statement says an address-register post-modification does.
//
// Written from the statement of C10 ("Address registers step linearly, modulo or bit-reversed exactly as
// configured") and the register descriptions (register.md / field comments of RegisterState). It is
// deliberately *partial*: where the statement is silent or ambiguous the prediction is `Unasserted`
// (or a set of acceptable values) rather than a transcription of the implementation.
//
//   * modulo disabled (m[n]==0, or the access is a "dmod" form): r' = r + step (mod 2^16), step from
//     {0, +1, -1, +2, -2, configured step}; r3/r7 become 0 instead when epi/epj is set (end-pointer mode; not
//     for the +-2 forms).
//   * the access uses the pre-modified value; with bit reversal on and modulo off the address is bitrev16(r).
//   * modulo enabled, step +1/-1: L = mod (modi for r0-r3, modj for r4-r7), k = bit length of L; inside the
//     aligned block (r & ~(2^k-1)) the offset walks 0..L cyclically and the upper bits never change; a start
//     outside [base, base+L] only keeps its upper bits. Same in Teak and TeakLite mode (cmd).
//   * a zero step never changes the register.
//
// Also here: the table of addressing *forms* (handler name + operand widths -> which operand selects which
// register/step), shared by the C10 and C20 harnesses. Opcodes are never built from it: they are found by
// running the tree's own decode table over all 65536 opcodes (vf::Encodings) and matching name + signature.
#pragma once
#include <cstring>
#include <map>
#include <string>
#include <vector>
#include "rec.h"
#include "worker.h"

namespace vf {
namespace step {

enum StepCode : unsigned { Zero = 0, Inc = 1, Dec = 2, PlusS = 3, Inc2 = 4, Dec2 = 5, Inc2b = 6, Dec2b = 7 };
inline const char* StepCodeName(unsigned s) {
    static const char* n[8] = {"+0", "+1", "-1", "+s", "+2", "-2", "+2*", "-2*"};
    return n[s & 7];
}

struct Cfg {
    u16 stepi = 0, stepj = 0; // 7 bit
    u16 modi = 0, modj = 0;   // 9 bit
    u16 stepi0 = 0, stepj0 = 0;
    bool m[8] = {}, br[8] = {};
    bool stp16 = false, cmd = true, epi = false, epj = false;
};

inline u16 bitrev16(u16 v) {
    u16 r = 0;
    for (int i = 0; i < 16; ++i)
        if (v & (1u << i))
            r |= (u16)(1u << (15 - i));
    return r;
}
inline unsigned bit_length(unsigned v) {
    unsigned k = 0;
    while (v) {
        ++k;
        v >>= 1;
    }
    return k;
}

struct Pred {
    enum Kind { Exact, OneOf, KeepUpper, Unasserted } kind = Unasserted;
    u16 value = 0;          // Exact
    u16 alt[3] = {0, 0, 0}; // OneOf
    int nalt = 0;
    u16 upper_mask = 0;     // KeepUpper: these bits must be unchanged
    const char* clause = ""; // which sentence of the statement decides: lin, ep, zero, mod-in, mod-out, none
    const char* edge = "";   // sub-class for coverage keys
    bool holds(u16 before, u16 after) const {
        switch (kind) {
        case Exact:
            return after == value;
        case OneOf:
            for (int i = 0; i < nalt; ++i)
                if (after == alt[i])
                    return true;
            return false;
        case KeepUpper:
            return (before & upper_mask) == (after & upper_mask);
        default:
            return true;
        }
    }
    std::string str() const {
        switch (kind) {
        case Exact:
            return fmt("== %04x", value);
        case OneOf: {
            std::string s = "in {";
            for (int i = 0; i < nalt; ++i)
                s += fmt("%s%04x", i ? "," : "", alt[i]);
            return s + "}";
        }
        case KeepUpper:
            return fmt("keeps bits %04x", upper_mask);
        default:
            return "unasserted";
        }
    }
};

inline bool modulo_effective(const Cfg& c, unsigned unit, bool dmod) { return c.m[unit] && !dmod; }

// Post-modification of r[unit] (value r) by step code `sc`; dmod = the form disables modulo for this access.
inline Pred Predict(const Cfg& c, unsigned unit, u16 r, unsigned sc, bool dmod) {
    Pred p;
    const bool ibank = unit < 4;
    const bool endptr = (unit == 3 && c.epi) || (unit == 7 && c.epj);
    const bool two = sc >= Inc2;
    const bool modon = modulo_effective(c, unit, dmod);

    if (endptr && !two) {
        // "(or is zeroed, for r3/r7 in their end-pointer mode)": stated under the modulo-disabled clause; the
        // zero-step sentence ("never changes the register") pulls the other way, so +0 is left open.
        if (sc == Zero || modon) {
            p.kind = Pred::Unasserted;
            p.clause = "ep-open";
            return p;
        }
        p.kind = Pred::Exact;
        p.value = 0;
        p.clause = "ep";
        p.edge = StepCodeName(sc);
        return p;
    }
    if (sc == Zero) {
        p.kind = Pred::Exact;
        p.value = r;
        p.clause = "zero";
        p.edge = modon ? "mod" : "lin";
        return p;
    }
    if (modon && c.br[unit]) {
        // modulo and bit reversal both requested: the statement describes neither combination
        p.clause = "m+br-open";
        return p;
    }
    if (modon) {
        if (sc != Inc && sc != Dec) {
            if (sc == PlusS) {
                // configured step under modulo is outside the statement, except that a zero step does nothing
                u16 s7 = (u16)sext(ibank ? c.stepi : c.stepj, 7);
                u16 s16 = ibank ? c.stepi0 : c.stepj0;
                bool all_zero = c.stp16 ? (s7 == 0 && s16 == 0) : (s7 == 0);
                if (all_zero) {
                    p.kind = Pred::Exact;
                    p.value = r;
                    p.clause = "zero";
                    p.edge = "mod+s";
                    return p;
                }
            }
            p.clause = "mod-other-step-open";
            return p;
        }
        unsigned L = ibank ? c.modi : c.modj;
        unsigned k = bit_length(L);
        u16 mask = (u16)((1u << k) - 1);
        u16 base = r & (u16)~mask, off = r & mask;
        if (off <= L) {
            u16 noff;
            if (sc == Inc) {
                noff = off == L ? 0 : (u16)(off + 1);
                p.edge = off == L ? "wrap-up" : "up";
            } else {
                noff = off == 0 ? (u16)L : (u16)(off - 1);
                p.edge = off == 0 ? "wrap-down" : "down";
            }
            p.kind = Pred::Exact;
            p.value = base | noff;
            p.clause = "mod-in";
        } else {
            p.kind = Pred::KeepUpper;
            p.upper_mask = (u16)~mask;
            p.clause = "mod-out";
            p.edge = sc == Inc ? "up" : "down";
        }
        return p;
    }
    // ---- modulo disabled: linear
    u16 s;
    switch (sc) {
    case Inc:
        s = 1;
        break;
    case Dec:
        s = 0xFFFF;
        break;
    case Inc2:
    case Inc2b:
        s = 2;
        break;
    case Dec2:
    case Dec2b:
        s = 0xFFFE;
        break;
    default: { // PlusS: which configured step?
        u16 s7 = (u16)sext(ibank ? c.stepi : c.stepj, 7);
        u16 s16 = ibank ? c.stepi0 : c.stepj0;
        bool brv = c.br[unit] && !c.m[unit];
        if (!c.stp16 && !brv) {
            s = s7; // the 7-bit step of cfgi/cfgj, two's complement
        } else if (c.stp16 && !c.cmd && !c.m[unit]) {
            s = s16; // "stp16: use stepi0/j0 for stepping" (Teak mode)
        } else if (c.stp16 && !c.cmd) {
            // 16-bit step selected while the register is in modulo mode but this access has modulo disabled:
            // how wide the step is taken is not described
            p.clause = "step-width-open";
            return p;
        } else {
            // 16-bit step requested in TeakLite-compatible mode, or bit-reversed stepping without stp16: the
            // documents do not say which of the two configured steps is taken; it must be one of them
            p.kind = Pred::OneOf;
            p.alt[0] = (u16)(r + s7);
            p.alt[1] = (u16)(r + s16);
            p.nalt = 2;
            p.clause = "lin";
            p.edge = "+s?";
            return p;
        }
        p.kind = Pred::Exact;
        p.value = (u16)(r + s);
        p.clause = s == 0 ? "zero" : "lin";
        p.edge = (s == s7 && !(c.stp16 && !c.cmd)) ? "+s7" : "+s16";
        return p;
    }
    }
    p.kind = Pred::Exact;
    p.value = (u16)(r + s);
    p.clause = "lin";
    p.edge = StepCodeName(sc);
    return p;
}

// Effective data address of an access through r[unit] holding (pre-modified) value r.
// asserted=false where neither the bit-reversal clause nor the pre-modified-value clause clearly applies.
inline u16 Address(const Cfg& c, unsigned unit, u16 r, bool dmod, bool& asserted) {
    asserted = true;
    if (c.br[unit] && !c.m[unit])
        return bitrev16(r);
    if (c.br[unit] && c.m[unit] && dmod)
        asserted = false; // bit reversal on, modulo on but disabled for this access: not described
    return r;
}

// ------------------------------------------------------------------------------------------------------
// Addressing forms. A form is a row shape of the tree's decode table: handler name + operand TYPES, as
// recorded by vf::Rec (the type tag of each operand identifies Rn, StepZIDS, ArRn2, ...). Which operand
// selects which register and step follows from the operand types alone; the table below only adds what the
// types cannot say: whether memory is accessed through the register, and the fixed step / modulo-disable of
// the modr variants. Opcodes are never built by hand: they are found by running the decode table over all
// 65536 opcodes (vf::Encodings). A row with addressing operands that is not listed here stops the harness.
//
// roles (derived): one character per recorded operand (handler-parameter order)
//   .  not an addressing operand          G  `Register` operand that is the destination of a load
//   R  Rn (r0..r7)   P  R0123   Q  R45     g  `Register` operand that is the source of a store
//   S  StepZIDS of the register operand before it        Z  StepZIDS applied to r0 (no register operand)
//   I  Rn stepped by +2 (implicit)        D  Rn stepped by -2 (implicit)
//   a  ArRn1/ArRn2 (register = arrn[index])               s  ArStep1/ArStep2 (step = arstep[index])
//   t  ArStep1Alt (step = arstep[index+2])
//   p  ArpRn1/ArpRn2 (i register = arprni[index], j register = 4+arprnj[index])
//   i  ArpStep for the i register (arpstepi[index])       j  ArpStep for the j register (arpstepj[index])
//   x  bool: modulo disabled for the i access             y  bool: modulo disabled for the j access
// mem: one character per addressed register in order of appearance (p counts as two: i then j)
//   m  data memory is accessed at the register's address   n  no access   c  program memory (movp/movd)
enum FormFlags : unsigned {
    DMOD_ALL = 1,    // modulo disabled for every register of the form (modr_dmod, ...)
    DMOD_I = 2,      // ... for the i register only
    DMOD_J = 4,      // ... for the j register only
    PLUS2 = 8,       // the lone Rn operand is stepped by +2
    MINUS2 = 16,     // ... by -2
    LOAD_REG = 32,   // the Register operand receives the loaded word
    STORE_REG = 64,  // the Register operand is the word stored
    DMOD_BOOLS = 128, // the first two bool operands are "modulo disabled" for i and j
    NO_STEP = 256,   // uses the register(s) but never post-modifies (bitrev, bkrepsto/rst, bankr)
};
struct FormSpec {
    const char* key;  // name(Type,Type,...)
    const char* mem;
    unsigned flags;
    const char* tag;  // short unique label for keys
};

#define VF_MMA_TAIL "RegName,bool,bool,bool,bool,SumBase,bool,bool,bool,bool)"
inline const std::vector<FormSpec>& Forms() {
    static const std::vector<FormSpec> f = {
        // ---- Rn + StepZIDS
        {"norm(Ax,Rn,StepZIDS)", "n", 0, "norm"},
        {"alm(Alm,Rn,StepZIDS,Ax)", "m", 0, "alm"},
        {"alb(Alb,Imm16,Rn,StepZIDS)", "m", 0, "alb"},
        {"mul(Mul3,Rn,StepZIDS,Imm16,Ax)", "m", 0, "mul_imm"},
        {"mul_y0(Mul3,Rn,StepZIDS,Ax)", "m", 0, "mul_y0"},
        {"mul(Mul3,R45,StepZIDS,R0123,StepZIDS,Ax)", "mm", 0, "mul_xy"},
        {"msu(R45,StepZIDS,R0123,StepZIDS,Ax)", "mm", 0, "msu_xy"},
        {"msu(Rn,StepZIDS,Imm16,Ax)", "m", 0, "msu_imm"},
        {"tstb(Rn,StepZIDS,Imm4)", "m", 0, "tstb"},
        {"exp(Rn,StepZIDS)", "m", 0, "exp"},
        {"exp(Rn,StepZIDS,Ax)", "m", 0, "exp_ax"},
        {"modr(Rn,StepZIDS)", "n", 0, "modr"},
        {"modr_dmod(Rn,StepZIDS)", "n", DMOD_ALL, "modr_dmod"},
        {"modr_i2(Rn)", "n", PLUS2, "modr_i2"},
        {"modr_i2_dmod(Rn)", "n", PLUS2 | DMOD_ALL, "modr_i2_dmod"},
        {"modr_d2(Rn)", "n", MINUS2, "modr_d2"},
        {"modr_d2_dmod(Rn)", "n", MINUS2 | DMOD_ALL, "modr_d2_dmod"},
        {"mov(Rn,StepZIDS,Bx)", "m", 0, "mov_rn_bx"},
        {"mov(Rn,StepZIDS,Register)", "m", LOAD_REG, "mov_rn_reg"},
        {"mov(Register,Rn,StepZIDS)", "m", STORE_REG, "mov_reg_rn"},
        {"movd(R0123,StepZIDS,R45,StepZIDS)", "mc", 0, "movd"},
        {"movp(Rn,StepZIDS,R0123,StepZIDS)", "cm", 0, "movp"},
        {"mov_r6_to(Rn,StepZIDS)", "m", 0, "mov_r6_to_rn"},
        {"mov_r6(Rn,StepZIDS)", "m", 0, "mov_rn_r6"},
        {"movs(Rn,StepZIDS,Ab)", "m", 0, "movs"},
        {"movr(Rn,StepZIDS,Ax)", "m", 0, "movr_rn"},
        {"max_ge(Ax,StepZIDS)", "n", 0, "max_ge"},
        {"max_gt(Ax,StepZIDS)", "n", 0, "max_gt"},
        {"min_le(Ax,StepZIDS)", "n", 0, "min_le"},
        {"min_lt(Ax,StepZIDS)", "n", 0, "min_lt"},
        {"max_ge_r0(Ax,StepZIDS)", "m", 0, "max_ge_r0"},
        {"max_gt_r0(Ax,StepZIDS)", "m", 0, "max_gt_r0"},
        {"min_le_r0(Ax,StepZIDS)", "m", 0, "min_le_r0"},
        {"min_lt_r0(Ax,StepZIDS)", "m", 0, "min_lt_r0"},
        {"bitrev(Rn)", "n", NO_STEP, "bitrev"},
        {"bitrev_dbrv(Rn)", "n", NO_STEP, "bitrev_dbrv"},
        {"bitrev_ebrv(Rn)", "n", NO_STEP, "bitrev_ebrv"},
        // ---- ArRn + ArStep
        {"add_sub_sv(ArRn1,ArStep1,Ab)", "m", 0, "add_sub_sv"},
        {"sub_add_sv(ArRn1,ArStep1,Ab)", "m", 0, "sub_add_sv"},
        {"msusu(ArRn2,ArStep2,Ax)", "m", 0, "msusu"},
        {"tst4b(ArRn2,ArStep2)", "m", 0, "tst4b"},
        {"tst4b(ArRn2,ArStep2,Ax)", "m", 0, "tst4b_ax"},
        {"mov_repc_to(ArRn1,ArStep1)", "m", 0, "mov_repc_to_ar"},
        {"mov_repc(ArRn1,ArStep1)", "m", 0, "mov_ar_repc"},
        {"mov(ArArp,ArRn1,ArStep1)", "m", 0, "mov_ararp_ar"},
        {"mov(SttMod,ArRn1,ArStep1)", "m", 0, "mov_sttmod_ar"},
        {"mov(ArRn1,ArStep1,ArArp)", "m", 0, "mov_ar_ararp"},
        {"mov(ArRn1,ArStep1,SttMod)", "m", 0, "mov_ar_sttmod"},
        {"mov2(Px,ArRn2,ArStep2)", "m", 0, "mov2_px_ar"},
        {"mov2s(Px,ArRn2,ArStep2)", "m", 0, "mov2s"},
        {"mov2(ArRn2,ArStep2,Px)", "m", 0, "mov2_ar_px"},
        {"mova(Ab,ArRn2,ArStep2)", "m", 0, "mova_ab_ar"},
        {"mova(ArRn2,ArStep2,Ab)", "m", 0, "mova_ar_ab"},
        {"mov2_axh_m_y0_m(Axh,ArRn2,ArStep2)", "m", 0, "mov2_axh_m_y0_m"},
        {"mov2_abh_m(Abh,Abh,ArRn1,ArStep1)", "m", 0, "mov2_abh_m"},
        {"movr(ArRn2,ArStep2,Abh)", "m", 0, "movr_ar"},
        {"sqr_sqr_add3(ArRn2,ArStep2,Ab)", "m", 0, "sqr_sqr_add3"},
        {"max2_vtr_movl(Ax,Bx,ArRn1,ArStep1)", "m", 0, "max2_vtr_movl_ab"},
        {"max2_vtr_movl(Bx,Ax,ArRn1,ArStep1)", "m", 0, "max2_vtr_movl_ba"},
        {"max2_vtr_movh(Ax,Bx,ArRn1,ArStep1)", "m", 0, "max2_vtr_movh_ab"},
        {"max2_vtr_movh(Bx,Ax,ArRn1,ArStep1)", "m", 0, "max2_vtr_movh_ba"},
        {"min2_vtr_movl(Ax,Bx,ArRn1,ArStep1)", "m", 0, "min2_vtr_movl_ab"},
        {"min2_vtr_movl(Bx,Ax,ArRn1,ArStep1)", "m", 0, "min2_vtr_movl_ba"},
        {"min2_vtr_movh(Ax,Bx,ArRn1,ArStep1)", "m", 0, "min2_vtr_movh_ab"},
        {"min2_vtr_movh(Bx,Ax,ArRn1,ArStep1)", "m", 0, "min2_vtr_movh_ba"},
        {"mov_sv_app(ArRn1,ArStep1,Bx,SumBase,bool,bool,bool,bool)", "m", 0, "mov_sv_app"},
        {"mov_sv_app(ArRn1,ArStep1Alt,Bx,SumBase,bool,bool,bool,bool)", "m", 0, "mov_sv_app_alt"},
        {"mma_mx_xy(ArRn1,ArStep1," VF_MMA_TAIL, "m", 0, "mma_mx_xy"},
        {"mma_xy_mx(ArRn1,ArStep1," VF_MMA_TAIL, "m", 0, "mma_xy_mx"},
        {"mma_my_my(ArRn1,ArStep1," VF_MMA_TAIL, "m", 0, "mma_my_my"},
        {"mma_mov(Axh,Bxh,ArRn1,ArStep1," VF_MMA_TAIL, "m", 0, "mma_mov_uv"},
        {"mma_mov(ArRn2,ArStep1," VF_MMA_TAIL, "m", 0, "mma_mov_ar2"},
        {"addhp(ArRn2,ArStep2,Px,Ax)", "m", 0, "addhp"},
        {"bkreprst(ArRn2)", "m", NO_STEP, "bkreprst"},
        {"bkrepsto(ArRn2)", "m", NO_STEP, "bkrepsto"},
        // ---- ArpRn + ArpStep i/j
        {"add_add(ArpRn1,ArpStep1,ArpStep1,Ab)", "mm", 0, "add_add"},
        {"add_sub(ArpRn1,ArpStep1,ArpStep1,Ab)", "mm", 0, "add_sub"},
        {"sub_add(ArpRn1,ArpStep1,ArpStep1,Ab)", "mm", 0, "sub_add"},
        {"sub_sub(ArpRn1,ArpStep1,ArpStep1,Ab)", "mm", 0, "sub_sub"},
        {"sub_add_i_mov_j_sv(ArpRn1,ArpStep1,ArpStep1,Ab)", "mm", 0, "sub_add_i_mov_j_sv"},
        {"sub_add_j_mov_i_sv(ArpRn1,ArpStep1,ArpStep1,Ab)", "mm", 0, "sub_add_j_mov_i_sv"},
        {"add_sub_i_mov_j(ArpRn1,ArpStep1,ArpStep1,Ab)", "mm", 0, "add_sub_i_mov_j"},
        {"add_sub_j_mov_i(ArpRn1,ArpStep1,ArpStep1,Ab)", "mm", 0, "add_sub_j_mov_i"},
        {"mac1(ArpRn1,ArpStep1,ArpStep1,Ax)", "mm", 0, "mac1"},
        {"modr_eemod(ArpRn2,ArpStep2,ArpStep2)", "nn", 0, "modr_eemod"},
        {"modr_edmod(ArpRn2,ArpStep2,ArpStep2)", "nn", DMOD_J, "modr_edmod"},
        {"modr_demod(ArpRn2,ArpStep2,ArpStep2)", "nn", DMOD_I, "modr_demod"},
        {"modr_ddmod(ArpRn2,ArpStep2,ArpStep2)", "nn", DMOD_I | DMOD_J, "modr_ddmod"},
        {"mov2_ax_mij(Ab,ArpRn1,ArpStep1,ArpStep1)", "mm", 0, "mov2_ax_mij"},
        {"mov2_ax_mji(Ab,ArpRn1,ArpStep1,ArpStep1)", "mm", 0, "mov2_ax_mji"},
        {"mov2_mij_ax(ArpRn1,ArpStep1,ArpStep1,Ab)", "mm", 0, "mov2_mij_ax"},
        {"mov2_mji_ax(ArpRn1,ArpStep1,ArpStep1,Ab)", "mm", 0, "mov2_mji_ax"},
        {"exchange_iaj(Axh,ArpRn2,ArpStep2,ArpStep2)", "mm", 0, "exchange_iaj"},
        {"exchange_riaj(Axh,ArpRn2,ArpStep2,ArpStep2)", "mm", 0, "exchange_riaj"},
        {"exchange_jai(Axh,ArpRn2,ArpStep2,ArpStep2)", "mm", 0, "exchange_jai"},
        {"exchange_rjai(Axh,ArpRn2,ArpStep2,ArpStep2)", "mm", 0, "exchange_rjai"},
        {"max2_vtr_movij(Ax,Bx,ArpRn1,ArpStep1,ArpStep1)", "mm", 0, "max2_vtr_movij"},
        {"max2_vtr_movji(Ax,Bx,ArpRn1,ArpStep1,ArpStep1)", "mm", 0, "max2_vtr_movji"},
        {"min2_vtr_movij(Ax,Bx,ArpRn1,ArpStep1,ArpStep1)", "mm", 0, "min2_vtr_movij"},
        {"min2_vtr_movji(Ax,Bx,ArpRn1,ArpStep1,ArpStep1)", "mm", 0, "min2_vtr_movji"},
        {"cbs(ArpRn1,ArpStep1,ArpStep1,CbsCond)", "mm", 0, "cbs_arp"},
        {"mma(ArpRn1,ArpStep1,ArpStep1,bool,bool," VF_MMA_TAIL, "mm", DMOD_BOOLS, "mma_arp1"},
        {"mma(ArpRn2,ArpStep2,ArpStep2,bool,bool," VF_MMA_TAIL, "mm", DMOD_BOOLS, "mma_arp2"},
        // ---- ar/arp bank exchange: names the words, not registers; nothing to step
        {"bankr(Ar)", "", NO_STEP, "bankr_ar"},
        {"bankr(Ar,Arp)", "", NO_STEP, "bankr_ar_arp"},
        {"bankr(Arp)", "", NO_STEP, "bankr_arp"},
    };
    return f;
}
#undef VF_MMA_TAIL

// operand type names by recording tag (the tag is whatever vf::Rec attaches to an operand of that type)
template <typename T>
inline u32 TagOf() {
    Rec r;
    r.one(T{});
    return r.form.ops.back().first;
}
inline const std::map<u32, std::string>& TypeNames() {
    static const std::map<u32, std::string> m = [] {
        std::map<u32, std::string> t;
#define VF_T(x) t[TagOf<x>()] = #x;
        VF_T(Rn) VF_T(StepZIDS) VF_T(R45) VF_T(R0123) VF_T(ArRn1) VF_T(ArRn2) VF_T(ArStep1) VF_T(ArStep1Alt)
        VF_T(ArStep2) VF_T(ArpRn1) VF_T(ArpRn2) VF_T(ArpStep1) VF_T(ArpStep2) VF_T(Ar) VF_T(Arp)
        VF_T(Register) VF_T(Ax) VF_T(Bx) VF_T(Ab) VF_T(Abl) VF_T(Abh) VF_T(Axh) VF_T(Bxh) VF_T(Px) VF_T(Alm) VF_T(Alb)
        VF_T(Mul3) VF_T(Imm16) VF_T(Imm4) VF_T(Imm5) VF_T(SttMod) VF_T(ArArp) VF_T(ArArpSttMod) VF_T(CbsCond)
        VF_T(bool) VF_T(SumBase) VF_T(RegName) VF_T(MemR7Imm16) VF_T(Abe) VF_T(Imm8s)
#undef VF_T
        return t;
    }();
    return m;
}
inline bool IsAddressingType(const std::string& n) {
    return n == "Rn" || n == "StepZIDS" || n == "R45" || n == "R0123" || n == "ArRn1" || n == "ArRn2" ||
           n == "ArStep1" || n == "ArStep1Alt" || n == "ArStep2" || n == "ArpRn1" || n == "ArpRn2" ||
           n == "ArpStep1" || n == "ArpStep2" || n == "Ar" || n == "Arp";
}
// name(Type,...) of a recorded form; types the harness does not know print as '?'
inline std::string FormKey(const Form& f, bool* addressing = nullptr) {
    auto& tn = TypeNames();
    std::string k = f.name;
    k += "(";
    bool a = false;
    for (size_t i = 0; i < f.ops.size(); ++i) {
        auto it = tn.find(f.ops[i].first);
        std::string n = it == tn.end() ? "?" : it->second;
        if (i)
            k += ",";
        k += n;
        a |= IsAddressingType(n);
    }
    if (addressing)
        *addressing = a;
    return k + ")";
}
// roles from the operand types (+ the few flags of the table)
inline std::string Roles(const FormSpec& sp, const Form& f) {
    auto& tn = TypeNames();
    std::string r;
    bool reg_open = false;
    int arpstep = 0, bools = 0;
    for (auto& op : f.ops) {
        auto it = tn.find(op.first);
        std::string n = it == tn.end() ? "?" : it->second;
        char c = '.';
        if (sp.flags & NO_STEP)
            c = '.';
        else if (n == "Rn") {
            c = (sp.flags & PLUS2) ? 'I' : (sp.flags & MINUS2) ? 'D' : 'R';
            reg_open = c == 'R';
        } else if (n == "R45") {
            c = 'Q';
            reg_open = true;
        } else if (n == "R0123") {
            c = 'P';
            reg_open = true;
        } else if (n == "StepZIDS") {
            c = reg_open ? 'S' : 'Z';
            reg_open = false;
        } else if (n == "ArRn1" || n == "ArRn2")
            c = 'a';
        else if (n == "ArStep1" || n == "ArStep2")
            c = 's';
        else if (n == "ArStep1Alt")
            c = 't';
        else if (n == "ArpRn1" || n == "ArpRn2")
            c = 'p';
        else if (n == "ArpStep1" || n == "ArpStep2")
            c = arpstep++ == 0 ? 'i' : 'j';
        else if (n == "Register")
            c = (sp.flags & LOAD_REG) ? 'G' : (sp.flags & STORE_REG) ? 'g' : '.';
        else if (n == "bool" && (sp.flags & DMOD_BOOLS)) {
            c = bools == 0 ? 'x' : bools == 1 ? 'y' : '.';
            ++bools;
        }
        r += c;
    }
    return r;
}

struct RegUse {
    unsigned unit;  // r0..r7
    unsigned step;  // StepCode
    bool dmod;      // modulo disabled by the form for this register
    char mem;       // m / n / c
    char via;       // R (direct), a (ar), i / j (arp)
    unsigned sel_index = 0;  // operand index that selected the register (ar/arp forms)
    unsigned step_index = 0; // operand index that selected the step
};

struct ArState { // decoded indirect addressing configuration, as the RegisterState fields
    unsigned arrn[4], arstep[4], arprni[4], arprnj[4], arpstepi[4], arpstepj[4];
};

// Which registers a form steps, for the recorded operand values `f` and the indirect configuration `a`.
inline std::vector<RegUse> Uses(const FormSpec& spec, const std::string& roles, const Form& f, const ArState& a) {
    std::vector<RegUse> u;
    struct {
        bool dmod_all;
        const char* mem;
    } sp{(spec.flags & DMOD_ALL) != 0, spec.mem};
    size_t nops = f.ops.size();
    int last = -1, li = -1, lj = -1;
    bool dx = (spec.flags & DMOD_I) != 0, dy = (spec.flags & DMOD_J) != 0;
    for (size_t k = 0; k < roles.size() && k < nops; ++k) {
        char c = roles[k];
        unsigned v = (unsigned)f.ops[k].second;
        switch (c) {
        case 'R':
            u.push_back({v & 7, Zero, sp.dmod_all, 'n', 'R'});
            last = (int)u.size() - 1;
            break;
        case 'P':
            u.push_back({v & 3, Zero, sp.dmod_all, 'n', 'R'});
            last = (int)u.size() - 1;
            break;
        case 'Q':
            u.push_back({4 + (v & 1), Zero, sp.dmod_all, 'n', 'R'});
            last = (int)u.size() - 1;
            break;
        case 'I':
            u.push_back({v & 7, Inc2, sp.dmod_all, 'n', 'R'});
            break;
        case 'D':
            u.push_back({v & 7, Dec2, sp.dmod_all, 'n', 'R'});
            break;
        case 'S':
            if (last >= 0)
                u[last].step = v & 3;
            break;
        case 'Z':
            u.push_back({0, v & 3, sp.dmod_all, 'n', 'R'});
            break;
        case 'a': {
            RegUse r{a.arrn[v & 3], Zero, sp.dmod_all, 'n', 'a'};
            r.sel_index = v & 3;
            u.push_back(r);
            last = (int)u.size() - 1;
            break;
        }
        case 's':
            if (last >= 0) {
                u[last].step = a.arstep[v & 3];
                u[last].step_index = v & 3;
            }
            break;
        case 't':
            if (last >= 0) {
                u[last].step = a.arstep[(v & 1) + 2];
                u[last].step_index = (v & 1) + 2;
            }
            break;
        case 'p': {
            RegUse ri{a.arprni[v & 3], Zero, sp.dmod_all, 'n', 'i'};
            RegUse rj{4 + a.arprnj[v & 3], Zero, sp.dmod_all, 'n', 'j'};
            ri.sel_index = rj.sel_index = v & 3;
            u.push_back(ri);
            li = (int)u.size() - 1;
            u.push_back(rj);
            lj = (int)u.size() - 1;
            break;
        }
        case 'i':
            if (li >= 0) {
                u[li].step = a.arpstepi[v & 3];
                u[li].step_index = v & 3;
            }
            break;
        case 'j':
            if (lj >= 0) {
                u[lj].step = a.arpstepj[v & 3];
                u[lj].step_index = v & 3;
            }
            break;
        case 'x':
            if (li >= 0)
                u[li].dmod = u[li].dmod || v;
            break;
        case 'y':
            if (lj >= 0)
                u[lj].dmod = u[lj].dmod || v;
            break;
        default:
            break;
        }
    }
    if (dx && li >= 0)
        u[li].dmod = true;
    if (dy && lj >= 0)
        u[lj].dmod = true;
    const std::string mem = sp.mem;
    for (size_t k = 0; k < u.size() && k < mem.size(); ++k)
        u[k].mem = mem[k];
    return u;
}

// All opcodes of the tree's decode table that belong to each form. `all` = vf::Encodings::all.
// unlisted: keys of rows that carry addressing operands but are not in the table.
template <typename EncVec>
inline std::vector<std::vector<u16>> MatchForms(const EncVec& all, std::vector<std::string>* unlisted = nullptr) {
    auto& forms = Forms();
    std::map<std::string, size_t> by_key;
    for (size_t k = 0; k < forms.size(); ++k)
        by_key[forms[k].key] = k;
    std::vector<std::vector<u16>> out(forms.size());
    std::map<std::string, int> missing;
    for (u32 op = 0; op < 0x10000; ++op) {
        const Form& f = all[op].form;
        bool addressing = false;
        std::string key = FormKey(f, &addressing);
        auto it = by_key.find(key);
        if (it != by_key.end())
            out[it->second].push_back((u16)op);
        else if (addressing)
            ++missing[key];
    }
    if (unlisted)
        for (auto& kv : missing)
            unlisted->push_back(kv.first);
    return out;
}

} // namespace step
} // namespace vf
