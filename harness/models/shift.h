// Independent model of the 40-bit barrel shifter and the exponent unit, written from the statement of
// property C04 and the C04 paragraph of DESIGN.md (nothing is derived from the interpreter's code).
//
//   shift       a 40-bit value v and a signed 16-bit amount k. k >= 0 moves left, k < 0 moves right by
//               |k|. Arithmetic mode (s == 0) treats v as a signed number: left = v * 2^k reduced to 40
//               bits, right = floor(v / 2^|k|). Logical mode (s == 1) treats the 40 bits as unsigned:
//               left = (u * 2^k) mod 2^40, right = floor(u / 2^|k|). The register image is the 40-bit
//               pattern (sign-extended from bit 39 when held in a wider word).
//   carry       the last bit shifted out: left by k -> bit 40-k of the original, right by k -> bit k-1.
//               Defined here for 1 <= |k| <= 39; for k == 0 nothing is shifted out and the carry is 0;
//               for |k| >= 40 (everything shifted out) it is left undefined (DESIGN C04 Interpretation).
//   overflow    arithmetic mode only: an arithmetic left shift overflows when v * 2^k is not a 40-bit
//               number (for k >= 40: whenever v != 0); a right shift never overflows. In logical mode
//               the overflow flag is not defined.
//   flags       fz fm fe fn describe the 40-bit result before saturation.
//   saturation  arithmetic mode with write saturation enabled: if the shift overflowed or the result is
//               not a 32-bit number, the stored value is the 32-bit bound on the side of the ORIGINAL
//               sign of v and the limit flag is set.
//   exponent    number of redundant sign bits of the 40-bit value (bits below bit 39 that repeat it,
//               counted from bit 38 downwards) minus 8 = the left shift that normalises the value to 32
//               bits (negative when the value needs the extension bits).
//   rotate      ror/rol rotate the 40-bit value by one position through the carry flag.
#pragma once
#include <cstdint>

namespace vf {
namespace shiftm {

using i128 = __int128;
using s64 = std::int64_t;
using u64 = std::uint64_t;
using u16 = std::uint16_t;

constexpr s64 kMax40 = (s64(1) << 39) - 1;
constexpr s64 kMin40 = -(s64(1) << 39);
constexpr s64 kMax32 = (s64(1) << 31) - 1;
constexpr s64 kMin32 = -(s64(1) << 31);
constexpr i128 kTwo40 = i128(1) << 40;

inline i128 pow2(unsigned k) { return i128(1) << k; } // k <= 100
inline s64 reduce40(i128 v) {
    i128 m = v % kTwo40;
    if (m < 0)
        m += kTwo40;
    if (m > kMax40)
        m -= kTwo40;
    return (s64)m;
}
inline u64 unsigned40(s64 v) {
    i128 m = i128(v) % kTwo40;
    if (m < 0)
        m += kTwo40;
    return (u64)m;
}
inline bool fits40(i128 v) { return v >= kMin40 && v <= kMax40; }
inline bool fits32(s64 v) { return v >= kMin32 && v <= kMax32; }
inline i128 floor_div(i128 v, i128 d) { // d > 0
    i128 q = v / d;
    if (v % d != 0 && v < 0)
        --q;
    return q;
}

struct ShiftOut {
    s64 r = 0;      // 40-bit result (as a signed number: the register image sign-extended)
    s64 stored = 0; // after saturation
    bool carry = false;
    bool carry_defined = false;
    bool overflow = false;         // meaningful when overflow_defined
    bool overflow_defined = false; // arithmetic mode
    bool saturated = false;
    unsigned fz = 0, fm = 0, fe = 0, fn = 0;
};

// v: signed 40-bit value; amount: the 16-bit shift value read as a signed number
// logical: shift mode s == 1; saturate: write saturation enabled (sata == 0)
inline ShiftOut shift40(s64 v, int amount, bool logical, bool saturate) {
    ShiftOut o;
    const u64 u = unsigned40(v);
    if (amount >= 0) {
        unsigned k = (unsigned)amount;
        if (k >= 40) {
            o.r = 0; // every bit leaves the register
            o.overflow = v != 0;
        } else {
            i128 exact = logical ? i128(u) * pow2(k) : i128(v) * pow2(k);
            o.r = reduce40(exact);
            o.overflow = !fits40(i128(v) * pow2(k));
            o.carry_defined = true;
            o.carry = k == 0 ? false : ((u / (u64)pow2(40 - k)) % 2) != 0;
        }
    } else {
        unsigned k = (unsigned)(-amount);
        if (k >= 40) {
            o.r = logical ? 0 : (v < 0 ? -1 : 0);
        } else {
            o.r = logical ? reduce40(floor_div(i128(u), pow2(k))) : (s64)floor_div(i128(v), pow2(k));
            o.carry_defined = true;
            o.carry = ((u / (u64)pow2(k - 1)) % 2) != 0;
        }
        o.overflow = false;
    }
    o.overflow_defined = !logical;
    o.fz = o.r == 0;
    o.fm = o.r < 0;
    o.fe = !fits32(o.r);
    unsigned b31 = (unsigned)((unsigned40(o.r) >> 31) & 1), b30 = (unsigned)((unsigned40(o.r) >> 30) & 1);
    o.fn = o.fz || (!o.fe && b31 != b30);
    o.stored = o.r;
    if (!logical && saturate && (o.overflow || !fits32(o.r))) {
        o.saturated = true;
        o.stored = v < 0 ? kMin32 : kMax32; // the ORIGINAL sign decides the bound
    }
    return o;
}

// redundant sign bits of the 40-bit value minus 8
inline int exponent40(s64 v) {
    // t: the value with the sign folded away; its bit length tells how many bits are significant
    u64 t = v < 0 ? (u64)(-(v + 1)) : (u64)v; // < 2^39
    unsigned len = 0;
    while (t) {
        ++len;
        t /= 2;
    }
    int redundant = 39 - (int)len;
    return redundant - 8;
}

struct RotOut {
    s64 r;
    bool carry;
};
inline RotOut rotate_right(s64 v, bool carry_in) {
    u64 u = unsigned40(v);
    RotOut o;
    o.carry = (u % 2) != 0;
    o.r = reduce40(i128(u / 2) + (carry_in ? pow2(39) : 0));
    return o;
}
inline RotOut rotate_left(s64 v, bool carry_in) {
    u64 u = unsigned40(v);
    RotOut o;
    o.carry = (u / (u64)pow2(39)) != 0;
    o.r = reduce40(i128(u) * 2 + (carry_in ? 1 : 0));
    return o;
}

} // namespace shiftm
} // namespace vf
