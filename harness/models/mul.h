// Independent model of the multiplier, the product registers and the multiply-accumulate data path,
// written from the statement of property C04 and the C04/C03 paragraphs of DESIGN.md. Nothing here
// is derived from the interpreter's code: factors, products and sums are mathematical integers
// (int64 / __int128) and every register image is obtained by reducing the exact value.
//
//   factors     x and y are 16-bit words. Each is read as signed (two's complement) or unsigned as the
//               instruction form says. Half-word mode replaces y *before* that reading by one of its
//               bytes, zero-extended to 16 bits (so a byte is always a small non-negative number):
//               hwm 1 -> high byte, hwm 2 -> low byte, hwm 3 -> high byte in unit 0, low byte in unit 1.
//   product     the exact integer x*y, kept as a 33-bit two's-complement number {pe, p}: p are the
//               low 32 bits, pe is bit 32 (for unsigned x unsigned the value is < 2^32, so pe = 0).
//   read        every read of a product takes the 33-bit number as a signed integer and scales it as
//               ps says: 0 -> v, 1 -> floor(v/2) (arithmetic >>1), 2 -> 2v, 3 -> 4v. An "aligned" read
//               (maa/maasu, the PA operands of the product sums) is floor(read / 2^16).
//   32-bit write a product written from a 32-bit bus value (pop p, mov to p0, clrp) is that value with
//               pe = its sign bit.
//   accumulate  acc +/- operand as an exact sum; the C03 rules give the flags:
//               r = sum reduced to 40 bits; fz = r==0; fm = r<0; fe = r not a 32-bit number;
//               fn = fz or (not fe and bit31 != bit30); fc0 = carry (add) / borrow (sub) out of bit 39
//               of the operands read as unsigned 40-bit numbers; fv = exact sum not a 40-bit number;
//               fvl |= fv; if write saturation is enabled (sata == 0) and r is not a 32-bit number the
//               stored value is the nearest 32-bit bound and flm = 1. Flags describe r, not the
//               saturated value.
//   product sum base +/- P0 +/- P1 in one go: only r (reduced exact sum), fz fm fe fn, the saturated
//               store and flm are defined here; how the two partial carries/overflows combine is not
//               (DESIGN C04 Interpretation).
#pragma once
#include <cstdint>

namespace vf {
namespace mulm {

using i128 = __int128;
using s64 = std::int64_t;
using u64 = std::uint64_t;
using u32 = std::uint32_t;
using u16 = std::uint16_t;

constexpr s64 kMax40 = (s64(1) << 39) - 1;
constexpr s64 kMin40 = -(s64(1) << 39);
constexpr s64 kMax32 = (s64(1) << 31) - 1;
constexpr s64 kMin32 = -(s64(1) << 31);
constexpr i128 kTwo40 = i128(1) << 40;

// mathematical floor division by a positive power of two
inline s64 floor_div(s64 v, s64 d) {
    s64 q = v / d;
    if ((v % d) != 0 && v < 0)
        --q;
    return q;
}
// representative in [-2^39, 2^39) of v modulo 2^40
inline s64 reduce40(i128 v) {
    i128 m = v % kTwo40;
    if (m < 0)
        m += kTwo40;
    if (m > kMax40)
        m -= kTwo40;
    return (s64)m;
}
// v modulo 2^40 as a non-negative number
inline u64 unsigned40(s64 v) {
    i128 m = i128(v) % kTwo40;
    if (m < 0)
        m += kTwo40;
    return (u64)m;
}
inline bool fits40(i128 v) { return v >= kMin40 && v <= kMax40; }
inline bool fits32(s64 v) { return v >= kMin32 && v <= kMax32; }
inline s64 signed16(u16 w) { return w >= 0x8000 ? (s64)w - 0x10000 : (s64)w; }
inline s64 signed32(u32 w) { return w >= 0x80000000u ? (s64)w - (s64(1) << 32) : (s64)w; }

// ------------------------------------------------------------------ multiplier
inline u16 halfword_y(u16 y, unsigned hwm, unsigned unit) {
    switch (hwm & 3) {
    case 1:
        return (u16)(y / 256);
    case 2:
        return (u16)(y % 256);
    case 3:
        return unit == 0 ? (u16)(y / 256) : (u16)(y % 256);
    default:
        return y;
    }
}

struct Product {
    u32 p = 0;
    u16 pe = 0;
};

// exact integer -> 33-bit two's complement {pe, p}
inline Product to33(s64 exact) {
    const s64 two33 = s64(1) << 33;
    s64 m = exact % two33;
    if (m < 0)
        m += two33;
    Product r;
    r.p = (u32)(m % (s64(1) << 32));
    r.pe = (u16)(m / (s64(1) << 32));
    return r;
}

inline s64 exact_product(u16 x, u16 y, bool x_signed, bool y_signed, unsigned hwm, unsigned unit) {
    u16 ysel = halfword_y(y, hwm, unit);
    s64 xv = x_signed ? signed16(x) : (s64)x;
    s64 yv = y_signed ? signed16(ysel) : (s64)ysel;
    return xv * yv;
}

inline Product multiply(u16 x, u16 y, bool x_signed, bool y_signed, unsigned hwm, unsigned unit) {
    return to33(exact_product(x, y, x_signed, y_signed, hwm, unit));
}

// the signed integer the 33-bit register pair stands for
inline s64 value33(u32 p, unsigned pe) { return (s64)p - ((pe & 1) ? (s64(1) << 32) : 0); }

// product as seen by every reader (through the product shifter)
inline s64 read_product(u32 p, unsigned pe, unsigned ps) {
    s64 v = value33(p, pe);
    switch (ps & 3) {
    case 0:
        return v;
    case 1:
        return floor_div(v, 2);
    case 2:
        return v * 2;
    default:
        return v * 4;
    }
}
inline s64 read_product_aligned(u32 p, unsigned pe, unsigned ps) {
    return floor_div(read_product(p, pe, ps), 65536);
}
// a 32-bit bus value written into a product register
inline Product from_bus32(u32 v) {
    Product r;
    r.p = v;
    r.pe = v >= 0x80000000u ? 1 : 0;
    return r;
}

// ------------------------------------------------------------------ accumulate (C03 semantics)
struct Flags {
    unsigned fz = 0, fm = 0, fe = 0, fn = 0, fc0 = 0, fv = 0, fvl = 0, flm = 0;
};

inline void describe(s64 r, Flags& f) {
    f.fz = r == 0;
    f.fm = r < 0;
    f.fe = !fits32(r);
    unsigned b31 = (unsigned)((unsigned40(r) >> 31) & 1), b30 = (unsigned)((unsigned40(r) >> 30) & 1);
    f.fn = f.fz || (!f.fe && b31 != b30);
}

struct AccOut {
    s64 r = 0;      // 40-bit result the flags describe
    s64 stored = 0; // value written (after saturation)
    bool carry = false, overflow = false;
    int saturated = 0;
    Flags f;
};

inline void store_saturating(AccOut& o, bool sata) {
    o.stored = o.r;
    if (!sata && !fits32(o.r)) {
        o.saturated = o.r < 0 ? -1 : 1;
        o.stored = o.r < 0 ? kMin32 : kMax32;
        o.f.flm = 1;
    }
}

// a +/- b with full flag semantics; `store` false = compare (flags only, no saturation)
inline AccOut accumulate(s64 a, s64 b, bool subtract, const Flags& pre, bool sata, bool store = true) {
    AccOut o;
    o.f = pre;
    i128 exact = subtract ? i128(a) - i128(b) : i128(a) + i128(b);
    o.r = reduce40(exact);
    o.carry = subtract ? unsigned40(a) < unsigned40(b)
                       : (i128(unsigned40(a)) + i128(unsigned40(b))) >= kTwo40;
    o.overflow = !fits40(exact);
    describe(o.r, o.f);
    o.f.fc0 = o.carry;
    o.f.fv = o.overflow;
    if (o.overflow)
        o.f.fvl = 1;
    o.stored = o.r;
    if (store)
        store_saturating(o, sata);
    return o;
}

// a value loaded into an accumulator (mov p1 -> acc ...): result flags + saturation, no carry/overflow
inline AccOut load(s64 v, const Flags& pre, bool sata) {
    AccOut o;
    o.f = pre;
    o.r = reduce40(v);
    describe(o.r, o.f);
    store_saturating(o, sata);
    return o;
}

// base +/- pa +/- pb: result, fz fm fe fn, saturated store, flm. fc0 fv fvl are NOT defined here.
inline AccOut sum3(s64 base, s64 pa, bool sub_a, s64 pb, bool sub_b, const Flags& pre, bool sata) {
    AccOut o;
    o.f = pre;
    i128 exact = i128(base) + (sub_a ? -i128(pa) : i128(pa)) + (sub_b ? -i128(pb) : i128(pb));
    o.r = reduce40(exact);
    o.overflow = !fits40(exact);
    describe(o.r, o.f);
    store_saturating(o, sata);
    return o;
}

// the base operand of a product sum
enum class Base { Zero = 0, Acc = 1, Sv = 2, SvRnd = 3 };
inline s64 base_value(Base b, s64 acc, u16 sv) {
    switch (b) {
    case Base::Zero:
        return 0;
    case Base::Acc:
        return acc;
    case Base::Sv:
        return signed16(sv) * 65536;
    default:
        return signed16(sv) * 65536 + 0x8000;
    }
}

// 32-bit read-side saturation of an accumulator (sat == 0): value moved out of an accumulator
inline s64 read_saturated(s64 acc, bool sat_disabled, bool* did = nullptr) {
    if (!sat_disabled && !fits32(acc)) {
        if (did)
            *did = true;
        return acc < 0 ? kMin32 : kMax32;
    }
    return acc;
}

} // namespace mulm
} // namespace vf
