// Independent model of the BTDMP transmit FIFO, written from the C16 statement and btdmp.md.
// It shares no code with /repo/src/btdmp.*.
//
// Statement, clause by clause:
//   * while transmission is enabled exactly one stereo frame is emitted every `period` enabled
//     cycles (the frame clock counts enabled cycles and starts at zero);
//   * a frame is the two oldest queued words in order, a missing word is a zero;
//   * writes to a full 16-word queue are dropped; full == (size == 16), empty == (size == 0);
//   * the empty interrupt fires exactly when a pop empties the queue;
//   * flush empties the queue without a frame and without an interrupt.
// The period is fixed before the history starts and is >= 1.
#pragma once
#include <cstdint>
#include <deque>
#include <vector>

namespace vf {
namespace model {

struct BtdmpFrame {
    std::uint64_t at; // value of the caller's cycle counter when the frame was emitted
    std::uint16_t l, r;
};

struct Btdmp {
    static constexpr std::uint64_t Never = ~0ull;
    std::uint32_t period = 4096;
    std::uint32_t phase = 0; // enabled cycles since the last frame, always < period
    bool enabled = false;
    std::deque<std::uint16_t> fifo;
    std::uint64_t empty_irqs = 0;
    std::uint64_t dropped = 0;
    std::vector<BtdmpFrame> frames;
    std::vector<std::uint64_t> irq_at; // cycle counter value of every empty interrupt

    bool empty() const { return fifo.empty(); }
    bool full() const { return fifo.size() == 16; }

    // returns false when the word is dropped
    bool send(std::uint16_t w) {
        if (fifo.size() >= 16) {
            ++dropped;
            return false;
        }
        fifo.push_back(w);
        return true;
    }
    void flush() { fifo.clear(); }
    void enable(bool on) { enabled = on; }

    // one cycle; `now` is only recorded
    void cycle(std::uint64_t now) {
        if (!enabled)
            return;
        if (++phase < period)
            return;
        phase = 0;
        std::uint16_t w[2] = {0, 0};
        for (int i = 0; i < 2; ++i) {
            if (fifo.empty())
                break;
            w[i] = fifo.front();
            fifo.pop_front();
            if (fifo.empty()) {
                ++empty_irqs;
                irq_at.push_back(now);
            }
        }
        frames.push_back({now, w[0], w[1]});
    }

    // index (1-based, counted from now) of the cycle whose frame empties the queue, i.e. the cycle
    // that raises the empty interrupt if nothing else happens; Never if there is no such cycle
    std::uint64_t cycles_to_empty_irq() const {
        if (!enabled || fifo.empty())
            return Never;
        std::uint64_t frames_needed = (fifo.size() + 1) / 2;
        return (std::uint64_t)(period - phase) + (frames_needed - 1) * (std::uint64_t)period;
    }
};

} // namespace model
} // namespace vf
