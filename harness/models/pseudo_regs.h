// C20 model: bit layout of the 19 architectural status/configuration words, written down as a table.
//
// Sources (NOT include/teakra/impl/register.h, which is the code under test):
//   * the per-bit symbol strings the test verifier prints for every word it compares
//     (src/test_verifier/main.cpp: "####C###ZMNVCELL" for stt0, "jicB####pppppppp" for mod1, ...), which give
//     the position and width of every field of cfgi/j, stt0-2, mod0-2, ar0/1, arp0-3;
//   * the register descriptions in src/register.md and the field comments of RegisterState (widths, "the lower
//     4 bits of the e part of a0/a1 are exposed in st0/st1", "3 bits each, represent r0~r7", ...);
//   * the public TeakLite / TeakLite-II register documentation for the TeakLite-compatible words
//     st0, st1, st2, icr and for mod3 (not printed by the verifier):
//       st0  : 0 SAT, 1 IE, 2 IM0, 3 IM1, 4 R, 5 L, 6 E, 7 C, 8 V, 9 N, 10 M, 11 Z, 12-15 A0E
//       st1  : 0-7 PAGE, 10-11 PS, 12-15 A1E
//       st2  : 0-5 M0-M5, 6 IM2, 7 S, 8 OU0, 9 OU1, 10 IU0, 11 IU1, 13 IP2, 14 IP0, 15 IP1
//       icr  : 0 NMIC, 1 IC0, 2 IC1, 3 IC2, 4 LP, 5-7 BCN
//       mod3 : 0 NMIC, 1-3 IC0-2, 4-6 OU2-4, 7 IE, 8-10 IM0-2, 11 IMV, 13 CCNTA, 14 CPC, 15 CREP
//
// Kinds:
//   RW    plain read/write field
//   RO    read-only (writes ignored): interrupt pending bits, user input pins, loop nest counter, constant
//   LP    in-loop flag: reads lp; writing 1 leaves the loop nest (lp = 0 and bcn = 0); writing 0 does nothing
//   LIM2  TeakLite limit flag: reads (flm | fvl); a write stores the bit into both
//   ACCE  low nibble of an accumulator extension: reads bits 32..35; a write sign-extends the nibble into
//         bits 32..39 (and, accumulators being kept sign-extended, above)
#pragma once
#include <string>
#include <vector>
#include "state.h"

namespace vf {
namespace pr {

enum Kind { RW, RO, LP, LIM2, ACCE };

struct Slot {
    unsigned bit, len;
    const char* field;
    Kind kind;
    const char* field2; // LIM2: second flag; LP: the nest counter
    int fi = -1, fi2 = -1;
};

struct Word {
    const char* name;
    std::vector<Slot> slots;
    u16 defined_mask() const {
        u16 m = 0;
        for (auto& s : slots)
            m |= (u16)(((1u << s.len) - 1) << s.bit);
        return m;
    }
    u16 writable_mask() const { // bits that read back what was written
        u16 m = 0;
        for (auto& s : slots)
            if (s.kind == RW || s.kind == LIM2 || s.kind == ACCE)
                m |= (u16)(((1u << s.len) - 1) << s.bit);
        return m;
    }
};

inline Slot rw(unsigned bit, unsigned len, const char* f) { return Slot{bit, len, f, RW, nullptr}; }
inline Slot ro(unsigned bit, unsigned len, const char* f) { return Slot{bit, len, f, RO, nullptr}; }

inline std::vector<Word> BuildWords() {
    std::vector<Word> w;
    // ---- step / modulo configuration: "mmmmmmmmmsssssss"
    w.push_back({"cfgi", {rw(0, 7, "stepi"), rw(7, 9, "modi")}});
    w.push_back({"cfgj", {rw(0, 7, "stepj"), rw(7, 9, "modj")}});
    // ---- Teak status words
    // stt0 "####C###ZMNVCELL": 0 limit, 1 latched overflow, 2 E, 3 C, 4 V, 5 N, 6 M, 7 Z, 11 C1
    w.push_back({"stt0",
                 {rw(0, 1, "flm"), rw(1, 1, "fvl"), rw(2, 1, "fe"), rw(3, 1, "fc0"), rw(4, 1, "fv"),
                  rw(5, 1, "fn"), rw(6, 1, "fm"), rw(7, 1, "fz"), rw(11, 1, "fc1")}});
    // stt1 "QP#########R####": 4 R, 10/11 user input pins, 14 P0E, 15 P1E
    w.push_back({"stt1",
                 {rw(4, 1, "fr"), ro(10, 1, "iu[0]"), ro(11, 1, "iu[1]"), rw(14, 1, "pe[0]"),
                  rw(15, 1, "pe[1]")}});
    // stt2 "LBBB####mm##V21I": 0-2 IP0-2, 3 IPV, 6-7 movpd page, 12-14 BCN, 15 LP
    w.push_back({"stt2",
                 {ro(0, 1, "ip[0]"), ro(1, 1, "ip[1]"), ro(2, 1, "ip[2]"), ro(3, 1, "ipv"),
                  rw(6, 2, "pcmhi"), ro(12, 3, "bcn"), Slot{15, 1, "lp", LP, "bcn"}}});
    // ---- Teak mode words
    // mod0 "#QQ#PPooSYY###SS": 0 SAT, 1 SATA, 2-4 constant, 5-6 HWM, 7 S, 8-9 OU0-1, 10-11 PS0, 13-14 PS1
    w.push_back({"mod0",
                 {rw(0, 1, "sat"), rw(1, 1, "sata"), ro(2, 3, "mod0_unk_const"), rw(5, 2, "hwm"),
                  rw(7, 1, "s"), rw(8, 1, "ou[0]"), rw(9, 1, "ou[1]"), rw(10, 2, "ps[0]"),
                  rw(13, 2, "ps[1]")}});
    // mod1 "jicB####pppppppp": 0-7 PAGE, 12 STP16, 13 CMD, 14 EPI, 15 EPJ
    w.push_back({"mod1",
                 {rw(0, 8, "page"), rw(12, 1, "stp16"), rw(13, 1, "cmd"), rw(14, 1, "epi"),
                  rw(15, 1, "epj")}});
    // mod2 "7654321m7654321M": 0-7 modulo enable r0-r7, 8-15 bit-reverse enable r0-r7
    w.push_back({"mod2",
                 {rw(0, 1, "m[0]"), rw(1, 1, "m[1]"), rw(2, 1, "m[2]"), rw(3, 1, "m[3]"),
                  rw(4, 1, "m[4]"), rw(5, 1, "m[5]"), rw(6, 1, "m[6]"), rw(7, 1, "m[7]"),
                  rw(8, 1, "br[0]"), rw(9, 1, "br[1]"), rw(10, 1, "br[2]"), rw(11, 1, "br[3]"),
                  rw(12, 1, "br[4]"), rw(13, 1, "br[5]"), rw(14, 1, "br[6]"), rw(15, 1, "br[7]")}});
    w.push_back({"mod3",
                 {rw(0, 1, "nimc"), rw(1, 1, "ic[0]"), rw(2, 1, "ic[1]"), rw(3, 1, "ic[2]"),
                  rw(4, 1, "ou[2]"), rw(5, 1, "ou[3]"), rw(6, 1, "ou[4]"), rw(7, 1, "ie"),
                  rw(8, 1, "im[0]"), rw(9, 1, "im[1]"), rw(10, 1, "im[2]"), rw(11, 1, "imv"),
                  rw(13, 1, "ccnta"), rw(14, 1, "cpc"), rw(15, 1, "crep")}});
    // ---- TeakLite-compatible words
    w.push_back({"st0",
                 {rw(0, 1, "sat"), rw(1, 1, "ie"), rw(2, 1, "im[0]"), rw(3, 1, "im[1]"), rw(4, 1, "fr"),
                  Slot{5, 1, "flm", LIM2, "fvl"}, rw(6, 1, "fe"), rw(7, 1, "fc0"), rw(8, 1, "fv"),
                  rw(9, 1, "fn"), rw(10, 1, "fm"), rw(11, 1, "fz"), Slot{12, 4, "a[0]", ACCE, nullptr}}});
    w.push_back({"st1", {rw(0, 8, "page"), rw(10, 2, "ps[0]"), Slot{12, 4, "a[1]", ACCE, nullptr}}});
    w.push_back({"st2",
                 {rw(0, 1, "m[0]"), rw(1, 1, "m[1]"), rw(2, 1, "m[2]"), rw(3, 1, "m[3]"),
                  rw(4, 1, "m[4]"), rw(5, 1, "m[5]"), rw(6, 1, "im[2]"), rw(7, 1, "s"),
                  rw(8, 1, "ou[0]"), rw(9, 1, "ou[1]"), ro(10, 1, "iu[0]"), ro(11, 1, "iu[1]"),
                  ro(13, 1, "ip[2]"), ro(14, 1, "ip[0]"), ro(15, 1, "ip[1]")}});
    w.push_back({"icr",
                 {rw(0, 1, "nimc"), rw(1, 1, "ic[0]"), rw(2, 1, "ic[1]"), rw(3, 1, "ic[2]"),
                  Slot{4, 1, "lp", LP, "bcn"}, ro(5, 3, "bcn")}});
    // ---- indirect addressing configuration
    // ar "RRRRRRoosssoosss": 13-15 register of the first operand index, 10-12 of the second;
    //                        8-9 offset / 5-7 step of the first, 3-4 offset / 0-2 step of the second
    w.push_back({"ar0",
                 {rw(0, 3, "arstep[1]"), rw(3, 2, "aroffset[1]"), rw(5, 3, "arstep[0]"),
                  rw(8, 2, "aroffset[0]"), rw(10, 3, "arrn[1]"), rw(13, 3, "arrn[0]")}});
    w.push_back({"ar1",
                 {rw(0, 3, "arstep[3]"), rw(3, 2, "aroffset[3]"), rw(5, 3, "arstep[2]"),
                  rw(8, 2, "aroffset[2]"), rw(10, 3, "arrn[3]"), rw(13, 3, "arrn[2]")}});
    // arp "#RR#RRjjjjjiiiii": 0-2 step i, 3-4 offset i, 5-7 step j, 8-9 offset j, 10-11 register i (r0-r3),
    //                         13-14 register j (r4-r7)
    static const char* n[4][6] = {
        {"arpstepi[0]", "arpoffseti[0]", "arpstepj[0]", "arpoffsetj[0]", "arprni[0]", "arprnj[0]"},
        {"arpstepi[1]", "arpoffseti[1]", "arpstepj[1]", "arpoffsetj[1]", "arprni[1]", "arprnj[1]"},
        {"arpstepi[2]", "arpoffseti[2]", "arpstepj[2]", "arpoffsetj[2]", "arprni[2]", "arprnj[2]"},
        {"arpstepi[3]", "arpoffseti[3]", "arpstepj[3]", "arpoffsetj[3]", "arprni[3]", "arprnj[3]"}};
    static const char* an[4] = {"arp0", "arp1", "arp2", "arp3"};
    for (int k = 0; k < 4; ++k)
        w.push_back({an[k],
                     {rw(0, 3, n[k][0]), rw(3, 2, n[k][1]), rw(5, 3, n[k][2]), rw(8, 2, n[k][3]),
                      rw(10, 2, n[k][4]), rw(13, 2, n[k][5])}});
    for (auto& word : w)
        for (auto& s : word.slots) {
            s.fi = FieldIndex(s.field);
            if (s.field2)
                s.fi2 = FieldIndex(s.field2);
        }
    return w;
}

inline const std::vector<Word>& Words() {
    static const std::vector<Word> w = BuildWords();
    return w;
}
inline const Word& WordByName(const std::string& n) {
    for (auto& w : Words())
        if (n == w.name)
            return w;
    std::fprintf(stderr, "unknown word %s\n", n.c_str());
    std::abort();
}

// value a program reads from the word in state s
inline u16 Get(const Word& w, const CaseState& s) {
    u16 v = 0;
    for (auto& sl : w.slots) {
        u64 f;
        switch (sl.kind) {
        case LIM2:
            f = s.v[sl.fi] | s.v[sl.fi2];
            break;
        case ACCE:
            f = (s.v[sl.fi] >> 32) & 0xF;
            break;
        default:
            f = s.v[sl.fi];
        }
        v |= (u16)((f & ((1u << sl.len) - 1)) << sl.bit);
    }
    return v;
}

// state after a program writes v to the word
inline void Set(const Word& w, CaseState& s, u16 v) {
    for (auto& sl : w.slots) {
        u64 f = (v >> sl.bit) & ((1u << sl.len) - 1);
        switch (sl.kind) {
        case RW:
            s.v[sl.fi] = f;
            break;
        case RO:
            break;
        case LP:
            if (f) {
                s.v[sl.fi] = 0;
                s.v[sl.fi2] = 0;
            }
            break;
        case LIM2:
            s.v[sl.fi] = f;
            s.v[sl.fi2] = f;
            break;
        case ACCE: {
            u64 ext = sext(f, 4) & 0xFF; // nibble sign-extended over the 8-bit extension
            u64 acc = (s.v[sl.fi] & 0xFFFFFFFFull) | (ext << 32);
            s.v[sl.fi] = sext(acc, 40);
            break;
        }
        }
    }
}

// ---- decoding of the indirect-addressing words, by operand index, from the table above
struct ArSel {
    unsigned rn, step, offset;
};
inline unsigned slot_of(const Word& w, const std::string& field, u16 value) {
    for (auto& sl : w.slots)
        if (field == sl.field)
            return (value >> sl.bit) & ((1u << sl.len) - 1);
    std::fprintf(stderr, "no field %s in %s\n", field.c_str(), w.name);
    std::abort();
}
// ArRn/ArStep operand index 0..3 (0,1 live in ar0; 2,3 in ar1)
inline unsigned ArRnOf(const u16 ar[2], unsigned idx) {
    return slot_of(WordByName(idx < 2 ? "ar0" : "ar1"), fmt("arrn[%u]", idx), ar[idx / 2]);
}
inline unsigned ArStepOf(const u16 ar[2], unsigned idx) {
    return slot_of(WordByName(idx < 2 ? "ar0" : "ar1"), fmt("arstep[%u]", idx), ar[idx / 2]);
}
inline unsigned ArOffsetOf(const u16 ar[2], unsigned idx) {
    return slot_of(WordByName(idx < 2 ? "ar0" : "ar1"), fmt("aroffset[%u]", idx), ar[idx / 2]);
}
// ArpRn/ArpStep operand index k lives in arp<k>; register numbers are absolute (j: r4..r7)
inline unsigned ArpRniOf(const u16 arp[4], unsigned k) {
    return slot_of(WordByName(fmt("arp%u", k)), fmt("arprni[%u]", k), arp[k]);
}
inline unsigned ArpRnjOf(const u16 arp[4], unsigned k) {
    return 4 + slot_of(WordByName(fmt("arp%u", k)), fmt("arprnj[%u]", k), arp[k]);
}
inline unsigned ArpStepiOf(const u16 arp[4], unsigned k) {
    return slot_of(WordByName(fmt("arp%u", k)), fmt("arpstepi[%u]", k), arp[k]);
}
inline unsigned ArpStepjOf(const u16 arp[4], unsigned k) {
    return slot_of(WordByName(fmt("arp%u", k)), fmt("arpstepj[%u]", k), arp[k]);
}
inline unsigned ArpOffsetiOf(const u16 arp[4], unsigned k) {
    return slot_of(WordByName(fmt("arp%u", k)), fmt("arpoffseti[%u]", k), arp[k]);
}
inline unsigned ArpOffsetjOf(const u16 arp[4], unsigned k) {
    return slot_of(WordByName(fmt("arp%u", k)), fmt("arpoffsetj[%u]", k), arp[k]);
}

// names used in assembly text for the 3-bit step code and the 2-bit offset code (register.h field comments /
// the assembler syntax): the '*' forms are the "second" +-2 mode and the modulo-disabled -1 offset
inline const char* StepName(unsigned code) {
    static const char* n[8] = {"++0", "++1", "--1", "++s", "++2", "--2", "++2*", "--2*"};
    return n[code & 7];
}
inline const char* OffsetName(unsigned code) {
    static const char* n[4] = {"+0", "+1", "-1", "-1*"};
    return n[code & 3];
}

} // namespace pr
} // namespace vf
