// Independent register-file model of the Teak MMIO window (0x800 offsets), used by C12.
//
// TRANSCRIBED FROM THE HARDWARE NOTES  src/{mmio,timer,apbp,ahbm,miu,dma,icu,btdmp}.md  and the property
// statements of C12/C14/C15/C16 -- not from mmio.cpp. Bit positions are counted from the ASCII register
// diagrams (one "---+" column per bit, bit 15 on the left).
//
// For every documented offset the table gives
//   rw   bits the documents describe as read/write storage: must read back the last value written
//   obs  documented bits that are observed for *stability* (rw bits, read-only status flags, named command
//        bits): whatever they read, they may only change through a documented coupling. Bits drawn blank,
//        "-" or "?" in a diagram are not observed.
// Bits outside obs are never asserted. The model keeps for every register a value and a mask of bits
// whose value it *knows*; bits it does not know (no documented reset value, or a documented coupling
// with an outcome the documents leave open) are learnt from the next read-back and asserted from then on.
//
// Documented couplings implemented explicitly:
//   * DMA channel window: 0x1C0..0x1DE are eight independent copies selected by 0x1BE[2:0]
//   * DMA start: value 0x40C0 at 0x1DE runs the selected channel, raises IRQ 15, may change the
//     end-of-transfer flags 0x18C
//   * MMIO relocation: 0x11E[15:10] is the window base of the DSP data path (initially 0x8000)
//   * timer: CFG bit 10 (RES) loads the counter from START_COUNT; COUNTER_L/H mirror the counter while
//     MU=1; EW bit 0 decrements in event-count mode (not paused, counter != 0) and raises IRQ 10 (timer 0)
//     / 9 (timer 1) when the counter reaches 0
//   * ICU: 0x204 sets pending bits, 0x202 clears them, 0x200 shows them
//   * audio port: 0x2C6 queues a word (16-word queue, writes to a full queue are dropped), 0x2CA bit 2
//     flushes, 0x2C2 bit 3 = full, bit 4 = empty
//   * mailboxes: write REPLYi sets Ri, host read clears it; host write CMDi sets Ci (+ IRQ 14 unless CIi),
//     DSP read of 0x0C2+4i returns it and clears Ci; semaphores set/ack/mask; status words 0x0D6/0x0D8
#pragma once
#include <cstdint>
#include <cstdio>
#include <cstring>
#include <string>
#include <vector>

namespace vf {
namespace mmio {

using u8 = std::uint8_t;
using u16 = std::uint16_t;
using u32 = std::uint32_t;

enum Kind : u8 {
    K_RW,      // plain read/write field(s)
    K_TRIG,    // write-only trigger / command register (read-back undocumented)
    K_STATUS,  // read-only status
    K_SELECT,  // DMA channel select
    K_WINDOW,  // DMA per-channel register seen through the window
    K_DATA,    // mailbox / FIFO data port (reading has or may have side effects)
};

struct Reg {
    u16 off;
    u16 rw;
    u16 obs;
    Kind kind;
    const char* name;
    u16 stride;  // replication stride of the group this register belongs to (0: single)
    u16 inst;    // instance number within the group
    bool sweep;  // side-effect-free to read: part of the read-back sweep
};

constexpr u16 kSize = 0x800;
constexpr u16 kWinLo = 0x1C0, kWinHi = 0x1DE, kSel = 0x1BE, kBase = 0x11E;
constexpr u16 kDmaStartValue = 0x40C0;
constexpr unsigned kFifoDepth = 16;  // property C16: "16-word queue"

inline std::vector<Reg> BuildTable() {
    std::vector<Reg> t;
    auto add = [&](u16 off, u16 rw, u16 obs, Kind k, const char* name, u16 stride = 0, u16 inst = 0,
                   bool sweep = true) {
        t.push_back(Reg{off, rw, (u16)(obs | rw), k, name, stride, inst, sweep && (u16)(obs | rw) != 0});
    };
    // ---- timer.md ------------------------------------------------------------------------------
    for (u16 i = 0; i < 2; ++i) {
        u16 b = 0x20 + 0x10 * i;
        // TM[15:14] GP13 CS12 BP11 RES10 MU9 PC8 CT7 TP6 -5 CM[4:2] TS[1:0]
        // RES and CT are commands ("1 to restart", "1 to clear"), GP is "?": not asserted
        add(b + 0x0, 0xDB5F, 0, K_RW, "TIMER_CFG", 0x10, i);
        add(b + 0x2, 0, 0, K_TRIG, "TIMER_EW", 0x10, i);
        add(b + 0x4, 0xFFFF, 0, K_RW, "TIMER_START_COUNT_L", 0x10, i);
        add(b + 0x6, 0xFFFF, 0, K_RW, "TIMER_START_COUNT_H", 0x10, i);
        add(b + 0x8, 0, 0xFFFF, K_STATUS, "TIMER_COUNTER_L", 0x10, i);
        add(b + 0xA, 0, 0xFFFF, K_STATUS, "TIMER_COUNTER_H", 0x10, i);
        add(b + 0xC, 0xFFFF, 0, K_RW, "TIMER_PWM_COUNTER_L", 0x10, i);
        add(b + 0xE, 0xFFFF, 0, K_RW, "TIMER_PWM_COUNTER_H", 0x10, i);
    }
    // ---- apbp.md -------------------------------------------------------------------------------
    for (u16 i = 0; i < 3; ++i) {
        add(0x0C0 + 4 * i, 0, 0xFFFF, K_TRIG, "APBP_REPLY", 4, i);           // DSP -> CPU data (send)
        add(0x0C2 + 4 * i, 0, 0, K_DATA, "APBP_CMD", 4, i, false);           // read clears Ci: explicit op
    }
    add(0x0CC, 0, 0xFFFF, K_TRIG, "APBP_SET_SEMAPHORE");
    add(0x0CE, 0xFFFF, 0, K_RW, "APBP_MASK_SEMAPHORE");
    add(0x0D0, 0, 0, K_TRIG, "APBP_ACK_SEMAPHORE");
    add(0x0D2, 0, 0xFFFF, K_STATUS, "APBP_GET_SEMAPHORE");
    add(0x0D4, 0x3104, 0, K_RW, "APBP_CONFIG");                              // CI2 13, CI1 12, CI0 8, END 2
    add(0x0D6, 0, 0x33E0, K_STATUS, "APBP_STATUS");                          // C2 13 C1 12 S 9 C0 8 R2..R0 7..5
    add(0x0D8, 0, 0xFFE7, K_STATUS, "APBP_CPU_STATUS");                      // C 15..13 R 12..10 S' 9 fifo flags
    // ---- ahbm.md -------------------------------------------------------------------------------
    add(0x0E0, 0, 0x0004, K_STATUS, "AHBM_STATUS");                          // RNE 2
    for (u16 i = 0; i < 3; ++i) {
        add(0x0E2 + 6 * i, 0x0037, 0, K_RW, "AHBM_CFG_A", 6, i);             // TYPE[5:4] BURST[2:1] R0
        add(0x0E4 + 6 * i, 0x0300, 0, K_RW, "AHBM_CFG_B", 6, i);             // E9 W8
        add(0x0E6 + 6 * i, 0x00FF, 0, K_RW, "AHBM_DMA_CONNECT", 6, i);       // D7..D0
    }
    // ---- miu.md --------------------------------------------------------------------------------
    add(0x100, 0xFFFF, 0, K_RW, "MIU_ZWS");
    add(0x102, 0x0FFF, 0, K_RW, "MIU_WS");
    add(0x104, 0xFFFF, 0, K_RW, "MIU_Z0WSCFG");
    add(0x106, 0xFFFF, 0, K_RW, "MIU_Z1WSCFG");
    add(0x108, 0xFFFF, 0, K_RW, "MIU_Z2WSCFG");
    add(0x10A, 0xFFFF, 0, K_RW, "MIU_Z3WSCFG");
    add(0x10E, 0xFFFF, 0, K_RW, "MIU_XPAGE");
    add(0x110, 0x00FF, 0, K_RW, "MIU_YPAGE");
    add(0x112, 0xFFFF, 0, K_RW, "MIU_ZPAGE");
    add(0x114, 0x7F3F, 0, K_RW, "MIU_PAGE0CFG");                             // Y[14:8] X[5:0]
    add(0x116, 0x7F3F, 0, K_RW, "MIU_PAGE1CFG");
    add(0x118, 0x7F3F, 0, K_RW, "MIU_OFFPAGECFG");
    add(0x11A, 0x0057, 0, K_RW, "MIU_PAGING");                               // PGM6 ZSP4 INP2 TSP1 PP0
    add(0x11C, 0x007D, 0, K_RW, "MIU_DLCFG");                                // PDP6 PDLPAGE[5:2] DLP0 (SDL1 sticky)
    add(0x11E, 0xFC00, 0, K_RW, "MIU_MMIOBASE");
    add(0x120, 0x000F, 0, K_RW, "MIU_OBSCFG");
    add(0x122, 0x007F, 0, K_RW, "MIU_POLARITY");
    // ---- dma.md --------------------------------------------------------------------------------
    add(0x184, 0x00FF, 0, K_RW, "DMA_ENABLE");
    add(0x18C, 0, 0x00FF, K_STATUS, "DMA_END_FLAGS");
    add(0x18E, 0x7777, 0, K_RW, "DMA_SLOT_L");
    add(0x190, 0x7777, 0, K_RW, "DMA_SLOT_H");
    add(0x1BE, 0x0007, 0, K_SELECT, "DMA_CHANNEL");
    static const char* wn[16] = {"DMA_SRC_ADDR_LOW", "DMA_SRC_ADDR_HIGH", "DMA_DST_ADDR_LOW", "DMA_DST_ADDR_HIGH",
                                 "DMA_SIZE0", "DMA_SIZE1", "DMA_SIZE2", "DMA_SRC_STEP0", "DMA_DST_STEP0",
                                 "DMA_SRC_STEP1", "DMA_DST_STEP1", "DMA_SRC_STEP2", "DMA_DST_STEP2",
                                 "DMA_SPACE", "DMA_1DC", "DMA_CONTROL"};
    for (u16 i = 0; i < 13; ++i)
        add(0x1C0 + 2 * i, 0xFFFF, 0, K_WINDOW, wn[i]);
    add(0x1DA, 0x04FF, 0, K_WINDOW, wn[13]);                                 // DWM10 DST[7:4] SRC[3:0] ("?" bit 9 not observed)
    add(0x1DC, 0, 0, K_WINDOW, wn[14]);                                      // only "?" bits: nothing observed
    add(0x1DE, 0, 0xC000, K_WINDOW, wn[15]);                                 // RST15 STR14 (command bits: stability per channel)
    // ---- icu.md --------------------------------------------------------------------------------
    add(0x200, 0, 0xFFFF, K_STATUS, "ICU_PENDING");
    add(0x202, 0, 0, K_TRIG, "ICU_ACK");
    add(0x204, 0, 0, K_TRIG, "ICU_TRIGGER");
    add(0x206, 0xFFFF, 0, K_RW, "ICU_ENABLE_INT0");
    add(0x208, 0xFFFF, 0, K_RW, "ICU_ENABLE_INT1");
    add(0x20A, 0xFFFF, 0, K_RW, "ICU_ENABLE_INT2");
    add(0x20C, 0xFFFF, 0, K_RW, "ICU_ENABLE_VINT");
    add(0x20E, 0xFFFF, 0, K_RW, "ICU_TRIGGER_MODE");
    add(0x210, 0xFFFF, 0, K_RW, "ICU_POLARITY");
    for (u16 i = 0; i < 16; ++i) {
        add(0x212 + 4 * i, 0x8003, 0, K_RW, "ICU_VECTOR_H", 4, i);           // VIC15 VADDR_H[1:0]
        add(0x214 + 4 * i, 0xFFFF, 0, K_RW, "ICU_VECTOR_L", 4, i);
    }
    // ---- btdmp.md ------------------------------------------------------------------------------
    for (u16 i = 0; i < 2; ++i) {
        u16 b = 0x280 + 0x80 * i;
        add(b + 0x00, 0x0200, 0, K_RW, "BTDMP_RX_IRQ", 0x80, i);             // RIR9
        add(b + 0x1E, 0x8000, 0, K_RW, "BTDMP_RX_ENABLE", 0x80, i);          // RE15
        add(b + 0x20, 0x0200, 0, K_RW, "BTDMP_TX_IRQ", 0x80, i);             // TIR9
        add(b + 0x22, 0, 0xFFFF, K_RW, "BTDMP_TX_CLOCK", 0x80, i);           // unnamed fields: stability only
        add(b + 0x3E, 0x8000, 0, K_RW, "BTDMP_TX_ENABLE", 0x80, i);          // TE15
        add(b + 0x40, 0, 0x0018, K_STATUS, "BTDMP_RX_STATUS", 0x80, i);      // RE4 RF3
        add(b + 0x42, 0, 0x0018, K_STATUS, "BTDMP_TX_STATUS", 0x80, i);      // TE4 TF3
        add(b + 0x44, 0, 0, K_DATA, "BTDMP_FIFO_RECEIVE", 0x80, i, false);
        add(b + 0x46, 0, 0, K_DATA, "BTDMP_FIFO_TRANSMIT", 0x80, i, false);
        add(b + 0x48, 0, 0, K_TRIG, "BTDMP_RX_FLUSH", 0x80, i);              // RFL2
        add(b + 0x4A, 0, 0, K_TRIG, "BTDMP_TX_FLUSH", 0x80, i);              // TFL2
    }
    return t;
}

struct Model {
    std::vector<Reg> regs;
    int idx[kSize];

    u16 val[kSize], known[kSize];    // everything outside the DMA window
    u16 cval[8][16], cknown[8][16];  // DMA window, per channel
    unsigned sel = 0;
    bool sel_known = false;
    u16 base_raw = 0x8000;  // last value written to 0x11E (mmio.md: "initially starting at 0x8000")

    u32 counter[2] = {0, 0};
    bool counter_known[2] = {false, false};

    u16 cmd[3] = {0, 0, 0}, reply[3] = {0, 0, 0};
    bool cmd_known[3] = {false, false, false}, reply_known[3] = {false, false, false};
    int c_ready[3] = {-1, -1, -1}, r_ready[3] = {-1, -1, -1};  // -1 unknown
    u16 sem_d2c = 0, sem_d2c_known = 0;

    int fifo_n[2] = {-1, -1};  // -1 unknown, -2 unknown but not empty

    // what the last operation exercised (read by the harness for counters / nt keys)
    struct Note {
        bool restart = false, restart_loaded = false, event_dec = false, event_irq = false, start = false,
             select = false, reloc = false, icu_trig = false, icu_ack = false, fifo_send = false,
             fifo_full = false, fifo_drop = false, fifo_flush = false, mbox_send = false, undoc_trigger = false;
    } note;

    Model() : regs(BuildTable()) {
        for (auto& i : idx)
            i = -1;
        for (size_t i = 0; i < regs.size(); ++i)
            idx[regs[i].off] = (int)i;
        std::memset(val, 0, sizeof val);
        std::memset(known, 0, sizeof known);
        std::memset(cval, 0, sizeof cval);
        std::memset(cknown, 0, sizeof cknown);
        val[kBase] = 0x8000;
        known[kBase] = 0xFC00;
    }

    const Reg* reg(u16 off) const { return idx[off & (kSize - 1)] < 0 ? nullptr : &regs[idx[off & (kSize - 1)]]; }
    static bool in_window(u16 off) { return off >= kWinLo && off <= kWinHi && !(off & 1); }

    // ---------------------------------------------------------------- small helpers
    void set_known(u16 off, u16 mask, u16 v) {
        val[off] = (u16)((val[off] & ~mask) | (v & mask));
        known[off] |= mask;
    }
    void forget(u16 off, u16 mask) { known[off] &= (u16)~mask; }
    int bit(u16 off, unsigned b) const { return (known[off] >> b) & 1 ? (val[off] >> b) & 1 : -1; }
    void pend_set(unsigned b) { set_known(0x200, (u16)(1u << b), 0xFFFF); }
    void pend_maybe(unsigned b) {
        if (bit(0x200, b) != 1)
            forget(0x200, (u16)(1u << b));
    }
    // S = (GET_SEMAPHORE & ~MASK_SEMAPHORE) != 0 ; -1 when the known bits do not decide it
    int s_doc() const {
        u16 sem = val[0x0D2], semk = known[0x0D2], msk = val[0x0CE], mskk = known[0x0CE];
        if ((sem & semk) & (u16)(~msk & mskk))
            return 1;
        u16 dead = (u16)((~sem & semk) | (msk & mskk));  // bits that certainly do not signal
        return dead == 0xFFFF ? 0 : -1;
    }
    void set_s(int s) {
        if (s < 0)
            forget(0x0D6, 0x0200);
        else
            set_known(0x0D6, 0x0200, s ? 0xFFFF : 0);
    }
    void refresh_status() {
        static const unsigned cbit6[3] = {8, 12, 13};
        for (unsigned i = 0; i < 3; ++i) {
            if (r_ready[i] >= 0) {
                set_known(0x0D6, (u16)(1u << (5 + i)), r_ready[i] ? 0xFFFF : 0);
                set_known(0x0D8, (u16)(1u << (10 + i)), r_ready[i] ? 0xFFFF : 0);
            }
            if (c_ready[i] >= 0) {
                set_known(0x0D6, (u16)(1u << cbit6[i]), c_ready[i] ? 0xFFFF : 0);
                set_known(0x0D8, (u16)(1u << (13 + i)), c_ready[i] ? 0xFFFF : 0);
            }
        }
        for (unsigned i = 0; i < 2; ++i) {
            u16 o = (u16)(0x2C2 + 0x80 * i);
            if (fifo_n[i] >= 0) {
                set_known(o, 0x0008, fifo_n[i] == (int)kFifoDepth ? 0xFFFF : 0);
                set_known(o, 0x0010, fifo_n[i] == 0 ? 0xFFFF : 0);
            } else if (fifo_n[i] == -2) {
                set_known(o, 0x0010, 0);
                forget(o, 0x0008);
            } else
                forget(o, 0x0018);
        }
    }

    // ---------------------------------------------------------------- expectation / learning
    void expect(u16 off, u16& v, u16& k) const {
        if (in_window(off)) {
            unsigned w = (off - kWinLo) / 2;
            v = sel_known ? cval[sel][w] : 0;
            k = sel_known ? cknown[sel][w] : 0;
        } else {
            v = val[off];
            k = known[off];
        }
    }
    void learn(u16 off, u16 read) {
        const Reg* r = reg(off);
        if (!r)
            return;
        if (in_window(off)) {
            if (!sel_known)
                return;
            unsigned w = (off - kWinLo) / 2;
            cval[sel][w] = (u16)((cval[sel][w] & cknown[sel][w]) | (read & ~cknown[sel][w]));
            cknown[sel][w] |= r->obs;
            return;
        }
        val[off] = (u16)((val[off] & known[off]) | (read & ~known[off]));
        known[off] |= r->obs;
        if (off == kSel && !sel_known) {
            sel = read & 7;
            sel_known = true;
        }
        if (off == 0x0D6) {
            static const unsigned cbit6[3] = {8, 12, 13};
            for (unsigned i = 0; i < 3; ++i) {
                if (r_ready[i] < 0)
                    r_ready[i] = (read >> (5 + i)) & 1;
                if (c_ready[i] < 0)
                    c_ready[i] = (read >> cbit6[i]) & 1;
            }
            refresh_status();
        }
        for (unsigned i = 0; i < 2; ++i)
            if (off == 0x2C2 + 0x80 * i && fifo_n[i] == -1 && (read & 0x10)) {
                fifo_n[i] = 0;
                refresh_status();
            }
    }

    // ---------------------------------------------------------------- DSP data path
    bool base_aligned() const { return (base_raw & 0x03FF) == 0; }
    // window usable through plain data accesses: paging registers known and in their reset-like state
    bool dsp_path_ok() const {
        return base_aligned() && known[0x112] == 0xFFFF && val[0x112] == 0 && (known[0x11A] & 0x40) &&
               !(val[0x11A] & 0x40);
    }
    bool dsp_reachable(u16 off) const { return dsp_path_ok() && (u32)base_raw + off <= 0xFFFF; }
    u16 dsp_addr(u16 off) const { return (u16)(base_raw + off); }
    // z_page known to be non-zero: a data access into the window ends in the deliberate assertion
    bool zpage_nonzero() const { return base_aligned() && known[0x112] == 0xFFFF && val[0x112] != 0; }

    // the currently selected channel can be started without leaving DSP data memory:
    // one element, both spaces "DSP main memory", addresses below 0x20000 words
    bool start_safe() const {
        if (!sel_known)
            return false;
        const u16* v = cval[sel];
        const u16* k = cknown[sel];
        auto le1 = [&](unsigned w) { return k[w] == 0xFFFF && v[w] <= 1; };
        return le1(1) && le1(3) && le1(4) && le1(5) && le1(6) && (k[13] & 0xFF) == 0xFF && (v[13] & 0xFF) == 0;
    }

    // ---------------------------------------------------------------- the write effect
    void timer_cfg(unsigned t, u16 off, u16 v) {
        int old_mu = bit(off, 9);
        set_known(off, 0xDB5F, v);
        unsigned cm = (v >> 2) & 7, mu = (v >> 9) & 1;
        u16 ccl = (u16)(off + 8), cch = (u16)(off + 10), scl = (u16)(off + 4), sch = (u16)(off + 6);
        if (v & 0x0400) {  // RES
            note.restart = true;
            if (cm != 2 && known[scl] == 0xFFFF && known[sch] == 0xFFFF) {
                counter[t] = ((u32)val[sch] << 16) | val[scl];
                counter_known[t] = true;
                note.restart_loaded = true;
                if (mu) {
                    set_known(ccl, 0xFFFF, (u16)counter[t]);
                    set_known(cch, 0xFFFF, (u16)(counter[t] >> 16));
                }
            } else {
                // free-running mode: timer.md says the start value is loaded, the C15 statement is silent
                counter_known[t] = false;
                if (mu) {
                    forget(ccl, 0xFFFF);
                    forget(cch, 0xFFFF);
                }
            }
        } else if (mu && old_mu != 1) {
            // mirror update switched on with no counter change: old mirror or live counter, both allowed
            bool same = counter_known[t] && known[ccl] == 0xFFFF && known[cch] == 0xFFFF &&
                        val[ccl] == (u16)counter[t] && val[cch] == (u16)(counter[t] >> 16);
            if (!same) {
                forget(ccl, 0xFFFF);
                forget(cch, 0xFFFF);
            }
        }
    }
    void timer_event(unsigned t, u16 off, u16 v) {
        bool fire = v & 1, maybe = !fire && v != 0;  // only bit 0 is documented
        if (!fire && !maybe)
            return;
        u16 cfg = (u16)(off - 2), ccl = (u16)(off + 6), cch = (u16)(off + 8);
        unsigned irq = t == 0 ? 10 : 9;
        bool cfg_known = (known[cfg] & 0x031C) == 0x031C;
        unsigned cm = (val[cfg] >> 2) & 7, pause = (val[cfg] >> 8) & 1, mu = (val[cfg] >> 9) & 1;
        auto uncertain = [&] {
            counter_known[t] = false;
            if (!cfg_known || mu) {
                forget(ccl, 0xFFFF);
                forget(cch, 0xFFFF);
            }
            pend_maybe(irq);
        };
        if (!cfg_known || cm >= 4) {  // watchdog modes: "reload watchdog", effect on the counter left open
            uncertain();
            return;
        }
        if (cm != 3 || pause)
            return;
        if (!counter_known[t]) {
            uncertain();
            return;
        }
        if (counter[t] == 0)
            return;
        if (maybe) {
            note.undoc_trigger = true;
            bool last = counter[t] == 1;
            counter_known[t] = false;
            if (mu) {
                forget(ccl, 0xFFFF);
                forget(cch, 0xFFFF);
            }
            if (last)
                pend_maybe(irq);
            return;
        }
        --counter[t];
        note.event_dec = true;
        if (mu) {
            set_known(ccl, 0xFFFF, (u16)counter[t]);
            set_known(cch, 0xFFFF, (u16)(counter[t] >> 16));
        }
        if (counter[t] == 0) {
            pend_set(irq);
            note.event_irq = true;
        }
    }

    // effect of writing v to offset off (0..0x7FF) through either path
    void write(u16 off, u16 v) {
        note = Note();
        off &= kSize - 1;
        const Reg* r = reg(off);
        if (!r)
            return;  // undocumented offset: no documented effect on anything else
        if (in_window(off)) {
            unsigned w = (off - kWinLo) / 2;
            if (!sel_known) {
                for (unsigned c = 0; c < 8; ++c)
                    cknown[c][w] = 0;
                return;
            }
            cval[sel][w] = (u16)((cval[sel][w] & ~r->rw) | (v & r->rw));
            cknown[sel][w] = (u16)((cknown[sel][w] | r->rw) & ~(r->obs & ~r->rw));
            if (off == kWinHi && v == kDmaStartValue) {
                note.start = true;
                pend_set(15);
                forget(0x18C, 0x00FF);
            }
            return;
        }
        if (off == kSel) {
            set_known(off, 0x0007, v);
            sel = v & 7;
            sel_known = true;
            note.select = true;
            return;
        }
        for (unsigned t = 0; t < 2; ++t) {
            if (off == 0x20 + 0x10 * t) {
                timer_cfg(t, off, v);
                return;
            }
            if (off == 0x22 + 0x10 * t) {
                timer_event(t, off, v);
                return;
            }
        }
        for (unsigned i = 0; i < 3; ++i) {
            if (off == 0x0C0 + 4 * i) {
                reply[i] = v;
                reply_known[i] = true;
                r_ready[i] = 1;
                forget(off, 0xFFFF);
                refresh_status();
                note.mbox_send = true;
                return;
            }
            if (off == 0x0C2 + 4 * i)
                return;  // receive port: a write has no documented effect
        }
        for (unsigned i = 0; i < 2; ++i) {
            if (off == 0x2C6 + 0x80 * i) {
                note.fifo_send = true;
                if (fifo_n[i] >= 0) {
                    if (fifo_n[i] < (int)kFifoDepth)
                        ++fifo_n[i];
                    else
                        note.fifo_drop = true;
                    note.fifo_full = fifo_n[i] == (int)kFifoDepth;
                } else
                    fifo_n[i] = -2;
                refresh_status();
                return;
            }
            if (off == 0x2CA + 0x80 * i) {
                if (v & 4) {
                    fifo_n[i] = 0;
                    note.fifo_flush = true;
                } else {
                    fifo_n[i] = -1;  // TFL not set: the documents do not say; flushed or untouched
                    note.undoc_trigger = true;
                }
                refresh_status();
                return;
            }
            if (off == 0x2C8 + 0x80 * i) {
                forget((u16)(0x2C0 + 0x80 * i), 0x0018);
                return;
            }
        }
        switch (off) {
        case 0x0CC:
            sem_d2c |= v;
            sem_d2c_known |= v;
            forget(0x0CC, 0xFFFF);
            forget(0x0D8, 0x0200);
            return;
        case 0x0CE: {
            int before = s_doc();
            set_known(off, 0xFFFF, v);
            int after = s_doc();
            set_s(-1);  // "reflected in the S bit immediately" is C14's clause (known defect D11): not asserted here
            forget(0x0D8, 0x0200);
            if (before != 1 && after != 0)
                pend_maybe(14);
            return;
        }
        case 0x0D0:
            set_known(0x0D2, v, 0);
            set_s(s_doc());
            forget(0x0D8, 0x0200);
            return;
        case 0x202:
            set_known(0x200, v, 0);
            note.icu_ack = true;
            return;
        case 0x204:
            set_known(0x200, v, 0xFFFF);
            note.icu_trig = true;
            return;
        case kBase:
            set_known(off, 0xFC00, v);
            base_raw = v;
            note.reloc = true;
            return;
        default:
            break;
        }
        if (r->kind == K_STATUS) {
            forget(off, r->obs);  // writing a status register: effect on itself is left open
            refresh_status();
            return;
        }
        // plain read/write register
        set_known(off, r->rw, v);
        forget(off, (u16)(r->obs & ~r->rw));
    }

    // ---------------------------------------------------------------- explicit (non-MMIO-write) operations
    void host_send(unsigned i, u16 v) {
        static const unsigned ci[3] = {8, 12, 13};
        cmd[i] = v;
        cmd_known[i] = true;
        c_ready[i] = 1;
        int dis = bit(0x0D4, ci[i]);
        if (dis == 0)
            pend_set(14);
        else if (dis < 0)
            pend_maybe(14);
        refresh_status();
    }
    // DSP reads 0x0C2+4i : returns (known, value)
    bool dsp_recv(unsigned i, u16& v) {
        v = cmd[i];
        c_ready[i] = 0;
        refresh_status();
        return cmd_known[i];
    }
    bool host_recv(unsigned i, u16& v) {
        v = reply[i];
        r_ready[i] = 0;
        refresh_status();
        return reply_known[i];
    }
    void host_set_sem(u16 v) {
        int before = s_doc();
        set_known(0x0D2, v, 0xFFFF);
        int after = s_doc();
        set_s(after == 1 ? 1 : -1);
        forget(0x0D8, 0x0200);
        if (before == 0 && after == 1)
            pend_set(14);
        else if (after != 0)
            pend_maybe(14);
    }
    void host_clear_sem(u16 v) {
        sem_d2c &= (u16)~v;
        sem_d2c_known |= v;
        forget(0x0CC, 0xFFFF);
        forget(0x0D8, 0x0200);
    }
};

}  // namespace mmio
}  // namespace vf
