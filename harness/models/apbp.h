// Independent model of one APBP direction (A -> B), written from the C14 statement and apbp.md.
// It shares no code with /repo/src/apbp.*.
//
//   data channel i : A writes -> ready := 1, data := value, B is interrupted unless irq_disable[i];
//                    B reads  -> returns the most recently written value, ready := 0;
//                    peeking returns the value and changes nothing.
//   semaphore      : A sets bits (accumulate), B acknowledges bits (clear), B owns the mask;
//                    signal == ((semaphore & ~mask) != 0) at all times;
//                    B is interrupted whenever signal rises, never while it stays 0.
#pragma once
#include <cstdint>

namespace vf {
namespace model {

// what an operation demands of the peer's semaphore interrupt
enum class SemIrq { Forbidden, Required, Unconstrained };

struct ApbpDir {
    struct Chan {
        std::uint16_t data = 0;
        bool written = false; // the value is only defined after the first write
        bool ready = false;
        bool irq_disable = false;
    } ch[3];
    std::uint16_t sem = 0, mask = 0;

    bool signal() const { return (std::uint16_t)(sem & (std::uint16_t)~mask) != 0; }

    // returns true when the peer must be interrupted (exactly once), false when it must not
    bool send(unsigned i, std::uint16_t v) {
        ch[i].data = v;
        ch[i].written = true;
        ch[i].ready = true;
        return !ch[i].irq_disable;
    }
    std::uint16_t recv(unsigned i) {
        ch[i].ready = false;
        return ch[i].data;
    }
    std::uint16_t peek(unsigned i) const { return ch[i].data; }

    static SemIrq edge(bool before, bool after) {
        if (!before && after)
            return SemIrq::Required;
        if (!before && !after)
            return SemIrq::Forbidden;
        return SemIrq::Unconstrained;
    }
    SemIrq set(std::uint16_t bits) {
        bool b = signal();
        sem |= bits;
        return edge(b, signal());
    }
    SemIrq ack(std::uint16_t bits) {
        bool b = signal();
        sem &= (std::uint16_t)~bits;
        return edge(b, signal());
    }
    SemIrq set_mask(std::uint16_t bits) {
        bool b = signal();
        mask = bits;
        return edge(b, signal());
    }
};

} // namespace model
} // namespace vf
