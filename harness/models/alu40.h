// Independent model of the 40-bit accumulator ALU, written from the statement of property C03 and the
// Interpretation paragraph of DESIGN.md (C03). Nothing here is derived from the interpreter's code:
// values are handled as mathematical integers (__int128) and the flags are defined from the exact
// result, not from bit tricks on machine words.
//
//   r      exact 40-bit two's-complement result (or bitwise result) of the operands named by the form
//   fz     r == 0
//   fm     bit 39 of r (r < 0)
//   fe     r is not representable in 32 bits
//   fn     fz or (not fe and bit31 != bit30)
//   fc0    carry (add) / borrow (subtract) out of bit 39, operands taken as unsigned 40-bit numbers
//   fv     the mathematically exact sum/difference is not representable in 40 bits
//   fvl    latched: fvl |= fv
//   flm    set when write-side saturation replaces the result; otherwise unchanged
// Flags are those of r *before* saturation. Compare forms write flags only. Bitwise forms leave
// fc0 fv fvl flm alone and never saturate.
#pragma once
#include <cstdint>

namespace vf {
namespace alu40 {

using i128 = __int128;
using s64 = std::int64_t;
using u64 = std::uint64_t;
using u16 = std::uint16_t;
using u32 = std::uint32_t;

constexpr s64 kMax40 = (s64(1) << 39) - 1;
constexpr s64 kMin40 = -(s64(1) << 39);
constexpr s64 kMax32 = (s64(1) << 31) - 1;
constexpr s64 kMin32 = -(s64(1) << 31);
constexpr i128 kTwo40 = i128(1) << 40;

// the representative in [-2^39, 2^39) of v modulo 2^40
inline s64 wrap40(i128 v) {
    i128 m = v % kTwo40;
    if (m < 0)
        m += kTwo40;
    if (m > kMax40)
        m -= kTwo40;
    return (s64)m;
}
// v modulo 2^40 as a non-negative number
inline i128 unsigned40(s64 v) {
    i128 m = i128(v) % kTwo40;
    if (m < 0)
        m += kTwo40;
    return m;
}
inline bool fits40(i128 v) { return v >= kMin40 && v <= kMax40; }
inline bool fits32(s64 v) { return v >= kMin32 && v <= kMax32; }
inline unsigned bit(s64 v, unsigned n) { return (unsigned)((unsigned40(v) >> n) & 1); }

// ---- 16-bit operand conventions (Interpretation (i))
inline s64 ext_signed16(u16 w) { return w >= 0x8000 ? (s64)w - 0x10000 : (s64)w; }
inline s64 ext_unsigned16(u16 w) { return (s64)w; }
inline s64 ext_high16(u16 w) { return ext_signed16(w) * 65536; }

// ---- product register as a 40-bit operand: 33-bit signed {pe,p}, scaled as ps selects
inline s64 product40(u32 p, unsigned pe, unsigned ps) {
    s64 v = (s64)p - ((pe & 1) ? (s64(1) << 32) : 0); // two's complement: sign bit weighs -2^32
    switch (ps & 3) {
    case 0:
        return v;
    case 1: // halve, rounding toward minus infinity (arithmetic shift)
        return (v >= 0) ? v / 2 : -((-v + 1) / 2);
    case 2:
        return v * 2;
    default:
        return v * 4;
    }
}

struct Flags {
    unsigned fz = 0, fm = 0, fe = 0, fn = 0, fc0 = 0, fv = 0, fvl = 0, flm = 0;
};

enum class Kind {
    Add,  // acc + operand, stored (saturating)
    Sub,  // acc - operand, stored (saturating)
    Cmp,  // acc - operand, flags only
    Or,   // bitwise, stored exactly
    And,
    Xor,
    Load, // operand placed in the accumulator (copy / clr / clrr): no carry or overflow is produced
};

struct Out {
    bool writes = false; // accumulator written
    s64 stored = 0;      // value written (after saturation)
    s64 r = 0;           // the 40-bit result the flags describe
    Flags f;             // all eight flags after the instruction
    bool carry = false, overflow = false;
    int saturated = 0; // -1: replaced by -2^31, +1: replaced by 2^31-1
};

inline void describe(s64 r, Flags& f) {
    f.fz = r == 0;
    f.fm = r < 0;
    f.fe = !fits32(r);
    f.fn = f.fz || (!f.fe && bit(r, 31) != bit(r, 30));
}

// a: accumulator operand, b: the other operand, both already extended to signed 40-bit values
inline Out eval(Kind k, s64 a, s64 b, const Flags& pre, bool sata) {
    Out o;
    o.f = pre;
    bool arithmetic = false;
    switch (k) {
    case Kind::Add: {
        i128 exact = i128(a) + i128(b);
        o.r = wrap40(exact);
        o.carry = unsigned40(a) + unsigned40(b) >= kTwo40;
        o.overflow = !fits40(exact);
        arithmetic = true;
        o.writes = true;
        break;
    }
    case Kind::Sub:
    case Kind::Cmp: {
        i128 exact = i128(a) - i128(b);
        o.r = wrap40(exact);
        o.carry = unsigned40(a) < unsigned40(b); // borrow
        o.overflow = !fits40(exact);
        arithmetic = true;
        o.writes = k == Kind::Sub;
        break;
    }
    case Kind::Or:
        o.r = wrap40(unsigned40(a) | unsigned40(b));
        o.writes = true;
        break;
    case Kind::And:
        o.r = wrap40(unsigned40(a) & unsigned40(b));
        o.writes = true;
        break;
    case Kind::Xor:
        o.r = wrap40(unsigned40(a) ^ unsigned40(b));
        o.writes = true;
        break;
    case Kind::Load:
        o.r = wrap40(b);
        o.writes = true;
        break;
    }
    describe(o.r, o.f);
    if (arithmetic) {
        o.f.fc0 = o.carry;
        o.f.fv = o.overflow;
        if (o.overflow)
            o.f.fvl = 1;
    }
    o.stored = o.r;
    bool saturating = k == Kind::Add || k == Kind::Sub || k == Kind::Load;
    if (saturating && !sata && !fits32(o.r)) {
        o.saturated = o.r < 0 ? -1 : 1;
        o.stored = o.r < 0 ? kMin32 : kMax32;
        o.f.flm = 1;
    }
    return o;
}

} // namespace alu40
} // namespace vf
