// C12 — MMIO registers hold what was written and do not alias one another.
// Oracle: independent register-file model (models/mmio_map.h, transcribed from the *.md hardware notes) run
// in lock-step with a real Teakra instance. Every operation is a write of an arbitrary 16-bit value to an
// arbitrary MMIO offset through one of the two paths (DSP data access at mmio_base+off, host accessor at
// off + k*0x800), or one of a few explicit mailbox/semaphore operations of the host API. After EVERY
// operation the whole table of documented, side-effect-free registers is read back through one path
// (alternating) and compared with the model:
//   readback:<reg>        the register just written does not show the documented R/W bits just written
//   alias:<reg><-<cause>  a register the model did not change shows different documented bits
//   window:<reg><-0x1be   after a channel select the window does not show that channel's copy
// Only the documented bits (per-register masks) are compared. Nothing is executed (no Run / ticks).
#include <csignal>
#include <deque>
#include "teakra/teakra.h"
#include "core_shim.h"
#include "worker.h"
#include "models/mmio_map.h"

using namespace vf;
using namespace vf::mmio;

#if defined(__has_feature)
#if __has_feature(address_sanitizer)
#define C12_ASAN 1
#endif
#endif

namespace {

// ---- context of the operation in flight, for the crash reporter (fast flavour only: the sanitizer
// flavour reports through the sanitizer and the driver's crash_is_violation)
Ctx* g_ctx = nullptr;
u64 g_case = 0;
const char* g_phase = "idle";
char g_cause[64] = "none";
char g_hist[1024] = "";

[[maybe_unused]] void on_fault(int sig) {
    static volatile sig_atomic_t once = 0;
    if (once)
        _exit(3);
    once = 1;
    std::string key = fmt("segv:%s<-%s", g_phase, g_cause);
    JObj j;
    j.num("signal", sig).str("phase", g_phase).str("after", g_cause).str("history_tail", g_hist);
    g_ctx->violation(key, fmt("fatal signal %d in the real code during %s following %s", sig, g_phase, g_cause),
                     g_case, j.done());
    g_ctx->finish();
    _exit(0);
}

struct Step {
    enum T : u8 { WRITE, HOST_SEND, DSP_RECV, HOST_RECV, HOST_SET_SEM, HOST_GET_SEM, HOST_CLR_SEM, ZPAGE_PROBE } t;
    u16 off;
    u16 v;
    int force_path;  // -1 free, 0 host, 1 dsp
};

std::string canon(const Model& m, u16 off) {
    const Reg* r = m.reg(off);
    if (!r)
        return "undoc";
    if (r->stride)
        return fmt("0x%03x+%un", off - r->inst * r->stride, r->stride);
    return fmt("0x%03x", off);
}

u16 any16(Rng& g) {
    return g.chance(1, 2) ? g.edge16() : (u16)g.bits(16);
}

// value generator: arbitrary 16-bit values everywhere, biased per register so that the documented couplings
// fire often and the DSP data path stays usable most of the time
u16 value_for(Rng& g, u16 off) {
    switch (off) {
    case 0x20:
    case 0x30: {
        u16 v = any16(g);
        if (g.chance(7, 10))
            v = (u16)((v & ~0x1C) | (g.below(4) << 2));
        return v;
    }
    case 0x22:
    case 0x32: {
        unsigned k = (unsigned)g.below(20);
        return k < 12 ? 1 : k < 15 ? 0 : k < 18 ? (u16)(any16(g) | 1) : any16(g);
    }
    case 0x2CA:
    case 0x34A: {
        unsigned k = (unsigned)g.below(10);
        return k < 7 ? 4 : k < 8 ? 0xFFFF : k < 9 ? (u16)(any16(g) | 4) : any16(g);
    }
    case kSel:
        return g.chance(7, 10) ? (u16)g.below(8) : any16(g);
    case kBase:
        return g.chance(3, 4) ? (u16)(g.below(64) << 10) : any16(g);
    case 0x112:
        return g.chance(3, 5) ? 0 : any16(g);
    case 0x11A:
        return g.chance(3, 5) ? (u16)(any16(g) & ~0x40) : any16(g);
    case kWinHi:
        return g.chance(1, 5) ? kDmaStartValue : any16(g);
    default:
        return any16(g);
    }
}

} // namespace

int main(int argc, char** argv) {
    Ctx ctx;
    ctx.parse(argc, argv, "C12");
    g_ctx = &ctx;
#ifndef C12_ASAN
    std::signal(SIGSEGV, on_fault);
    std::signal(SIGBUS, on_fault);
#endif
    const unsigned random_ops = (unsigned)ctx.opt_u64("ops", 800);

    for (u64 c = 0; c < ctx.cases; ++c) {
        if (!ctx.selected(c))
            continue;
        g_case = c;
        Rng g = ctx.case_rng(c);
        Teakra::Teakra T{Teakra::UserConfig{}};
        Model M;
        std::deque<std::string> hist;
        std::deque<Step> script;
        bool bad = false;
        u64 op_no = 0;

        auto log = [&](const std::string& s) {
            hist.push_back(s);
            if (hist.size() > 30)
                hist.pop_front();
            std::string h;
            for (auto& x : hist)
                h += x + "; ";
            if (h.size() >= sizeof g_hist)
                h = h.substr(h.size() - sizeof g_hist + 1);
            std::snprintf(g_hist, sizeof g_hist, "%s", h.c_str());
        };
        auto history = [&] {
            std::string h;
            for (auto& x : hist)
                h += x + "; ";
            return h;
        };
        auto fail = [&](const std::string& key, const std::string& what, JObj j) {
            if (bad)
                return;
            bad = true;
            j.str("history_tail", history());
            j.unum("op", op_no).unum("selected_channel", M.sel).hexs("mmio_base", M.base_raw);
            ctx.violation(key, what, c, j.done());
        };

        // ---- one read-back sweep of every documented side-effect-free register
        // cause: canonical name of what was just done; woff: offset just written (0xFFFF: not a write)
        auto sweep = [&](bool want_dsp, const std::string& cause, u16 woff, u16 wval, bool wdoc) {
            unsigned k = (unsigned)((op_no * 7 + 3) & 31);
            const Reg* cur = nullptr;
            bool cur_dsp = false;
            u64 compared = 0, rw_compared = 0;
            g_phase = "sweep";
            RunResult rr = Classify([&] {
                for (const Reg& r : M.regs) {
                    if (!r.sweep)
                        continue;
                    cur = &r;
                    cur_dsp = want_dsp && M.dsp_reachable(r.off);
                    u16 got = cur_dsp ? T.DataRead(M.dsp_addr(r.off)) : T.MMIORead((u16)(r.off + 0x800 * ((k + r.off) & 31)));
                    u16 ev, ek;
                    M.expect(r.off, ev, ek);
                    u16 diff = (u16)((got ^ ev) & ek & r.obs);
                    if (diff) {
                        std::string rc = canon(M, r.off), key;
                        bool self = woff == r.off;
                        if (self)
                            key = "readback:" + rc;
                        else if (woff == kSel && Model::in_window(r.off))
                            // a select value outside 0..7 that is not reduced to 3 bits indexes arbitrary memory:
                            // which register differs first is accidental, so it is not part of the key
                            key = wval > 7 ? std::string("window:0x1c0..0x1de<-0x1be:sel>7") : "window:" + rc + "<-0x1be:sel<8";
                        else {
                            key = "alias:" + rc + "<-" + cause;
                            const Reg* w = woff == 0xFFFF ? nullptr : M.reg(woff);
                            if (w && w->stride && w->stride == r.stride && w->inst != r.inst)
                                key += ":cross";
                            if (woff != 0xFFFF && !wdoc) {
                                // write to an undocumented offset: the key names how that offset relates to the
                                // nearest documented one (single address bit), not the register that moved, so a
                                // decoding defect gives one key instead of one per register
                                key = std::string("alias:<-undoc:") + ((woff & 1) ? "odd" : "even");
                                for (unsigned b = 0; b < 11; ++b)
                                    if (M.reg((u16)(woff ^ (1u << b)))) {
                                        key = fmt("alias:<-undoc:^0x%03x", 1u << b);
                                        break;
                                    }
                            }
                        }
                        JObj j;
                        j.str("register", fmt("0x%03x %s", r.off, r.name)).str("after", cause);
                        j.hexs("expected", ev).hexs("actual", got).hexs("compared_mask", (u16)(ek & r.obs));
                        j.hexs("differing_bits", diff).str("read_path", cur_dsp ? "dsp" : "host");
                        if (woff != 0xFFFF)
                            j.hexs("written_offset", woff).hexs("written_value", wval);
                        fail(key,
                             self ? fmt("%s (0x%03x) does not read back the value written: wrote %04x, documented bits "
                                        "expected %04x, read %04x (mask %04x)",
                                        r.name, r.off, wval, ev & ek & r.obs, got & ek & r.obs, ek & r.obs)
                                  : fmt("%s (0x%03x) changed from %04x to %04x (mask %04x) after %s, which has no "
                                        "documented coupling to it",
                                        r.name, r.off, ev & ek & r.obs, got & ek & r.obs, ek & r.obs, cause.c_str()),
                             j);
                        return;
                    }
                    M.learn(r.off, got);
                    ++compared;
                    if (ek & r.rw)
                        ++rw_compared;
                }
                // host API views of the same register fields (teakra.h): a third path to the stored value
                cur = nullptr;
                auto view = [&](u16 off, u16 ev, u16 ek, u16 mask, unsigned shift, u16 got, const char* api) {
                    if (bad || (ek & mask) != mask)
                        return;
                    ++compared;
                    u16 want = (u16)((ev & mask) >> shift);
                    if ((got & (mask >> shift)) == want)
                        return;
                    const Reg* r = M.reg(off);
                    JObj j;
                    j.str("register", fmt("0x%03x %s", off, r->name)).str("after", cause).str("api", api);
                    j.hexs("expected", want).hexs("actual", got).hexs("field_mask", mask);
                    fail("hostview:" + canon(M, off),
                         fmt("%s reports %04x, the field %04x of %s (0x%03x) holds %04x", api, got, mask, r->name, off, want), j);
                };
                for (u16 i = 0; i < 3; ++i) {
                    u16 a = (u16)(0x0E2 + 6 * i), b = (u16)(0x0E4 + 6 * i), d = (u16)(0x0E6 + 6 * i);
                    view(a, M.val[a], M.known[a], 0x0030, 4, T.AHBMGetUnitSize(i), "AHBMGetUnitSize");
                    view(b, M.val[b], M.known[b], 0x0100, 8, T.AHBMGetDirection(i), "AHBMGetDirection");
                    view(d, M.val[d], M.known[d], 0x00FF, 0, T.AHBMGetDmaChannel(i), "AHBMGetDmaChannel");
                }
                // channel 0's copy, whatever channel is selected (the accessor selects 0 and restores the selection)
                view(0x1C2, M.cval[0][1], M.cknown[0][1], 0xFFFF, 0, T.DMAChan0GetSrcHigh(), "DMAChan0GetSrcHigh");
                view(0x1C6, M.cval[0][3], M.cknown[0][3], 0xFFFF, 0, T.DMAChan0GetDstHigh(), "DMAChan0GetDstHigh");
            });
            g_phase = "idle";
            if (rr.outcome != OK && !bad) {
                JObj j;
                j.str("register", cur ? fmt("0x%03x %s", cur->off, cur->name) : "?").str("what", rr.what);
                fail(fmt("outcome:%s:read:%s", outcome_name(rr.outcome), cur ? canon(M, cur->off).c_str() : "?"),
                     fmt("reading %s through the %s path ended in %s (%s)", cur ? cur->name : "?",
                         cur_dsp ? "dsp" : "host", outcome_name(rr.outcome), rr.what.c_str()),
                     j);
            }
            ctx.count("regs_compared", compared);
            ctx.count("rw_regs_compared", rw_compared);
            ctx.count(want_dsp && M.dsp_path_ok() ? "sweeps_dsp" : "sweeps_host");
            return !bad;
        };

        // ---- scripted sequences (each element is executed as an ordinary operation with its own sweep)
        auto push_w = [&](u16 off, u16 v, int path = -1) { script.push_back(Step{Step::WRITE, off, v, path}); };
        auto script_init = [&] {
            // distinct contents in every channel copy and every plain register, so that aliasing is visible
            unsigned order[8] = {0, 1, 2, 3, 4, 5, 6, 7};
            for (unsigned i = 7; i > 0; --i)
                std::swap(order[i], order[g.below(i + 1)]);
            for (unsigned ch : order) {
                push_w(kSel, (u16)ch);
                for (u16 off = kWinLo; off < kWinHi; off += 2)
                    push_w(off, (u16)(g.bits(16) | 0x0100));
                push_w(kWinHi, (u16)(g.bits(16) & ~0x4000));
            }
            for (const Reg& r : M.regs) {
                if (r.kind != K_RW || r.off == 0x112 || r.off == 0x11A || r.off == kBase)
                    continue;
                push_w(r.off, (r.off == 0x20 || r.off == 0x30) ? (u16)(g.bits(16) & ~0x0410) : (u16)g.bits(16));
            }
            push_w(0x2CA, 4);
            push_w(0x34A, 4);
            push_w(0x112, 0, 0);
            push_w(0x11A, (u16)(g.bits(16) & ~0x40), 0);
        };
        auto script_start = [&] {
            push_w(0x1C2, (u16)g.below(2));
            push_w(0x1C6, (u16)g.below(2));
            push_w(0x1C8, (u16)g.below(2));
            push_w(0x1CA, (u16)g.below(2));
            push_w(0x1CC, (u16)g.below(2));
            push_w(0x1DA, (u16)(g.below(2) << 10));
            push_w(kWinHi, kDmaStartValue);
        };
        auto script_timer = [&] {
            u16 b = (u16)(0x20 + 0x10 * g.below(2));
            unsigned n = (unsigned)g.range(1, 5);
            u16 undoc = (u16)(g.bits(16) & 0x24A0);  // CT, GP, bit 5: not asserted
            unsigned cm = g.chance(3, 4) ? 3 : (unsigned)g.below(4);
            push_w((u16)(b + 4), (u16)n);
            push_w((u16)(b + 6), g.chance(1, 8) ? 1 : 0);
            push_w(b, (u16)(undoc | (g.below(4) << 14) | (cm << 2) | (g.chance(7, 8) ? 0x200 : 0) | 0x400 |
                            (g.chance(1, 10) ? 0x100 : 0)));
            for (unsigned i = 0; i < n + (unsigned)g.below(3); ++i)
                push_w((u16)(b + 2), 1);
        };
        auto script_fifo = [&] {
            u16 b = (u16)(0x280 + 0x80 * g.below(2));
            if (g.chance(1, 3))
                push_w((u16)(b + 0x4A), 4);
            unsigned n = g.chance(1, 2) ? (unsigned)g.range(14, 19) : (unsigned)g.range(1, 6);
            for (unsigned i = 0; i < n; ++i)
                push_w((u16)(b + 0x46), any16(g));
        };
        auto script_fix_path = [&] {
            if (!M.base_aligned())
                push_w(kBase, (u16)(g.below(64) << 10), 0);
            if (!(M.known[0x112] == 0xFFFF && M.val[0x112] == 0))
                push_w(0x112, 0, 0);
            if (!((M.known[0x11A] & 0x40) && !(M.val[0x11A] & 0x40)))
                push_w(0x11A, (u16)(M.val[0x11A] & ~0x40), 0);
        };
        auto draw = [&]() -> Step {
            unsigned k = (unsigned)g.below(1000);
            if (k < 600) {  // documented register
                const Reg& r = M.regs[g.below(M.regs.size())];
                return Step{Step::WRITE, r.off, value_for(g, r.off), -1};
            }
            if (k < 680) {  // a DMA window register (extra weight)
                u16 off = (u16)(kWinLo + 2 * g.below(16));
                return Step{Step::WRITE, off, value_for(g, off), -1};
            }
            if (k < 760)
                return Step{Step::WRITE, kSel, value_for(g, kSel), -1};
            if (k < 830) {  // near miss of a documented offset: one address bit flipped, or the odd neighbour
                const Reg& r = M.regs[g.below(M.regs.size())];
                u16 off = (u16)(r.off ^ (1u << g.below(11)));
                return Step{Step::WRITE, off, any16(g), -1};
            }
            if (k < 860)
                return Step{Step::WRITE, (u16)g.below(kSize), any16(g), -1};
            if (k < 880)
                return Step{Step::WRITE, kBase, value_for(g, kBase), -1};
            if (k < 900)
                return Step{Step::HOST_SEND, (u16)g.below(3), any16(g), -1};
            if (k < 920)
                return Step{Step::DSP_RECV, (u16)g.below(3), 0, -1};
            if (k < 935)
                return Step{Step::HOST_RECV, (u16)g.below(3), 0, -1};
            if (k < 950)
                return Step{Step::HOST_SET_SEM, 0, any16(g), -1};
            if (k < 957)
                return Step{Step::HOST_GET_SEM, 0, 0, -1};
            if (k < 964)
                return Step{Step::HOST_CLR_SEM, 0, any16(g), -1};
            if (k < 972)
                return Step{Step::ZPAGE_PROBE, 0, 0, -1};
            if (k < 980)
                script_start();
            else if (k < 990)
                script_timer();
            else
                script_fifo();
            Step s = script.front();
            script.pop_front();
            return s;
        };

        // ---- initial read-back through the host path: learns what the documents do not specify
        log("initial sweep");
        sweep(false, "construction", 0xFFFF, 0, false);
        script_init();
        const u64 init_ops = script.size();
        u64 budget = init_ops + random_ops;

        for (op_no = 1; op_no <= budget && !bad; ++op_no) {
            Step s;
            if (!script.empty()) {
                s = script.front();
                script.pop_front();
            } else {
                if (!M.dsp_path_ok() && g.chance(1, 3))
                    script_fix_path();
                if (!script.empty()) {
                    s = script.front();
                    script.pop_front();
                } else
                    s = draw();
            }
            bool want_dsp_sweep = (op_no & 1) != 0;
            std::string cause;
            RunResult rr;
            u16 woff = 0xFFFF, wval = 0;
            bool wdoc = false;

            switch (s.t) {
            case Step::WRITE: {
                u16 off = (u16)(s.off & (kSize - 1)), v = s.v;
                const Reg* r = M.reg(off);
                // values that leave the documented / executable domain are stored but never executed
                if ((off == 0x20 || off == 0x30) && ((v >> 2) & 7) >= 4)
                    v &= (u16)~0x0400;  // no restart in a watchdog count mode (deliberate assertion)
                if (off == kWinHi && v == kDmaStartValue && !M.start_safe())
                    v = (u16)(v ^ (1u << g.below(16)));  // keep DMA starts inside DSP data memory
                bool dsp = s.force_path < 0 ? (M.dsp_reachable(off) && g.chance(1, 2)) : (s.force_path == 1 && M.dsp_reachable(off));
                unsigned k = (unsigned)g.below(32);
                wdoc = r != nullptr;
                woff = off;
                wval = v;
                cause = wdoc ? canon(M, off) : std::string("undoc");
                std::snprintf(g_cause, sizeof g_cause, "%s%s", cause.c_str(), off == kSel && v > 7 ? ":sel>7" : "");
                log(fmt("%s 0x%03x=%04x%s", dsp ? "wd" : "wh", off, v, off == kSel ? fmt(" (ch %u)", v & 7).c_str() : ""));
                u16 dsp_address = M.dsp_addr(off);
                M.write(off, v);
                g_phase = "write";
                rr = Classify([&] {
                    if (dsp)
                        T.DataWrite(dsp_address, v);
                    else
                        T.MMIOWrite((u16)(off + 0x800 * k), v);
                });
                g_phase = "idle";
                ctx.count("writes");
                ctx.count(dsp ? "writes_dsp" : "writes_host");
                if (!dsp)
                    ctx.seen("mirror", fmt("%u", k));
                if (!wdoc)
                    ctx.count("writes_undocumented");
                if (rr.outcome != OK) {
                    JObj j;
                    j.hexs("written_offset", off).hexs("written_value", v).str("what", rr.what);
                    fail(fmt("outcome:%s:write:%s", outcome_name(rr.outcome), cause.c_str()),
                         fmt("writing %04x to 0x%03x through the %s path ended in %s (%s)", v, off, dsp ? "dsp" : "host",
                             outcome_name(rr.outcome), rr.what.c_str()),
                         j);
                    break;
                }
                if (wdoc)
                    ctx.seen("nt", "w:" + cause + (dsp ? ":dsp" : ":host"));
                else
                    ctx.seen("nt", std::string("w:undoc:") + ((off & 1) ? "odd" : "even"));
                const Model::Note& n = M.note;
                if (n.restart) {
                    ctx.count("timer_restarts");
                    ctx.seen("nt", fmt("cpl:restart:cm%u:mu%u:%s", (v >> 2) & 7, (v >> 9) & 1, n.restart_loaded ? "loaded" : "open"));
                }
                if (n.event_dec) {
                    ctx.count("timer_event_decrements");
                    ctx.seen("nt", "cpl:event:dec");
                }
                if (n.event_irq) {
                    ctx.count("timer_event_irqs");
                    ctx.seen("nt", fmt("cpl:event:irq:t%u", off == 0x22 ? 0 : 1));
                }
                if (n.start) {
                    ctx.count("dma_starts");
                    ctx.seen("nt", fmt("cpl:start:ch%u", M.sel));
                }
                if (n.select) {
                    ctx.count("selects");
                    ctx.count(v > 7 ? "selects_wide_value" : "selects_in_range");
                    ctx.seen("nt", fmt("cpl:select:ch%u:%s", M.sel, v > 7 ? "wide" : "plain"));
                }
                if (n.reloc) {
                    ctx.count("relocations");
                    ctx.count(M.base_aligned() ? "relocations_aligned" : "relocations_unaligned");
                    ctx.seen("nt", fmt("cpl:reloc:%s", M.base_aligned() ? fmt("%04x", M.base_raw).c_str() : "unaligned"));
                }
                if (n.icu_trig) {
                    ctx.count("icu_triggers");
                    ctx.seen("nt", "cpl:icu:trigger");
                }
                if (n.icu_ack) {
                    ctx.count("icu_acks");
                    ctx.seen("nt", "cpl:icu:ack");
                }
                if (n.fifo_send) {
                    ctx.count("fifo_sends");
                    ctx.seen("nt", "cpl:fifo:send");
                }
                if (n.fifo_full) {
                    ctx.count("fifo_full_seen");
                    ctx.seen("nt", "cpl:fifo:full");
                }
                if (n.fifo_drop)
                    ctx.count("fifo_drops");
                if (n.fifo_flush) {
                    ctx.count("fifo_flushes");
                    ctx.seen("nt", "cpl:fifo:flush");
                }
                if (n.mbox_send) {
                    ctx.count("mailbox_replies");
                    ctx.seen("nt", fmt("cpl:reply:%u", (off - 0xC0) / 4));
                }
                if (n.undoc_trigger)
                    ctx.count("trigger_value_outside_documented_bits");
                break;
            }
            case Step::HOST_SEND:
                cause = "op:host-send";
                log(fmt("host SendData(%u,%04x)", s.off, s.v));
                std::snprintf(g_cause, sizeof g_cause, "%s", cause.c_str());
                M.host_send(s.off, s.v);
                rr = Classify([&] { T.SendData((u8)s.off, s.v); });
                ctx.count("host_sends");
                ctx.seen("nt", fmt("cpl:cmd:%u", s.off));
                break;
            case Step::DSP_RECV: {
                cause = "op:dsp-recv";
                u16 off = (u16)(0x0C2 + 4 * s.off), exp = 0, got = 0;
                bool dsp = M.dsp_reachable(off) && g.chance(1, 2);
                log(fmt("%s 0x%03x", dsp ? "rd" : "rh", off));
                std::snprintf(g_cause, sizeof g_cause, "%s", cause.c_str());
                bool k = M.dsp_recv(s.off, exp);
                rr = Classify([&] { got = dsp ? T.DataRead(M.dsp_addr(off)) : T.MMIORead((u16)(off + 0x800 * g.below(32))); });
                ctx.count("mailbox_receives");
                if (rr.outcome == OK && k) {
                    ctx.seen("nt", fmt("cpl:recv:%u", s.off));
                    if (got != exp) {
                        JObj j;
                        j.hexs("expected", exp).hexs("actual", got);
                        fail("recv:0x0c2+4n", fmt("CMD%u read %04x, the host last wrote %04x", s.off, got, exp), j);
                    }
                }
                break;
            }
            case Step::HOST_RECV: {
                cause = "op:host-recv";
                u16 exp = 0, got = 0;
                log(fmt("host RecvData(%u)", s.off));
                std::snprintf(g_cause, sizeof g_cause, "%s", cause.c_str());
                bool k = M.host_recv(s.off, exp);
                rr = Classify([&] { got = T.RecvData((u8)s.off); });
                ctx.count("host_receives");
                if (rr.outcome == OK && k) {
                    ctx.seen("nt", fmt("cpl:hostrecv:%u", s.off));
                    if (got != exp) {
                        JObj j;
                        j.hexs("expected", exp).hexs("actual", got);
                        fail("host-recv:0x0c0+4n", fmt("host read %04x from REPLY%u, the DSP last wrote %04x", got, s.off, exp), j);
                    }
                }
                break;
            }
            case Step::HOST_SET_SEM:
                cause = "op:host-set-semaphore";
                log(fmt("host SetSemaphore(%04x)", s.v));
                std::snprintf(g_cause, sizeof g_cause, "%s", cause.c_str());
                M.host_set_sem(s.v);
                rr = Classify([&] { T.SetSemaphore(s.v); });
                ctx.count("host_semaphore_ops");
                ctx.seen("nt", "cpl:sem:set");
                break;
            case Step::HOST_CLR_SEM:
                cause = "op:host-clear-semaphore";
                log(fmt("host ClearSemaphore(%04x)", s.v));
                std::snprintf(g_cause, sizeof g_cause, "%s", cause.c_str());
                M.host_clear_sem(s.v);
                rr = Classify([&] { T.ClearSemaphore(s.v); });
                ctx.count("host_semaphore_ops");
                break;
            case Step::HOST_GET_SEM: {
                cause = "op:host-get-semaphore";
                u16 got = 0;
                log("host GetSemaphore()");
                std::snprintf(g_cause, sizeof g_cause, "%s", cause.c_str());
                rr = Classify([&] { got = T.GetSemaphore(); });
                ctx.count("host_semaphore_ops");
                if (rr.outcome == OK && M.sem_d2c_known) {
                    ctx.seen("nt", "cpl:sem:get");
                    if ((got ^ M.sem_d2c) & M.sem_d2c_known) {
                        JObj j;
                        j.hexs("expected", M.sem_d2c).hexs("actual", got).hexs("compared_mask", M.sem_d2c_known);
                        fail("host-sem:0x0cc", fmt("host sees semaphore %04x, SET_SEMAPHORE history gives %04x (mask %04x)", got,
                                                   M.sem_d2c, M.sem_d2c_known), j);
                    }
                }
                break;
            }
            case Step::ZPAGE_PROBE: {
                // Interpretation: with z_page != 0 a data access into the window ends in the deliberate
                // ASSERT(z_page == 0); expected, counted, nothing is compared
                if (!M.zpage_nonzero() || (u32)M.base_raw + 0x24 > 0xFFFF)
                    continue;
                cause = "op:zpage-probe";
                log("probe data read with z_page != 0");
                std::snprintf(g_cause, sizeof g_cause, "%s", cause.c_str());
                RunResult pr = Classify([&] { (void)T.DataRead(M.dsp_addr(0x24)); });
                ctx.count(pr.outcome == ASSERT_ ? "zpage_deliberate_assertions" : "zpage_probe_no_assertion");
                if (pr.outcome != OK && pr.outcome != ASSERT_)
                    rr = pr;
                break;
            }
            }
            if (bad)
                break;
            if (rr.outcome != OK) {
                JObj j;
                j.str("what", rr.what);
                fail(fmt("outcome:%s:%s", outcome_name(rr.outcome), cause.c_str()),
                     fmt("%s ended in %s (%s)", cause.c_str(), outcome_name(rr.outcome), rr.what.c_str()), j);
                break;
            }
            ctx.count("ops");
            sweep(want_dsp_sweep, cause, woff, wval, wdoc);
        }
        ctx.count("cases");
        if (!bad)
            ctx.count("cases_completed");
        if (!bad && c < 2)
            ctx.sample(JObj().num("case", (s64)c).unum("ops", op_no - 1).unum("init_ops", init_ops).str("history_tail", history()).done());
    }
    return ctx.finish();
}
