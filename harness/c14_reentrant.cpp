// C14 (additional monitor) — the signal flag always equals ((semaphore AND NOT mask) != 0), also when the host's
// semaphore handler calls back into the API (GetSemaphore / ClearSemaphore / MaskSemaphore from inside the callback),
// which the API explicitly allows (see C19). Invariant monitor on the real Teakra facade: after every operation the
// DSP->CPU flag (MMIO 0x0D8 bit 9, S') is compared with the expression evaluated on the values read back through the
// API, and a handler invocation is demanded on every observed rise of that expression.
#include "core_shim.h"
#include "teakra/teakra.h"
#include "worker.h"

using namespace vf;

int main(int argc, char** argv) {
    Ctx ctx;
    ctx.parse(argc, argv, "C14");
    for (u64 c = 0; c < ctx.cases; ++c) {
        if (!ctx.selected(c))
            continue;
        Rng g = ctx.case_rng(c);
        Teakra::UserConfig cfg;
        Teakra::Teakra t(cfg);
        t.Reset();
        u16 mask = 0;        // CPU-side mask of the DSP->CPU semaphore (host MaskSemaphore)
        u64 handler_calls = 0;
        unsigned style = (unsigned)g.below(6); // what the re-entrant handler does
        Rng hg(g.next());
        std::string hist;
        bool bad = false;
        int depth = 0;
        // Every call that can raise the flag goes through these wrappers, at top level and from inside the handler: the
        // flag rises across the call iff it was 0 before and the call's own effect makes (semaphore & ~mask) non-zero;
        // then the handler must have been entered (at least once more) before the call returned.
        auto expr = [&] { return (t.GetSemaphore() & ~mask) != 0; };
        auto demand = [&](const char* what, bool before, bool after_pred, u64 calls_before) {
            ctx.count("edge_checks");
            if (!before && after_pred) {
                ctx.count(depth ? "rises_inside_handler" : "rises_at_top_level");
                if (handler_calls == calls_before && !bad) {
                    bad = true;
                    ctx.violation(fmt("reentrant:sem-irq-missed:%s:%s", what, depth ? "inside-handler" : "top-level"),
                                  fmt("%s raised the flag (semaphore & ~mask became non-zero) %s but the host handler was not invoked", what,
                                      depth ? "from inside the running handler" : "at top level"),
                                  c, JObj().str("history", hist).num("handler_style", style).num("handler_depth", depth).done());
                }
            }
        };
        auto api_mask = [&](u16 m) {
            bool before = expr();
            bool pred = (t.GetSemaphore() & ~m) != 0;
            u64 c0 = handler_calls;
            mask = m;
            t.MaskSemaphore(m);
            demand("MaskSemaphore", before, pred, c0);
        };
        auto dsp_set = [&](u16 v) {
            bool before = expr();
            bool pred = ((t.GetSemaphore() | v) & ~mask) != 0;
            u64 c0 = handler_calls;
            t.MMIOWrite(0x0CC, v);
            demand("dsp-set", before, pred, c0);
        };
        t.SetSemaphoreHandler([&] {
            ++handler_calls;
            if (depth > 20)
                return;
            ++depth;
            ctx.maxv("max_handler_nesting", (u64)depth);
            u16 s = t.GetSemaphore();
            switch (style) {
            case 0: t.ClearSemaphore(s); break;                              // acknowledge everything
            case 1: t.ClearSemaphore((u16)(s & hg.bits(16))); break;         // acknowledge a subset
            case 2: break;                                                   // only look
            case 3:                                                          // acknowledge, sometimes re-mask
                t.ClearSemaphore(s);
                if (hg.chance(1, 4))
                    api_mask((u16)hg.bits(16));
                break;
            case 4: { // "mask everything, service one bit, unmask": the remaining bits raise the flag again from inside
                api_mask(0xFFFF);
                u16 one = 0;
                for (unsigned b = 0; b < 16 && !one; ++b)
                    if (s & (1u << b))
                        one = (u16)(1u << b);
                t.ClearSemaphore(one);
                api_mask(0);
                break;
            }
            case 5: // acknowledge what was visible, then unmask: bits that were set while masked raise the flag from inside
                t.ClearSemaphore((u16)(s & ~mask));
                api_mask(0);
                break;
            }
            --depth;
        });
        bool prev_flag = false;
        for (unsigned op = 0; op < 200 && !bad; ++op) {
            unsigned k = (unsigned)g.below(10);
            u16 v = g.chance(1, 2) ? (u16)(1u << g.below(16)) : (u16)g.bits(16);
            u64 calls0 = handler_calls;
            const char* name;
            RunResult rr = Classify([&] {
                if (k < 5) {
                    name = "dsp-set";
                    dsp_set(v);
                } else if (k < 7) {
                    name = "host-mask";
                    api_mask(v);
                } else if (k < 9) {
                    name = "host-ack";
                    t.ClearSemaphore(v);
                } else {
                    name = "host-unmask";
                    api_mask(0);
                }
            });
            if (hist.size() < 1200)
                hist += fmt("%s(%04x) ", name, v);
            ctx.count("ops");
            ctx.count(std::string("op_") + name);
            if (rr.outcome != OK) {
                ctx.violation(std::string("reentrant:outcome:") + name, "API call ended in " + rr.what, c, JObj().str("history", hist).done());
                break;
            }
            u16 sem = t.GetSemaphore();
            bool expect = (sem & ~mask) != 0;
            bool flag = (t.MMIORead(0x0D8) >> 9) & 1;
            ctx.count(handler_calls != calls0 ? "ops_with_reentrant_handler_call" : "ops_without_handler_call");
            ctx.seen("nt", fmt("%s:style%u:handler=%d:flag=%d", name, style, handler_calls != calls0, (int)expect));
            if (flag != expect) {
                bad = true;
                ctx.violation(fmt("reentrant:signal-flag:%s:handler=%d", name, handler_calls != calls0),
                              fmt("S' = %d but (semaphore %04x & ~mask %04x) != 0 is %d after %s", (int)flag, sem, mask, (int)expect, name), c,
                              JObj().str("history", hist).num("handler_style", style).done());
            }
            // a rise of the expression across an operation in which the handler did not run is a missed interrupt
            // (when the handler ran it may itself have lowered the flag again, so only this direction is demanded)
            if (!bad && expect && !prev_flag && handler_calls == calls0) {
                bad = true;
                ctx.violation(fmt("reentrant:sem-irq-missed:%s", name), "the flag rose but the host handler was not invoked", c,
                              JObj().str("history", hist).done());
            }
            prev_flag = expect;
        }
        ctx.count("cases");
        if (!bad && c < 2)
            ctx.sample(JObj().str("mode", "reentrant").num("handler_style", style).num("handler_calls", (s64)handler_calls).str("history", hist.substr(0, 500)).done());
    }
    return ctx.finish();
}
