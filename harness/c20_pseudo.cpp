// C20 — status/config words are faithful bit-field views of one register state; ar/arp mean the same to the
// interpreter, the annotated disassembler and the test generator.
// Oracle: models/pseudo_regs.h (layout table transcribed from the documentation / verifier symbol strings).
//  A. complete: every word x every 16-bit value, from several random well-formed states: Set<W>(v) on the real
//     RegisterState, whole state compared with the model's prediction, then every word read back and compared
//     with the composition of the model's fields. A sample of the values goes through real instructions
//     (mov/push/pop/mov_icr forms) on the bare interpreter.
//  B. complete: every value of ar0/1, arp0-3: the word is written through the real Set<W>; instructions with
//     ArRn/ArStep/ArpRn/ArpStep operands show which register moves, by how much, and where the offset access
//     goes; the annotated disassembler prints the same opcode; both are compared with the table's decoding.
//  C. the test generator's stream: a record whose opcode addresses memory through ArRn/ArpRn must have the
//     register that the table's decoding of before.ar/arp selects pinned into a test window.
#include <algorithm>
#include <thread>
#include <fcntl.h>
#include "exec.h"
#include "models/pseudo_regs.h"
#include "models/step.h"
#include "teakra/disassembler.h"
#include "test.h"
#include "test_generator.h"

using namespace vf;

namespace {

struct WordApi {
    const char* name;
    u16 (*get)(const Teakra::RegisterState&);
    void (*set)(Teakra::RegisterState&, u16);
};
#define VF_W(x)                                                                                     \
    WordApi{#x, [](const Teakra::RegisterState& r) -> u16 { return r.Get<Teakra::x>(); },          \
            [](Teakra::RegisterState& r, u16 v) { r.Set<Teakra::x>(v); }}
const WordApi kApi[] = {VF_W(cfgi), VF_W(cfgj), VF_W(stt0), VF_W(stt1), VF_W(stt2), VF_W(mod0), VF_W(mod1),
                        VF_W(mod2), VF_W(mod3), VF_W(st0),  VF_W(st1),  VF_W(st2),  VF_W(icr),  VF_W(ar0),
                        VF_W(ar1),  VF_W(arp0), VF_W(arp1), VF_W(arp2), VF_W(arp3)};
constexpr int kWords = 19;

// operand numbering of the word-naming operand types (assembler/encoding documentation)
int sttmod_index(const std::string& w) {
    static const char* n[8] = {"stt0", "stt1", "stt2", "", "mod0", "mod1", "mod2", "mod3"};
    for (int i = 0; i < 8; ++i)
        if (w == n[i])
            return i;
    return -1;
}
int ararp_index(const std::string& w) {
    static const char* n[6] = {"ar0", "ar1", "arp0", "arp1", "arp2", "arp3"};
    for (int i = 0; i < 6; ++i)
        if (w == n[i])
            return i;
    return -1;
}
int ararpsttmod_index(const std::string& w) {
    int a = ararp_index(w);
    if (a >= 0)
        return a;
    int s = sttmod_index(w);
    return s >= 0 ? 8 + s : -1;
}
int register_index(const std::string& w) {
    static const char* n[32] = {"r0", "r1", "r2", "r3", "r4", "r5", "r7", "y0", "st0", "st1", "st2",
                                "p", "pc", "sp", "cfgi", "cfgj", "b0h", "b1h", "b0l", "b1l", "ext0",
                                "ext1", "ext2", "ext3", "a0", "a1", "a0l", "a1l", "a0h", "a1h", "lc", "sv"};
    for (int i = 0; i < 32; ++i)
        if (w == n[i])
            return i;
    return -1;
}

struct OpIndex {
    std::map<std::string, std::vector<u16>> by_key;
    const Encodings& enc;
    explicit OpIndex(const Encodings& e) : enc(e) {
        for (u32 op = 0; op < 0x10000; ++op)
            by_key[step::FormKey(e.all[op].form)].push_back((u16)op);
    }
    // first opcode of the row shape whose operands at the given positions have the given raw values
    int find(const std::string& key, std::initializer_list<std::pair<int, u64>> want) const {
        auto it = by_key.find(key);
        if (it == by_key.end())
            return -1;
        for (u16 op : it->second) {
            const Form& f = enc.all[op].form;
            bool ok = true;
            for (auto& w : want)
                ok &= (size_t)w.first < f.ops.size() && f.ops[w.first].second == w.second;
            if (ok)
                return op;
        }
        return -1;
    }
};

struct Idx {
    int pc, sp, a[2], b[2], r[8], lp, bcn, rep, m[8], br[8], epi, epj, stp16, cmd, stepi, stepj, modi, modj;
    int ip[3], ipv, ie, bk_end[4], bk_start[4];
    Idx() {
        pc = FieldIndex("pc");
        sp = FieldIndex("sp");
        lp = FieldIndex("lp");
        bcn = FieldIndex("bcn");
        rep = FieldIndex("rep");
        epi = FieldIndex("epi");
        epj = FieldIndex("epj");
        stp16 = FieldIndex("stp16");
        cmd = FieldIndex("cmd");
        stepi = FieldIndex("stepi");
        stepj = FieldIndex("stepj");
        modi = FieldIndex("modi");
        modj = FieldIndex("modj");
        ipv = FieldIndex("ipv");
        ie = FieldIndex("ie");
        for (int k = 0; k < 2; ++k) {
            a[k] = FieldIndex(fmt("a[%d]", k));
            b[k] = FieldIndex(fmt("b[%d]", k));
        }
        for (int k = 0; k < 3; ++k)
            ip[k] = FieldIndex(fmt("ip[%d]", k));
        for (int k = 0; k < 4; ++k) {
            bk_end[k] = FieldIndex(fmt("bkrep_stack[%d].end", k));
            bk_start[k] = FieldIndex(fmt("bkrep_stack[%d].start", k));
        }
        for (int k = 0; k < 8; ++k) {
            r[k] = FieldIndex(fmt("r[%d]", k));
            m[k] = FieldIndex(fmt("m[%d]", k));
            br[k] = FieldIndex(fmt("br[%d]", k));
        }
    }
};

// the model slot that owns a bit of a word (for keys)
std::string slot_at(const pr::Word& w, unsigned bit) {
    for (auto& s : w.slots)
        if (bit >= s.bit && bit < s.bit + s.len)
            return s.field;
    return "undefined-bit";
}
unsigned lowest_bit(u16 v) {
    for (unsigned i = 0; i < 16; ++i)
        if (v & (1u << i))
            return i;
    return 16;
}
std::string first_diff_field(const CaseState& a, const CaseState& b) {
    for (size_t i = 0; i < a.v.size(); ++i)
        if (a.v[i] != b.v[i])
            return Fields()[i].name;
    return "";
}

// "[%r3+1++2*]" -> register, offset name, step name
struct DsmTok {
    int rn = -1;
    std::string offset, step;
    bool bare = false; // "[%r3]"
};
std::vector<DsmTok> parse_tokens(const std::vector<std::string>& toks) {
    std::vector<DsmTok> out;
    for (auto& t : toks) {
        size_t p = 0;
        while ((p = t.find("%r", p)) != std::string::npos) {
            DsmTok d;
            p += 2;
            if (p < t.size() && t[p] >= '0' && t[p] <= '9')
                d.rn = t[p++] - '0';
            size_t e = t.find(']', p);
            std::string rest = t.substr(p, e == std::string::npos ? std::string::npos : e - p);
            if (rest.empty())
                d.bare = true;
            else {
                for (const char* on : {"-1*", "+0", "+1", "-1"})
                    if (rest.rfind(on, 0) == 0) {
                        d.offset = on;
                        break;
                    }
                d.step = rest.substr(d.offset.size());
            }
            out.push_back(d);
        }
    }
    return out;
}

const u16 kTestSpaceX = 0x6400, kTestSpaceY = 0xCC00, kTestSpaceSize = 0x200; // test.h, restated
bool in_window(u16 a, unsigned reg) {
    u16 base = reg < 4 ? kTestSpaceX : kTestSpaceY;
    return a >= base && a < (u16)(base + kTestSpaceSize);
}

} // namespace

int main(int argc, char** argv) {
    Ctx ctx;
    ctx.parse(argc, argv, "C20");
    static_assert(TestSpaceX == 0x6400 && TestSpaceY == 0xCC00 && TestSpaceSize == 0x200, "test windows moved");
    Encodings enc;
    OpIndex ops(enc);
    const Idx ix;
    const auto& words = pr::Words();
    if ((int)words.size() != kWords) {
        std::fprintf(stderr, "C20: model has %zu words\n", words.size());
        return 3;
    }
    for (int w = 0; w < kWords; ++w)
        if (std::string(words[w].name) != kApi[w].name) {
            std::fprintf(stderr, "C20: word order mismatch %s/%s\n", words[w].name, kApi[w].name);
            return 3;
        }
    auto word_index = [&](const std::string& n) {
        for (int w = 0; w < kWords; ++w)
            if (n == kApi[w].name)
                return w;
        return -1;
    };

    // values of this shard: v = shard + nshards * t
    const u32 nsh = (u32)std::max(1, ctx.nshards);
    const u32 T = (0x10000 - (u32)ctx.shard + nsh - 1) / nsh;
    const u32 nblocks = (T + 255) / 256;
    const u64 states = std::max<u64>(1, ctx.cases); // --cases = number of random states for part A
    const u64 partA = states * kWords * nblocks;
    const u64 partB = 6 * (u64)nblocks;
    const u64 total = partA + partB + 1;
    auto value_of = [&](u32 blk, u32 k) -> s64 {
        u32 t = blk * 256 + k;
        return t < T ? (s64)((u32)ctx.shard + nsh * t) : -1;
    };

    Machine m;
    std::vector<std::string> unlisted;
    const auto matched = step::MatchForms(enc.all, &unlisted);
    if (!unlisted.empty()) {
        for (auto& k : unlisted)
            std::fprintf(stderr, "C20: addressing form not in models/step.h: %s\n", k.c_str());
        return 3;
    }

    // ------------------------------------------------------------------ instruction forms for part A
    struct WForm {
        const char* key;
        int word_pos;   // operand position naming the word (-1: icr forms)
        int kind;       // 0 sttmod, 1 ararp, 2 ararpsttmod, 3 register
        const char* how; // imm / abl / pop / push / toabl / icr-reg / icr-to / icr-imm5
    };
    static const WForm kWrite[] = {
        {"mov(Imm16,SttMod)", 1, 0, "imm"},       {"mov(Imm16,ArArp)", 1, 1, "imm"},
        {"mov(Imm16,Register)", 1, 3, "imm"},     {"mov(Abl,SttMod)", 1, 0, "abl"},
        {"mov(Abl,ArArp)", 1, 1, "abl"},          {"pop(ArArpSttMod)", 0, 2, "pop"},
        {"pop(Register)", 0, 3, "pop"},
    };
    static const WForm kRead[] = {
        {"mov(SttMod,Abl)", 0, 0, "toabl"}, {"mov(ArArp,Abl)", 0, 1, "toabl"},
        {"push(ArArpSttMod)", 0, 2, "push"}, {"push(Register)", 0, 3, "push"},
    };
    auto operand_index = [&](int kind, const std::string& w) {
        return kind == 0 ? sttmod_index(w) : kind == 1 ? ararp_index(w) : kind == 2 ? ararpsttmod_index(w) : register_index(w);
    };

    for (u64 c = 0; c < total; ++c) {
        if (!ctx.selected(c))
            continue;
        Rng g = ctx.case_rng(c);

        // ============================================================================================ A
        if (c < partA) {
            const u64 sidx = c / ((u64)kWords * nblocks);
            const int w = (int)((c / nblocks) % kWords);
            const u32 blk = (u32)(c % nblocks);
            const pr::Word& W = words[w];
            Rng gs = ctx.case_rng(sidx, 0xA11CE);
            StateGenOpts o;
            o.loops = true;
            o.random_ints = true;
            o.any_pc = true;
            CaseState gen = RandomState(gs, o);
            Teakra::RegisterState base;
            base = Teakra::RegisterState();
            Apply(gen, base);
            const CaseState S = Capture(base);

            // state for the instruction part: no pending interrupt, pc 0, loop frames away from pc
            CaseState Si = S;
            Si.v[ix.pc] = 0;
            Si.v[ix.rep] = 0;
            for (int k = 0; k < 3; ++k)
                Si.v[ix.ip[k]] = 0;
            Si.v[ix.ipv] = 0;
            for (int k = 0; k < 4; ++k) {
                Si.v[ix.bk_end[k]] |= 0x100;
                Si.v[ix.bk_start[k]] |= 0x100;
            }
            Si.v[ix.sp] = 0x1000 + (u16)gs.below(0x1000);

            bool bad = false;
            // the state as generated reads consistently through every word
            for (int w2 = 0; w2 < kWords && !bad; ++w2) {
                u16 real = kApi[w2].get(base), mod = pr::Get(words[w2], S);
                if (real != mod) {
                    bad = true;
                    unsigned bit = lowest_bit(real ^ mod);
                    ctx.violation(fmt("get:%s:%s", kApi[w2].name, slot_at(words[w2], bit).c_str()),
                                  fmt("reading %s gives %04x, the fields compose to %04x (bit %u)", kApi[w2].name, real, mod, bit), c,
                                  JObj().str("word", kApi[w2].name).hexs("real", real).hexs("model", mod).raw("state", StateJson(S)).done());
                }
            }
            std::vector<u8> slot_changed(W.slots.size(), 0), slot_same(W.slots.size(), 0);
            u32 picks[24];
            for (auto& p : picks)
                p = (u32)g.below(256);
            for (u32 k = 0; k < 256 && !bad; ++k) {
                s64 vv = value_of(blk, k);
                if (vv < 0)
                    break;
                u16 v = (u16)vv;
                Teakra::RegisterState regs = base;
                kApi[w].set(regs, v);
                CaseState post = Capture(regs);
                CaseState M = S;
                pr::Set(W, M, v);
                ctx.count("cases");
                ctx.count("setget_evals");
                for (size_t si = 0; si < W.slots.size(); ++si) {
                    auto& sl = W.slots[si];
                    u64 f = (v >> sl.bit) & ((1u << sl.len) - 1);
                    u64 cur = sl.kind == pr::ACCE ? ((S.v[sl.fi] >> 32) & 0xF) : S.v[sl.fi];
                    (f != cur ? slot_changed : slot_same)[si] = 1;
                }
                if (post.v != M.v) {
                    bad = true;
                    std::string fld = first_diff_field(post, M);
                    ctx.violation(fmt("set:%s:%s", W.name, fld.c_str()),
                                  fmt("writing %04x to %s: field %s differs from the layout table's prediction (real!=model: %s)", v,
                                      W.name, fld.c_str(), Diff(post, M).c_str()),
                                  c,
                                  JObj().str("word", W.name).hexs("value", v).str("real_vs_model", Diff(post, M)).str("real_vs_before", Diff(post, S)).raw("state", StateJson(S)).done());
                    break;
                }
                for (int w2 = 0; w2 < kWords; ++w2) {
                    u16 real = kApi[w2].get(regs), mod = pr::Get(words[w2], M);
                    if (real != mod) {
                        bad = true;
                        unsigned bit = lowest_bit(real ^ mod);
                        ctx.violation(fmt("get:%s:%s", kApi[w2].name, slot_at(words[w2], bit).c_str()),
                                      fmt("after writing %04x to %s, reading %s gives %04x, the fields compose to %04x (bit %u)", v,
                                          W.name, kApi[w2].name, real, mod, bit),
                                      c,
                                      JObj().str("written", W.name).hexs("value", v).str("read", kApi[w2].name).hexs("real", real).hexs("model", mod).raw("state", StateJson(S)).done());
                        break;
                    }
                }
                if (bad)
                    break;
                // the statement's own wording, straight from the masks of the table
                u16 back = kApi[w].get(regs), wm = W.writable_mask();
                if ((back ^ v) & wm) {
                    bad = true;
                    unsigned bit = lowest_bit((back ^ v) & wm);
                    ctx.violation(fmt("readback:%s:%s", W.name, slot_at(W, bit).c_str()),
                                  fmt("%s written %04x reads back %04x on writable bits %04x", W.name, v, back, wm), c,
                                  JObj().str("word", W.name).hexs("value", v).hexs("readback", back).raw("state", StateJson(S)).done());
                    break;
                }
                ctx.count("readback_checked");

                // ---------------------------------------------------------------- through instructions (sample)
                bool picked = false;
                for (u32 p : picks)
                    picked |= p == k;
                // always: the value the word currently reads in the instruction state ("write back what is there" - the
                // push W ... pop W idiom; not a no-op for words with write-one-to-clear or command bits)
                if (v == pr::Get(W, Si)) {
                    picked = true;
                    ctx.count("instr_rewrite_current_value");
                }
                if (!picked)
                    continue;
                std::string wn = W.name;
                auto run_one = [&](const char* what, u16 opcode, u16 expansion, CaseState pre, const CaseState& expect_full,
                                   bool compare_full, int acc_field, u64 acc_expect, int mem_addr, u16 mem_expect) {
                    m.clean();
                    m.load(pre);
                    m.prog(0, opcode);
                    m.prog(1, expansion);
                    RunResult rr = m.run(1);
                    ctx.count("instr_runs");
                    ctx.count(std::string("instr_") + what);
                    if (rr.outcome != OK) {
                        bad = true;
                        ctx.violation(fmt("instr-outcome:%s:%s", what, wn.c_str()),
                                      fmt("%s on %s ended with %s %s", what, wn.c_str(), outcome_name(rr.outcome), rr.what.c_str()), c,
                                      JObj().str("form", what).str("word", wn).hexs("opcode", opcode).hexs("expansion", expansion).raw("state", StateJson(pre)).done());
                        return;
                    }
                    CaseState got = m.capture();
                    ctx.seen("nt", fmt("instr:%s:%s", what, wn.c_str()));
                    if (compare_full && got.v != expect_full.v) {
                        bad = true;
                        ctx.violation(fmt("instr:%s:%s", what, wn.c_str()),
                                      fmt("%s %s (value %04x): state differs from the table's prediction: %s", what, wn.c_str(), v,
                                          Diff(got, expect_full).c_str()),
                                      c,
                                      JObj().str("form", what).str("word", wn).hexs("opcode", opcode).hexs("expansion", expansion).hexs("value", v).str("real_vs_model", Diff(got, expect_full)).raw("state", StateJson(pre)).done());
                        return;
                    }
                    if (acc_field >= 0 && got.v[acc_field] != acc_expect) {
                        bad = true;
                        unsigned bit = lowest_bit((u16)(got.v[acc_field] ^ acc_expect));
                        ctx.violation(fmt("instr:%s:%s:%s", what, wn.c_str(), slot_at(W, bit).c_str()),
                                      fmt("%s %s delivers %" PRIx64 ", the fields compose to %" PRIx64, what, wn.c_str(), got.v[acc_field], acc_expect), c,
                                      JObj().str("form", what).str("word", wn).hexs("opcode", opcode).raw("state", StateJson(pre)).done());
                        return;
                    }
                    if (mem_addr >= 0 && m.data((u16)mem_addr) != mem_expect) {
                        bad = true;
                        unsigned bit = lowest_bit((u16)(m.data((u16)mem_addr) ^ mem_expect));
                        ctx.violation(fmt("instr:%s:%s:%s", what, wn.c_str(), slot_at(W, bit).c_str()),
                                      fmt("%s %s stores %04x, the fields compose to %04x", what, wn.c_str(), m.data((u16)mem_addr), mem_expect), c,
                                      JObj().str("form", what).str("word", wn).hexs("opcode", opcode).raw("state", StateJson(pre)).done());
                        return;
                    }
                };
                // --- writes
                for (auto& wf : kWrite) {
                    if (bad)
                        break;
                    int oi = operand_index(wf.kind, wn);
                    if (oi < 0)
                        continue;
                    std::string how = wf.how;
                    int other = how == "abl" ? (int)g.below(4) : -1; // Abl operand: b0l b1l a0l a1l
                    int op = how == "abl" ? ops.find(wf.key, {{wf.word_pos, (u64)oi}, {0, (u64)other}})
                                          : ops.find(wf.key, {{wf.word_pos, (u64)oi}});
                    if (op < 0) {
                        ctx.count("instr_form_missing");
                        continue;
                    }
                    CaseState pre = Si;
                    bool expanded = enc.all[op].expanded;
                    u16 expansion = how == "imm" ? v : (u16)g.bits(16);
                    if (how == "abl") // accumulator low word = v, no saturation on the way out
                        pre.v[other < 2 ? ix.b[other] : ix.a[other - 2]] = v;
                    CaseState E = pre;
                    pr::Set(W, E, v);
                    E.v[ix.pc] = expanded ? 2 : 1;
                    if (how == "pop") {
                        E.v[ix.sp] = (u16)(pre.v[ix.sp] + 1);
                        // the popped word has to be in memory before the run
                        m.clean();
                        m.load(pre);
                        m.prog(0, (u16)op);
                        m.prog(1, expansion);
                        m.data((u16)pre.v[ix.sp], v);
                        RunResult rr = m.run(1);
                        ctx.count("instr_runs");
                        ctx.count("instr_pop");
                        CaseState got = m.capture();
                        ctx.seen("nt", fmt("instr:%s:%s", wf.key, wn.c_str()));
                        if (rr.outcome != OK || got.v != E.v) {
                            bad = true;
                            ctx.violation(fmt("instr:%s:%s", wf.key, wn.c_str()),
                                          fmt("%s %s (value %04x): %s", wf.key, wn.c_str(), v, Diff(got, E).c_str()), c,
                                          JObj().str("form", wf.key).str("word", wn).hexs("opcode", (u16)op).hexs("value", v).str("real_vs_model", Diff(got, E)).raw("state", StateJson(pre)).done());
                        }
                        continue;
                    }
                    run_one(wf.key, (u16)op, expansion, pre, E, true, -1, 0, -1, 0);
                }
                // --- reads (of the state after the API write, i.e. M with the instruction-safe tweaks)
                CaseState R = Si;
                pr::Set(W, R, v);
                for (auto& rf : kRead) {
                    if (bad)
                        break;
                    int oi = operand_index(rf.kind, wn);
                    if (oi < 0)
                        continue;
                    std::string how = rf.how;
                    if (how == "toabl") {
                        int dst = (int)g.below(4);
                        int op = ops.find(rf.key, {{rf.word_pos, (u64)oi}, {1, (u64)dst}});
                        if (op < 0) {
                            ctx.count("instr_form_missing");
                            continue;
                        }
                        // reading st0/st1 style nibbles is not involved here (Abl destinations, SttMod/ArArp sources)
                        run_one(rf.key, (u16)op, (u16)g.bits(16), R, R, false, dst < 2 ? ix.b[dst] : ix.a[dst - 2], pr::Get(W, R), -1, 0);
                    } else {
                        int op = ops.find(rf.key, {{rf.word_pos, (u64)oi}});
                        if (op < 0) {
                            ctx.count("instr_form_missing");
                            continue;
                        }
                        u16 sp = (u16)R.v[ix.sp];
                        run_one(rf.key, (u16)op, (u16)g.bits(16), R, R, false, -1, 0, (u16)(sp - 1), pr::Get(W, R));
                    }
                }
                // --- icr has its own instructions
                if (wn == "icr" && !bad) {
                    // mov_icr(Register): from a plain register, and from the words a Register operand can name
                    for (const char* src : {"r1", "st0", "st1", "st2", "cfgi", "cfgj"}) {
                        if (bad)
                            break;
                        int op = ops.find("mov_icr(Register)", {{0, (u64)register_index(src)}});
                        if (op < 0) {
                            ctx.count("instr_form_missing");
                            continue;
                        }
                        CaseState pre = Si;
                        u16 val;
                        if (std::string(src) == "r1") {
                            pre.v[ix.r[1]] = v;
                            val = v;
                        } else {
                            pr::Set(words[word_index(src)], pre, v); // put v into the source word first
                            val = pr::Get(words[word_index(src)], pre);
                        }
                        CaseState E = pre;
                        pr::Set(W, E, val);
                        E.v[ix.pc] = 1;
                        run_one(fmt("mov_icr(Register=%s)", src).c_str(), (u16)op, 0, pre, E, true, -1, 0, -1, 0);
                    }
                    if (!bad) {
                        int dst = (int)g.below(4); // Ab: b0 b1 a0 a1
                        int op = ops.find("mov_icr_to(Ab)", {{0, (u64)dst}});
                        if (op >= 0)
                            run_one("mov_icr_to(Ab)", (u16)op, 0, R, R, false, dst < 2 ? ix.b[dst] : ix.a[dst - 2], pr::Get(W, R), -1, 0);
                        else
                            ctx.count("instr_form_missing");
                    }
                    if (!bad) {
                        int op = ops.find("mov_icr(Imm5)", {{0, (u64)(v & 31)}});
                        if (op >= 0) {
                            CaseState E = Si;
                            pr::Set(W, E, (u16)((pr::Get(W, Si) & ~0x1F) | (v & 31)));
                            E.v[ix.pc] = 1;
                            run_one("mov_icr(Imm5)", (u16)op, 0, Si, E, true, -1, 0, -1, 0);
                        } else
                            ctx.count("instr_form_missing");
                    }
                }
            }
            for (size_t si = 0; si < W.slots.size(); ++si) {
                static const char* kn[] = {"rw", "ro", "lp", "lim2", "acce"};
                if (slot_changed[si])
                    ctx.seen("nt", fmt("set:%s:%s:%s:new-value", W.name, W.slots[si].field, kn[W.slots[si].kind]));
                if (slot_same[si])
                    ctx.seen("nt", fmt("set:%s:%s:%s:same-value", W.name, W.slots[si].field, kn[W.slots[si].kind]));
            }
            if (!bad && ctx.samples_emitted < 2 && blk == 0) {
                s64 vv = value_of(blk, 5);
                if (vv >= 0) {
                    CaseState M = S;
                    pr::Set(W, M, (u16)vv);
                    ctx.sample(JObj().num("case", (s64)c).str("word", W.name).hexs("written", (u64)vv).hexs("reads_back", pr::Get(W, M)).str("fields_changed", Diff(M, S)).done());
                }
            }
            continue;
        }

        // ============================================================================================ B
        if (c < partA + partB) {
            const u64 cb = c - partA;
            const int aw = (int)(cb / nblocks); // 0,1: ar0, ar1; 2..5: arp0..3
            const u32 blk = (u32)(cb % nblocks);
            static const char* an[6] = {"ar0", "ar1", "arp0", "arp1", "arp2", "arp3"};
            const int wi = word_index(an[aw]);
            // a configuration in which steps are plain arithmetic: no modulo, no bit reversal, no end pointer
            CaseState Sb = RandomState(g);
            for (int k = 0; k < 8; ++k) {
                Sb.v[ix.m[k]] = 0;
                Sb.v[ix.br[k]] = 0;
                Sb.v[ix.r[k]] = (u16)(0x0800 * (k + 1) + 0x40);
            }
            Sb.v[ix.epi] = Sb.v[ix.epj] = Sb.v[ix.stp16] = 0;
            Sb.v[ix.stepi] = 5;         // "+s" on r0-r3 = +5
            Sb.v[ix.stepj] = 0x7B;      // "+s" on r4-r7 = -5
            Sb.v[ix.lp] = Sb.v[ix.bcn] = 0;
            auto step_delta = [&](unsigned code, unsigned reg) -> int {
                switch (code & 7) {
                case 0: return 0;
                case 1: return 1;
                case 2: return -1;
                case 3: return reg < 4 ? 5 : -5;
                case 4: case 6: return 2;
                default: return -2;
                }
            };
            static const int off_delta[4] = {0, 1, -1, -1};
            auto& step_forms = step::Forms();
            bool bad = false;

            for (u32 k = 0; k < 256 && !bad; ++k) {
                s64 vv = value_of(blk, k);
                if (vv < 0)
                    break;
                u16 v = (u16)vv;
                // the other five words: random, written through their fields (they are not under test here)
                u16 ar[2], arp[4];
                for (auto& x : ar)
                    x = (u16)g.bits(16);
                for (auto& x : arp)
                    x = (u16)g.bits(16);
                if (aw < 2)
                    ar[aw] = v;
                else
                    arp[aw - 2] = v;
                CaseState S0 = Sb;
                for (int q = 0; q < 6; ++q)
                    pr::Set(words[word_index(an[q])], S0, q < 2 ? ar[q] : arp[q - 2]);
                // what the real registers say after the real write of the word under test
                auto load = [&]() {
                    m.clean();
                    m.load(S0);
                    kApi[wi].set(m.core.regs, v);
                };
                Teakra::Disassembler::ArArpSettings settings;
                settings.ar = {ar[0], ar[1]};
                settings.arp = {arp[0], arp[1], arp[2], arp[3]};
                ctx.count("cases");
                ctx.count("ararp_values");

                // one run: execute `opcode`, compare register movement + accesses with the table's reading of the
                // words, and the disassembler's tokens with the table's names
                struct Sel {
                    unsigned reg, step, offset;
                    char via;
                    unsigned sel_index, step_index;
                };
                auto check = [&](const char* what, u16 opcode, const std::vector<Sel>& sel, bool check_offsets, int fixed_delta, bool bare) {
                    load();
                    m.prog(0, opcode);
                    m.prog(1, 0);
                    RunResult rr = m.run(1);
                    ctx.count("ararp_interp_runs");
                    if (rr.outcome != OK) {
                        ctx.count(std::string("ararp_skip_") + outcome_name(rr.outcome));
                        return;
                    }
                    CaseState post = m.capture();
                    // (1) interpreter vs table
                    int exp_delta[8] = {};
                    for (auto& s : sel)
                        exp_delta[s.reg] += fixed_delta ? fixed_delta : step_delta(s.step, s.reg);
                    for (unsigned n = 0; n < 8 && !bad; ++n) {
                        int d = (int)(s16)((u16)post.v[ix.r[n]] - (u16)S0.v[ix.r[n]]);
                        if (d != exp_delta[n]) {
                            bad = true;
                            // which table field is contradicted: a register that should not move moved / the right one by a wrong amount
                            bool is_sel = false;
                            for (auto& s : sel)
                                is_sel |= s.reg == n;
                            const Sel& s0 = sel[0];
                            ctx.violation(fmt("ararp:interp:%s:%s:%c", an[aw], is_sel ? "step" : "register", s0.via),
                                          fmt("%s with %s=%04x: r%u moves by %d, the table's decoding says %d (%s)", what, an[aw], v, n, d,
                                              exp_delta[n], enc.all[opcode].form.str().c_str()),
                                          c,
                                          JObj().str("form", what).hexs("opcode", opcode).str("word", an[aw]).hexs("value", v).num("register", n).num("moved", d).num("table", exp_delta[n])
                                              .str("ar", fmt("%04x %04x", ar[0], ar[1])).str("arp", fmt("%04x %04x %04x %04x", arp[0], arp[1], arp[2], arp[3])).done());
                        }
                    }
                    if (check_offsets && !bad) {
                        std::vector<u32> want, got;
                        for (auto& s : sel) {
                            u16 a = (u16)S0.v[ix.r[s.reg]];
                            want.push_back(kDataBase + a);
                            want.push_back(kDataBase + (u16)(a + off_delta[s.offset & 3]));
                        }
                        for (auto& x : m.log())
                            if (x.addr >= kDataBase)
                                got.push_back(x.addr);
                        std::sort(want.begin(), want.end());
                        std::sort(got.begin(), got.end());
                        ctx.count("ararp_offset_checked");
                        if (want != got) {
                            bad = true;
                            std::string ws, gs;
                            for (u32 a : want)
                                ws += fmt("%04x ", a - kDataBase);
                            for (u32 a : got)
                                gs += fmt("%04x ", a - kDataBase);
                            ctx.violation(fmt("ararp:interp:%s:address-or-offset:%c", an[aw], sel[0].via),
                                          fmt("%s with %s=%04x: accesses at {%s}, the table's decoding says {%s}", what, an[aw], v, gs.c_str(), ws.c_str()), c,
                                          JObj().str("form", what).hexs("opcode", opcode).str("word", an[aw]).hexs("value", v).str("accessed", gs).str("table", ws)
                                              .str("ar", fmt("%04x %04x", ar[0], ar[1])).str("arp", fmt("%04x %04x %04x %04x", arp[0], arp[1], arp[2], arp[3])).done());
                        }
                    }
                    if (bad)
                        return;
                    // (2) annotated disassembler vs table
                    std::vector<std::string> toks = Teakra::Disassembler::GetTokenList(opcode, 0, settings);
                    std::vector<DsmTok> dt = parse_tokens(toks);
                    ctx.count("ararp_dsm_calls");
                    std::string joined;
                    for (auto& t : toks)
                        joined += t + " ";
                    if (dt.size() != sel.size()) {
                        bad = true;
                        ctx.violation(fmt("ararp:dsm:%s:token-count", an[aw]),
                                      fmt("%s: disassembly '%s' names %zu registers, the operands select %zu", what, joined.c_str(), dt.size(), sel.size()), c,
                                      JObj().str("form", what).hexs("opcode", opcode).str("text", joined).done());
                        return;
                    }
                    for (auto& s : sel) {
                        const DsmTok* t = nullptr;
                        for (auto& d : dt)
                            if (sel.size() == 1 || (s.via == 'i') == (d.rn < 4))
                                t = &d;
                        const char* aspect = nullptr;
                        std::string tv, dv;
                        if (!t || t->rn != (int)s.reg) {
                            aspect = "register";
                            tv = fmt("r%u", s.reg);
                            dv = t ? fmt("r%d", t->rn) : "none";
                        } else if (!bare && t->step != pr::StepName(s.step)) {
                            aspect = "step";
                            tv = pr::StepName(s.step);
                            dv = t->step;
                        } else if (!bare && t->offset != pr::OffsetName(s.offset)) {
                            aspect = "offset";
                            tv = pr::OffsetName(s.offset);
                            dv = t->offset;
                        } else if (bare != t->bare)
                            aspect = "shape", tv = bare ? "[%rN]" : "[%rN<offset><step>]", dv = joined;
                        ctx.count("ararp_dsm_operands");
                        if (aspect) {
                            bad = true;
                            ctx.violation(fmt("ararp:dsm:%s:%s:%c:index%u", an[aw], aspect, s.via, aspect[0] == 'r' ? s.sel_index : s.step_index),
                                          fmt("%s with %s=%04x: disassembler prints '%s' (%s %s), the table's decoding says %s", what, an[aw], v,
                                              joined.c_str(), aspect, dv.c_str(), tv.c_str()),
                                          c,
                                          JObj().str("form", what).hexs("opcode", opcode).str("word", an[aw]).hexs("value", v).str("text", joined).str("table", tv)
                                              .str("ar", fmt("%04x %04x", ar[0], ar[1])).str("arp", fmt("%04x %04x %04x %04x", arp[0], arp[1], arp[2], arp[3])).done());
                            return;
                        }
                    }
                };

                if (aw < 2) {
                    // primary: mova [ArRn2, ArStep2] -> Ab reads the offset cell and the cell; every (register index,
                    // step index) pair of the word under test
                    for (unsigned ri = 0; ri < 2 && !bad; ++ri)
                        for (unsigned si = 0; si < 2 && !bad; ++si) {
                            unsigned rn_idx = aw * 2 + ri, st_idx = aw * 2 + si;
                            int op = ops.find("mova(ArRn2,ArStep2,Ab)", {{0, rn_idx}, {1, st_idx}, {2, g.below(4)}});
                            if (op < 0) {
                                ctx.count("ararp_form_missing");
                                continue;
                            }
                            Sel s{pr::ArRnOf(ar, rn_idx), pr::ArStepOf(ar, st_idx), pr::ArOffsetOf(ar, st_idx), 'a', rn_idx, st_idx};
                            check("mova(ArRn2,ArStep2,Ab)", (u16)op, {s}, true, 0, false);
                            ctx.seen("nt", fmt("ararp:%s:rn%u:step%u:code%u:off%u", an[aw], rn_idx, st_idx, s.step, s.offset));
                        }
                    // block-repeat store names only the register: bkrepsto [ArRn2] moves it down by 4 words
                    if (!bad) {
                        unsigned rn_idx = aw * 2 + (unsigned)g.below(2);
                        int op = ops.find("bkrepsto(ArRn2)", {{0, rn_idx}});
                        if (op >= 0) {
                            Sel s{pr::ArRnOf(ar, rn_idx), 0, 0, 'a', rn_idx, 0};
                            check("bkrepsto(ArRn2)", (u16)op, {s}, false, -4, true);
                        } else
                            ctx.count("ararp_form_missing");
                    }
                } else {
                    unsigned kx = aw - 2;
                    // primary: mma [ArpRn2],[ArpStep2 i],[ArpStep2 j] with modulo enabled variants only (EMod,EMod rows)
                    for (int variant = 0; variant < 3 && !bad; ++variant) {
                        unsigned other = (kx + 1 + (unsigned)g.below(3)) & 3;
                        unsigned rn_idx = variant == 2 ? other : kx;
                        unsigned si_idx = variant == 1 ? other : kx, sj_idx = variant == 1 ? other : kx;
                        if (variant == 2)
                            si_idx = sj_idx = kx;
                        int op = ops.find("mma(ArpRn2,ArpStep2,ArpStep2,bool,bool,RegName,bool,bool,bool,bool,SumBase,bool,bool,bool,bool)",
                                          {{0, rn_idx}, {1, si_idx}, {2, sj_idx}, {3, 0}, {4, 0}});
                        if (op < 0) {
                            ctx.count("ararp_form_missing");
                            continue;
                        }
                        Sel si{pr::ArpRniOf(arp, rn_idx), pr::ArpStepiOf(arp, si_idx), pr::ArpOffsetiOf(arp, si_idx), 'i', rn_idx, si_idx};
                        Sel sj{pr::ArpRnjOf(arp, rn_idx), pr::ArpStepjOf(arp, sj_idx), pr::ArpOffsetjOf(arp, sj_idx), 'j', rn_idx, sj_idx};
                        check("mma(ArpRn2,ArpStep2,ArpStep2)", (u16)op, {si, sj}, true, 0, false);
                        if (variant == 0)
                            ctx.seen("nt", fmt("ararp:%s:i%u/%u/%u:j%u/%u/%u", an[aw], si.reg, si.step, si.offset, sj.reg, sj.step, sj.offset));
                    }
                }
                // secondary: one other ar/arp-using row shape, any operand indices (covers ArRn1/ArStep1/ArStep1Alt/
                // ArpRn1/ArpStep1 operand types and the remaining handlers)
                for (int tries = 0; tries < 16 && !bad; ++tries) {
                    size_t fk = (size_t)g.below(step_forms.size());
                    const step::FormSpec& sp = step_forms[fk];
                    if ((sp.flags & step::NO_STEP) || matched[fk].empty())
                        continue;
                    u16 opcode = g.pick(matched[fk]);
                    const Form& f = enc.all[opcode].form;
                    std::string roles = step::Roles(sp, f);
                    if (roles.find(aw < 2 ? 'a' : 'p') == std::string::npos)
                        continue;
                    step::ArState as;
                    for (unsigned q = 0; q < 4; ++q) {
                        as.arrn[q] = pr::ArRnOf(ar, q);
                        as.arstep[q] = pr::ArStepOf(ar, q);
                        as.arprni[q] = pr::ArpRniOf(arp, q);
                        as.arprnj[q] = pr::ArpRnjOf(arp, q) - 4;
                        as.arpstepi[q] = pr::ArpStepiOf(arp, q);
                        as.arpstepj[q] = pr::ArpStepjOf(arp, q);
                    }
                    std::vector<step::RegUse> uses = step::Uses(sp, roles, f, as);
                    std::vector<Sel> sel;
                    bool involves = false;
                    for (auto& u : uses) {
                        unsigned off = u.via == 'a' ? pr::ArOffsetOf(ar, u.step_index) : u.via == 'i' ? pr::ArpOffsetiOf(arp, u.step_index) : pr::ArpOffsetjOf(arp, u.step_index);
                        sel.push_back({u.unit, u.step, off, u.via, u.sel_index, u.step_index});
                        if (aw < 2)
                            involves |= u.sel_index / 2 == (unsigned)aw || u.step_index / 2 == (unsigned)aw;
                        else
                            involves |= u.sel_index == (unsigned)(aw - 2) || u.step_index == (unsigned)(aw - 2);
                    }
                    if (!involves || sel.empty())
                        continue;
                    check(sp.key, opcode, sel, false, 0, false);
                    ctx.count("ararp_secondary_runs");
                    ctx.seen("nt", fmt("ararp-form:%s:%s", an[aw], sp.tag));
                    break;
                }
            }
            continue;
        }

        // ============================================================================================ C
        {
            bool run_here = ctx.thorough || ctx.only_case >= 0 || (ctx.shard % 4) == 0;
            if (!run_here)
                continue;
            int fds[2];
            if (pipe(fds) != 0) {
                ctx.count("gen_pipe_failed");
                continue;
            }
            std::string path = fmt("/proc/self/fd/%d", fds[1]);
            bool gen_ok = false;
            std::thread producer([&] {
                gen_ok = Teakra::Test::GenerateTestCasesToFile(path.c_str());
                close(fds[1]);
            });
            FILE* in = fdopen(fds[0], "rb");
            std::vector<int> form_of(0x10000, -1);
            for (size_t fk = 0; fk < matched.size(); ++fk)
                for (u16 op : matched[fk])
                    form_of[op] = (int)fk;
            auto tc = std::make_unique<TestCase>();
            const pr::Word& mod2 = pr::WordByName("mod2");
            u64 nrec = 0;
            while (in && std::fread(tc.get(), sizeof(TestCase), 1, in) == 1) {
                ++nrec;
                int fk = form_of[tc->opcode];
                if (fk < 0)
                    continue;
                const step::FormSpec& sp = step::Forms()[fk];
                if (sp.flags & step::NO_STEP)
                    continue;
                const Form& f = enc.all[tc->opcode].form;
                std::string roles = step::Roles(sp, f);
                if (roles.find('a') == std::string::npos && roles.find('p') == std::string::npos)
                    continue;
                if (std::string(sp.mem).find('m') == std::string::npos)
                    continue; // modr through arp: no memory access, nothing to pin
                const State& b = tc->before;
                u16 ar[2] = {b.ar[0], b.ar[1]}, arp[4] = {b.arp[0], b.arp[1], b.arp[2], b.arp[3]};
                struct P {
                    unsigned reg;
                    char via;
                    unsigned idx;
                };
                std::vector<P> pins;
                for (size_t k = 0; k < roles.size() && k < f.ops.size(); ++k) {
                    unsigned idx = (unsigned)f.ops[k].second & 3;
                    if (roles[k] == 'a')
                        pins.push_back({pr::ArRnOf(ar, idx), 'a', idx});
                    else if (roles[k] == 'p') {
                        pins.push_back({pr::ArpRniOf(arp, idx), 'i', idx});
                        pins.push_back({pr::ArpRnjOf(arp, idx), 'j', idx});
                    }
                }
                ctx.count("cases");
                ctx.count("gen_records_checked");
                for (auto& p : pins) {
                    // the cell the access goes to (bit-reversed addressing as mod2 says) must be in the window
                    bool mbit = pr::slot_of(mod2, fmt("m[%u]", p.reg), b.mod2), brbit = pr::slot_of(mod2, fmt("br[%u]", p.reg), b.mod2);
                    u16 rv = b.r[p.reg];
                    u16 cell = (brbit && !mbit) ? step::bitrev16(rv) : rv;
                    ctx.count("gen_registers_checked");
                    ctx.seen("nt", fmt("gen:%s:%c%u:r%u", sp.tag, p.via, p.idx, p.reg));
                    if (!in_window(cell, p.reg)) {
                        ctx.violation(fmt("ararp:generator:%c:index%u", p.via, p.idx),
                                      fmt("generator record %" PRIu64 " (%s): the table's decoding of before.ar/arp selects r%u, which holds %04x (cell %04x): not pinned into its test window",
                                          nrec - 1, f.str().c_str(), p.reg, rv, cell),
                                      c,
                                      JObj().num("record", (s64)(nrec - 1)).hexs("opcode", tc->opcode).str("decoded", f.str()).num("register", p.reg)
                                          .str("r", fmt("%04x %04x %04x %04x %04x %04x %04x %04x", b.r[0], b.r[1], b.r[2], b.r[3], b.r[4], b.r[5], b.r[6], b.r[7]))
                                          .str("ar", fmt("%04x %04x", ar[0], ar[1])).str("arp", fmt("%04x %04x %04x %04x", arp[0], arp[1], arp[2], arp[3])).hexs("mod2", b.mod2).done());
                    }
                }
            }
            if (in)
                std::fclose(in);
            producer.join();
            ctx.count("gen_records", nrec);
            if (!gen_ok)
                ctx.count("gen_failed");
        }
    }
    return ctx.finish();
}
