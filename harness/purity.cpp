// C02 / C05 (additional monitor) — the decoder, the disassembler (token list, joined text, C binding) and the
// assembler are FUNCTIONS of their arguments: what they return for an opcode must not depend on what was decoded
// or printed before, on the calling thread, or on being the first call of the process.
//
// Every case is one call history (16-40 calls) run in a FORKED child of a parent that has itself never called any
// of these functions (so the first call of the history is the first call of its process):
//   in-history  : the calls in order on the child's main thread
//   again       : the same calls once more in reverse order (different history, same arguments)
//   clean       : each call alone, as the first call of a new thread (fresh thread_local state)
// Oracle O1 (determinism): the three results of one call are equal.
// Oracle O2 (consistency, on the clean results): Do == tokens joined by four spaces; C binding text and length ==
// Do; C NeedExpansion == C++ NeedExpansion == the decode table's own NeedExpansion; Decode<V>(op) form == the form
// of the first matching row of the table.
// Histories are built from relations that caches and memoised state get wrong: exact repeats, one argument changed
// (other second word, other ar/arp settings - ar only, arp only, none), opcodes that share low/high bits
// (op ^ 0x8000, op + 128k, op ^ 1<<b), the all-ones / all-zeros words first, other entry point for the same word.
#include <atomic>
#include <sys/wait.h>
#include <thread>
#include <unistd.h>
#include "core_shim.h"
#include "parser.h"
#include "rec.h"
#include "teakra/disassembler.h"
#include "teakra/disassembler_c.h"
#include "worker.h"

using namespace vf;
namespace Dis = Teakra::Disassembler;

namespace {

enum Fn : u8 { F_NEED, F_TOKENS, F_DO, F_CDO, F_CLEN, F_CNEED, F_DECODE, F_PARSE, F_COUNT };
const char* fn_name[] = {"NeedExpansion", "GetTokenList", "Do", "C_Do", "C_Do_null", "C_NeedExpansion", "Decode", "Parse"};

struct Call {
    u8 fn;
    u16 op, exp;
    int cfg; // -1: no ar/arp settings, else index into the case's settings pool
    const char* rel; // how it was derived from an earlier call
};

std::string join(const std::vector<std::string>& t, const char* sep) {
    std::string s;
    for (size_t i = 0; i < t.size(); ++i) {
        if (i)
            s += sep;
        s += t[i];
    }
    return s;
}

struct Env {
    std::vector<Dis::ArArpSettings> pool;
};

std::optional<Dis::ArArpSettings> cfg_of(const Env& e, int cfg) {
    if (cfg < 0)
        return std::nullopt;
    return e.pool[(size_t)cfg];
}

// building a parser disassembles all 65536 words (~140 ms): one per worker, built in a helper thread after the
// "pristine" pass, inherited by the children of the second pass
std::unique_ptr<Teakra::Parser> g_parser;
Teakra::Parser& parser() { return *g_parser; }

std::string run_call(const Env& e, const Call& c) {
    std::string out;
    RunResult r = Classify([&] {
        switch (c.fn) {
        case F_NEED: out = Dis::NeedExpansion(c.op) ? "1" : "0"; break;
        case F_TOKENS: out = join(Dis::GetTokenList(c.op, c.exp, cfg_of(e, c.cfg)), "\x1f"); break;
        case F_DO: out = Dis::Do(c.op, c.exp, cfg_of(e, c.cfg)); break;
        case F_CDO: {
            char buf[1024];
            std::memset(buf, 0x5A, sizeof buf);
            size_t n = Teakra_Disasm_Do(buf, sizeof buf, c.op, c.exp);
            buf[sizeof buf - 1] = 0;
            out = fmt("%zu:", n) + buf;
            break;
        }
        case F_CLEN: out = fmt("%zu", Teakra_Disasm_Do(nullptr, 0, c.op, c.exp)); break;
        case F_CNEED: out = Teakra_Disasm_NeedExpansion(c.op) ? "1" : "0"; break;
        case F_DECODE: {
            auto d = Decode<Rec>(c.op);
            Rec rec;
            d.call(rec, c.op, c.exp);
            out = rec.form.str() + (d.NeedExpansion() ? "+x" : "");
            break;
        }
        case F_PARSE: {
            auto t = Dis::GetTokenList(c.op, c.exp);
            auto o = parser().Parse(t);
            out = fmt("%d:%04x", (int)o.status, o.opcode);
            break;
        }
        }
    });
    if (r.outcome != OK)
        out = "threw:" + r.what;
    return out;
}

std::string call_str(const Call& c) {
    return fmt("%s(%04x,%04x,cfg%d)[%s]", fn_name[c.fn], c.op, c.exp, c.cfg, c.rel);
}

bool uses_cfg(u8 fn) { return fn == F_TOKENS || fn == F_DO; }
bool uses_exp(u8 fn) { return fn == F_TOKENS || fn == F_DO || fn == F_CDO || fn == F_CLEN || fn == F_DECODE || fn == F_PARSE; }

// opcodes whose printed form depends on the ar/arp settings, computed in a throw-away child so that the parent
// stays pristine
std::vector<u16> sensitive_ops() {
    int fd[2];
    if (pipe(fd))
        std::abort();
    pid_t pid = fork();
    if (pid == 0) {
        close(fd[0]);
        Dis::ArArpSettings s{};
        s.ar = {0x1234, 0xFEDC};
        s.arp = {0x0123, 0x4567, 0x89AB, 0xCDEF};
        std::vector<u16> v;
        for (u32 op = 0; op < 0x10000; ++op) {
            std::string a, b;
            Classify([&] { a = join(Dis::GetTokenList((u16)op, 0, s), "|"); });
            Classify([&] { b = join(Dis::GetTokenList((u16)op, 0), "|"); });
            if (a != b)
                v.push_back((u16)op);
        }
        size_t off = 0, n = v.size() * 2;
        while (off < n) {
            ssize_t w = write(fd[1], (const char*)v.data() + off, n - off);
            if (w <= 0)
                break;
            off += (size_t)w;
        }
        _exit(0);
    }
    close(fd[1]);
    std::vector<u16> v;
    u16 buf[4096];
    ssize_t n;
    std::string raw;
    while ((n = read(fd[0], buf, sizeof buf)) > 0)
        raw.append((const char*)buf, (size_t)n);
    close(fd[0]);
    int st;
    waitpid(pid, &st, 0);
    v.resize(raw.size() / 2);
    std::memcpy(v.data(), raw.data(), v.size() * 2);
    return v;
}

struct ChildReport {
    u64 comparisons = 0, o2_checks = 0, violations = 0;
};

} // namespace

int main(int argc, char** argv) {
    Ctx ctx;
    ctx.parse(argc, argv, "C05");
    static std::string prop = ctx.opts.count("prop") ? ctx.opts["prop"] : "C05";
    ctx.prop = prop.c_str();
    const bool c02 = prop == "C02";
    std::vector<u16> sens = sensitive_ops();
    ctx.count("arp_sensitive_opcodes", sens.size());
    if (sens.empty()) {
        ctx.note("no opcode prints ar/arp dependent operands");
        sens.push_back(0);
    }
    RecTable table; // rows only; never calls Decode<>()

    if (ctx.mode == "concurrent") {
        // ---- the same functions called from several threads at once, each thread with its OWN ar/arp settings: every
        // result must equal what the same call returns when nothing else runs (computed beforehand, one thread at a time)
        for (u64 c = 0; c < ctx.cases; ++c) {
            if (!ctx.selected(c))
                continue;
            Rng g = ctx.case_rng(c);
            const unsigned nthreads = 2 + (unsigned)g.below(3);
            const unsigned ncalls = 48, iters = (unsigned)ctx.opt_u64("iters", 300);
            struct Work {
                Env env;
                std::vector<Call> calls;
                std::vector<std::string> expect;
                std::string bad_call, bad_got, bad_want;
                u64 done = 0;
            };
            std::vector<Work> W(nthreads);
            for (auto& w : W) {
                Dis::ArArpSettings st;
                for (auto& x : st.ar)
                    x = (u16)g.bits(16);
                for (auto& x : st.arp)
                    x = (u16)g.bits(16);
                w.env.pool.push_back(st);
                for (unsigned k = 0; k < ncalls; ++k) {
                    Call cl;
                    cl.fn = g.chance(1, 2) ? F_TOKENS : F_DO;
                    if (g.chance(1, 6))
                        cl.fn = g.chance(1, 2) ? F_CDO : F_DECODE;
                    cl.op = g.chance(5, 6) ? g.pick(sens) : (u16)g.bits(16);
                    cl.exp = g.edge16();
                    cl.cfg = g.chance(5, 6) ? 0 : -1;
                    cl.rel = "concurrent";
                    w.calls.push_back(cl);
                }
            }
            for (auto& w : W) { // serial expectation, in a thread of its own
                std::thread th([&] {
                    for (auto& cl : w.calls)
                        w.expect.push_back(run_call(w.env, cl));
                });
                th.join();
            }
            std::atomic<unsigned> ready{0};
            std::vector<std::thread> ths;
            for (auto& w : W)
                ths.emplace_back([&] {
                    ready.fetch_add(1);
                    while (ready.load() < nthreads)
                        std::this_thread::yield();
                    for (unsigned it = 0; it < iters && w.bad_call.empty(); ++it)
                        for (size_t k = 0; k < w.calls.size(); ++k) {
                            std::string r = run_call(w.env, w.calls[k]);
                            ++w.done;
                            if (r != w.expect[k]) {
                                w.bad_call = call_str(w.calls[k]);
                                w.bad_got = r;
                                w.bad_want = w.expect[k];
                                break;
                            }
                        }
                });
            for (auto& th : ths)
                th.join();
            ctx.count("cases");
            for (auto& w : W) {
                ctx.count("concurrent_calls_compared", w.done);
                if (!w.bad_call.empty())
                    ctx.violation(fmt("concurrent:%s", w.bad_call.substr(0, w.bad_call.find('(')).c_str()),
                                  fmt("%s returned '%s' while %u other threads were disassembling with other ar/arp settings; alone it returns '%s'",
                                      w.bad_call.c_str(), w.bad_got.substr(0, 100).c_str(), nthreads - 1, w.bad_want.substr(0, 100).c_str()),
                                  c);
            }
            ctx.seen("nt", fmt("concurrent:threads=%u", nthreads));
            for (auto& w : W)
                for (auto& cl : w.calls)
                    ctx.seen("nt", fmt("concurrent:%s:cfg=%d", fn_name[cl.fn], cl.cfg < 0 ? 0 : 1));
            if (c < 2)
                ctx.sample(JObj().str("mode", "concurrent").num("threads", nthreads).num("calls_per_thread", (s64)ncalls * iters).done());
        }
        return ctx.finish();
    }

    // pass 0: every 8th case, forked from a parent in which none of the functions has run yet (the first call of the
    // history is the first call of its process); pass 1: the rest, forked after the assembler has been built (which
    // itself walks all opcodes through the disassembler), so that Parse can be part of the histories
    for (int pass = 0; pass < 2; ++pass) {
    if (pass == 1) {
        std::thread th([] { g_parser = Teakra::GenerateParser(); });
        th.join();
    }
    for (u64 c = 0; c < ctx.cases; ++c) {
        if (!ctx.selected(c))
            continue;
        const bool pristine = c % 8 == 0;
        if (pristine != (pass == 0))
            continue;
        Rng g = ctx.case_rng(c);
        Env env;
        // settings pool: 0 random; 1 = 0 with only arp changed; 2 = 0 with only ar changed; 3 random
        auto rnd = [&] {
            Dis::ArArpSettings s;
            for (auto& x : s.ar)
                x = g.edge16();
            for (auto& x : s.arp)
                x = g.edge16();
            return s;
        };
        env.pool.push_back(rnd());
        // 1: only arp differs from 0, 2: only ar differs - half of the time in ONE word only (a cache key that forgets a word)
        env.pool.push_back(env.pool[0]);
        if (g.chance(1, 2))
            env.pool[1].arp[g.below(4)] ^= (u16)(1u << g.below(16));
        else
            for (auto& x : env.pool[1].arp)
                x = (u16)(x ^ (1u << g.below(16)) ^ g.bits(16));
        env.pool.push_back(env.pool[0]);
        if (g.chance(1, 2))
            env.pool[2].ar[g.below(2)] ^= (u16)(1u << g.below(16));
        else
            for (auto& x : env.pool[2].ar)
                x = (u16)(x ^ (1u << g.below(16)) ^ g.bits(16));
        env.pool.push_back(rnd());

        std::vector<Call> seq;
        unsigned K = 16 + (unsigned)g.below(25);
        auto fresh_op = [&]() -> u16 {
            unsigned k = (unsigned)g.below(10);
            if (k < 2) {
                static const u16 sp[] = {0xFFFF, 0x0000, 0x8000, 0x7FFF, 0x0001, 0xFFFE};
                return g.pick(sp);
            }
            if (k < 6)
                return g.pick(sens);
            return (u16)g.bits(16);
        };
        auto pick_fn = [&]() -> u8 {
            if (c02) {
                static const u8 f[] = {F_NEED, F_TOKENS, F_TOKENS, F_DECODE, F_DECODE, F_CNEED, F_DO, F_PARSE};
                return g.pick(f);
            }
            static const u8 f[] = {F_NEED, F_TOKENS, F_TOKENS, F_DO, F_DO, F_DO, F_CDO, F_CDO, F_CLEN, F_CNEED, F_DECODE, F_PARSE};
            return g.pick(f);
        };
        for (unsigned i = 0; i < K; ++i) {
            Call n;
            if (i == 0 || g.chance(1, 4)) {
                n.fn = pick_fn();
                n.op = fresh_op();
                n.exp = (i == 0 && g.chance(1, 2)) ? n.op : g.edge16();
                n.cfg = g.chance(1, 2) ? -1 : (int)g.below(4);
                n.rel = "fresh";
            } else {
                n = seq[i - 1 - g.below(std::min<u64>(i, 3))];
                switch (g.below(12)) {
                case 0: n.rel = "repeat"; break;
                case 1: n.fn = pick_fn(); n.rel = "other-entry-point"; break;
                case 2: n.op = (u16)(n.op ^ 0x8000); n.rel = "op^8000"; break;
                case 3: n.op = (u16)(n.op + 128 * (1 + g.below(511))); n.rel = "op+128k"; break;
                case 4: n.op = (u16)(n.op ^ (1u << g.below(16))); n.rel = "op^bit"; break;
                case 5: n.op = (u16)(n.op ^ 0xFF00); n.rel = "op^ff00"; break;
                case 6: n.exp = g.chance(1, 2) ? (u16)(n.exp ^ (1u << g.below(16))) : g.edge16(); n.rel = "other-exp"; break;
                case 7: n.cfg = n.cfg == 0 ? 1 : 0; n.fn = g.chance(1, 2) ? F_DO : F_TOKENS; n.rel = "cfg-arp-only"; break;
                case 8: n.cfg = n.cfg == 0 ? 2 : 0; n.fn = g.chance(1, 2) ? F_DO : F_TOKENS; n.rel = "cfg-ar-only"; break;
                case 9: n.cfg = n.cfg < 0 ? (int)g.below(4) : -1; n.fn = g.chance(1, 2) ? F_DO : F_TOKENS; n.rel = "cfg-on-off"; break;
                case 10: n.op = (u16)(n.op ^ 0x0080); n.rel = "op^80"; break;
                case 11: n.op = fresh_op(); n.rel = "other-op-same-rest"; break;
                }
                if ((n.rel[0] == 'c' && n.rel[1] == 'f') && g.chance(3, 4) && i >= 1) {
                    // settings relations only matter on opcodes that print them: move the pair onto one
                    u16 op = g.pick(sens);
                    Call prev = seq[i - 1];
                    if (uses_cfg(prev.fn)) {
                        n.op = prev.op;
                        n.exp = prev.exp;
                        n.fn = prev.fn;
                        n.cfg = (std::string(n.rel) == "cfg-on-off") ? (prev.cfg < 0 ? (int)g.below(4) : -1)
                                : (std::string(n.rel) == "cfg-arp-only") ? (prev.cfg == 0 ? 1 : 0)
                                                                         : (prev.cfg == 0 ? 2 : 0);
                    } else {
                        n.op = op;
                    }
                }
            }
            if (pristine && n.fn == F_PARSE)
                n.fn = F_DECODE;
            seq.push_back(n);
            ctx.seen("nt", fmt("%s:%s", fn_name[n.fn], n.rel));
            ctx.count(std::string("rel_") + n.rel);
        }
        ctx.count("cases");
        ctx.count(pristine ? "histories_from_pristine_process" : "histories_after_parser_generation");
        ctx.count("calls", K);

        std::fflush(ctx.out);
        int fd[2];
        if (pipe(fd))
            std::abort();
        pid_t pid = fork();
        if (pid == 0) {
            close(fd[0]);
            ChildReport rep;
            std::vector<std::string> in_hist(K), again(K), clean(K);
            for (unsigned i = 0; i < K; ++i)
                in_hist[i] = run_call(env, seq[i]);
            for (unsigned i = K; i-- > 0;)
                again[i] = run_call(env, seq[i]);
            for (unsigned i = 0; i < K; ++i) {
                std::thread th([&, i] { clean[i] = run_call(env, seq[i]); });
                th.join();
            }
            auto hist = [&](unsigned upto) {
                std::string h;
                for (unsigned i = (upto > 6 ? upto - 6 : 0); i <= upto; ++i)
                    h += call_str(seq[i]) + " ";
                return h;
            };
            for (unsigned i = 0; i < K; ++i) {
                const Call& cl = seq[i];
                rep.comparisons += 2;
                if (in_hist[i] != clean[i] || again[i] != clean[i]) {
                    ++rep.violations;
                    bool first = i == 0;
                    ctx.violation(fmt("purity:%s:%s%s", fn_name[cl.fn], cl.rel, first ? ":first-call" : ""),
                                  fmt("%s returned '%s' in this history, '%s' when repeated later and '%s' as the first call of a new thread",
                                      call_str(cl).c_str(), in_hist[i].substr(0, 80).c_str(), again[i].substr(0, 80).c_str(),
                                      clean[i].substr(0, 80).c_str()),
                                  c, JObj().str("history_tail", hist(i)).num("position", i).done());
                }
            }
            // O2: every view of (op, exp, cfg), computed one after the other in one new thread per call
            for (unsigned i = 0; i < K; ++i) {
                const Call& cl = seq[i];
                std::string tok, doo, cdo, clen, need, cneed, dec;
                const bool texts = uses_cfg(cl.fn) || cl.fn == F_CDO || cl.fn == F_CLEN;
                Call base = cl;
                if (!uses_cfg(cl.fn))
                    base.cfg = -1;
                std::thread th([&] {
                    auto one = [&](u8 fn) {
                        Call x = base;
                        x.fn = fn;
                        return run_call(env, x);
                    };
                    if (texts) {
                        if (base.cfg < 0) {
                            cdo = one(F_CDO);
                            clen = one(F_CLEN);
                        }
                        doo = one(F_DO);
                        tok = one(F_TOKENS);
                    }
                    need = one(F_NEED);
                    cneed = one(F_CNEED);
                    dec = one(F_DECODE);
                });
                th.join();
                if (texts) {
                    ++rep.o2_checks;
                    std::string joined;
                    for (char ch : tok)
                        joined += (ch == '\x1f') ? std::string("    ") : std::string(1, ch);
                    if (tok.rfind("threw:", 0) != 0 && doo != joined) {
                        ++rep.violations;
                        ctx.violation("purity:do-vs-tokens", fmt("Do '%s' != joined tokens '%s' for %s", doo.substr(0, 80).c_str(), joined.substr(0, 80).c_str(), call_str(cl).c_str()), c);
                    }
                    if (base.cfg < 0 && doo.rfind("threw:", 0) != 0) {
                        ++rep.o2_checks;
                        if (cdo != fmt("%zu:", doo.size()) + doo || clen != fmt("%zu", doo.size())) {
                            ++rep.violations;
                            ctx.violation("purity:c-binding-vs-do",
                                          fmt("C binding '%s' / length %s but Do '%s' for %s", cdo.substr(0, 80).c_str(), clen.c_str(), doo.substr(0, 80).c_str(), call_str(cl).c_str()), c);
                        }
                    }
                }
                Form f;
                bool expanded = false;
                table.Decode(cl.op, cl.exp, f, expanded);
                std::string want = f.str() + (expanded ? "+x" : "");
                ++rep.o2_checks;
                if (need != cneed || need != (expanded ? "1" : "0") || (dec.rfind("threw:", 0) != 0 && dec != want)) {
                    ++rep.violations;
                    ctx.violation("purity:need-or-form",
                                  fmt("op %04x: NeedExpansion C++ %s, C %s, table row %d; Decode<V> form '%s', first matching row '%s'", cl.op,
                                      need.c_str(), cneed.c_str(), (int)expanded, dec.c_str(), want.c_str()),
                                  c);
                }
            }
            std::fflush(ctx.out);
            (void)!write(fd[1], &rep, sizeof rep);
            _exit(0);
        }
        close(fd[1]);
        ChildReport rep;
        ssize_t got = read(fd[0], &rep, sizeof rep);
        close(fd[0]);
        int st = 0;
        waitpid(pid, &st, 0);
        if (got != (ssize_t)sizeof rep || !WIFEXITED(st) || WEXITSTATUS(st) != 0) {
            ctx.violation("purity:child-died", fmt("the history ended the process (status %x)", st), c,
                          JObj().str("first_call", call_str(seq[0])).done());
            continue;
        }
        ctx.count("determinism_comparisons", rep.comparisons);
        ctx.count("consistency_checks", rep.o2_checks);
        ctx.violations += (int)rep.violations;
        if (c < 2)
            ctx.sample(JObj().str("mode", "purity").num("calls", K).str("first_calls", call_str(seq[0]) + " " + call_str(seq[1]) + " " + call_str(seq[2])).unum("comparisons", rep.comparisons).done());
    }
    }
    return ctx.finish();
}
