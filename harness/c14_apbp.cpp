// C14 — APBP mailboxes and semaphores follow the documented handshake in both directions.
// Oracle: models/apbp.h (independent model of one direction, written from the statement + apbp.md), one instance
// per direction, compared after EVERY operation with everything the real code lets one observe.
// mode "direct": two real Teakra::Apbp objects (apbp.h), both driven by random single-threaded histories.
// mode "facade": a real Teakra::Teakra; the CPU side is the host API (SendData/RecvData/PeekRecvData/
//   RecvDataIsReady/SendDataIsEmpty/Set|Clear|Mask|GetSemaphore + SetRecvDataHandler/SetSemaphoreHandler logs), the DSP side
//   is MMIO 0x0C0-0x0D8 through Teakra::MMIORead/MMIOWrite; the DSP's interrupt is ICU request bit 14 (0x200, ack 0x202).
// Clauses and their violation-key stems:
//   ready-flag / recv-value / peek-value / data-irq-missed / data-irq-when-disabled / data-irq-spurious /
//   sem-value / sem-mask / signal-flag / sem-irq-missed / sem-irq-spurious / irq-disable-readback / status:<reg>.<bit> /
//   peek-changes-ready; the suffix names the operation when it belongs to the clause, else "unrelated-op"
#include <array>
#include <deque>
#include <functional>
#include <vector>
#include "apbp.h"
#include "crash.h"
#include "teakra/teakra.h"
#include "core_shim.h"
#include "models/apbp.h"
#include "worker.h"

using namespace vf;
using model::ApbpDir;
using model::SemIrq;

namespace {

u16 sembits(Rng& g, const ApbpDir& m, int bias) {
    // bias 0: set, 1: acknowledge, 2: mask
    unsigned s = (unsigned)g.below(12);
    if (bias == 1 && s >= 9)
        return g.chance(1, 2) ? m.sem : (u16)0xFFFF; // clear everything: the next set is a rise
    if (bias == 2 && s >= 9)
        return s == 9 ? m.sem : s == 10 ? (u16)0xFFFF : (u16)0; // mask exactly what is pending / all / nothing
    switch (s % 9) {
    case 0: return 0;
    case 1: return (u16)(1u << g.below(16));
    case 2: return (u16)(1u << g.below(3));
    case 3: return (u16)(g.bits(16) & 0x000F);
    case 4: return (u16)~m.sem;
    case 5: return m.mask;
    case 6: return (u16)~m.mask;
    case 7: return (u16)(m.sem & (u16)g.bits(16));
    default: return (u16)g.bits(16);
    }
}
u16 fresh_value(Rng& g, const ApbpDir::Chan& ch) {
    // mostly a value different from the one in the channel (so a stale read is distinguishable); one time in five the
    // very same word again: an overwrite with an identical value is still a write (flag set, interrupt raised)
    if (ch.written && g.chance(1, 5))
        return ch.data;
    u16 v;
    do
        v = g.edge16();
    while (ch.written && v == ch.data);
    return v;
}
const char* sig_edge(bool b, bool a) { return !b ? (a ? "rise" : "stay0") : (a ? "stay1" : "fall"); }

// keys name the operation only when it belongs to the clause (a data op for mailbox clauses, a semaphore op for
// semaphore clauses); anything else is "unrelated-op", so one defect cannot fan out over every op name
bool is_data_op(const std::string& op) {
    return op.find("send") != std::string::npos || op.find("recv") != std::string::npos || op.find("peek") != std::string::npos ||
           op.find("setdisable") != std::string::npos;
}
bool is_sem_op(const std::string& op) { return op.find("sem") != std::string::npos; }

struct History {
    std::deque<std::string> h;
    void add(const std::string& s) {
        h.push_back(s);
        if (h.size() > 40)
            h.pop_front();
    }
    std::string str() const {
        std::string o;
        for (auto& s : h)
            o += s + "; ";
        return o;
    }
};
std::string mstate(const ApbpDir& m) {
    std::string s;
    for (int i = 0; i < 3; ++i)
        s += fmt("ch%d{data=%04x ready=%d dis=%d} ", i, m.ch[i].data, m.ch[i].ready, m.ch[i].irq_disable);
    return s + fmt("sem=%04x mask=%04x signal=%d", m.sem, m.mask, m.signal());
}

// collected mismatches of one operation: all of them are reported, then the case stops
struct Fails {
    std::vector<std::pair<std::string, std::string>> v;
    void add(const std::string& key, const std::string& what) {
        for (auto& p : v)
            if (p.first == key)
                return;
        v.push_back({key, what});
    }
};

// ------------------------------------------------------------------------------------------- direct
struct Port {
    Teakra::Apbp dev;
    u64 data_calls[3] = {0, 0, 0};
    u64 sem_calls = 0;
    unsigned data_tag[3] = {0, 0, 0}, sem_tag = 0;            // generation of the installed handler
    unsigned data_seen_tag[3] = {0, 0, 0}, sem_seen_tag = 0;  // generation of the handler that last ran
    void install_data(unsigned i) {
        unsigned tag = ++data_tag[i];
        dev.SetDataHandler(i, [this, i, tag] {
            ++data_calls[i];
            data_seen_tag[i] = tag;
        });
    }
    void install_sem() {
        unsigned tag = ++sem_tag;
        dev.SetSemaphoreHandler([this, tag] {
            ++sem_calls;
            sem_seen_tag = tag;
        });
    }
    Port() {
        for (unsigned i = 0; i < 3; ++i)
            install_data(i);
        install_sem();
    }
};

void run_direct(Ctx& ctx, u64 c, unsigned nops) {
    Rng g = ctx.case_rng(c);
    Port P[2];
    ApbpDir M[2];
    History hist;
    bool bad = false;

    for (unsigned op = 0; op < nops && !bad; ++op) {
        unsigned d = (unsigned)g.below(2), i = (unsigned)g.below(3);
        unsigned kind = (unsigned)g.below(100);
        bool sig0[2] = {M[0].signal(), M[1].signal()};
        u64 dc0[2][3], sc0[2];
        for (int e = 0; e < 2; ++e) {
            sc0[e] = P[e].sem_calls;
            for (int q = 0; q < 3; ++q)
                dc0[e][q] = P[e].data_calls[q];
        }
        int want_data[2][3] = {{0, 0, 0}, {0, 0, 0}}; // exact number of data-handler invocations demanded
        std::string opname, nt;
        Fails F;
        RunResult rr;
        Teakra::Apbp& dev = P[d].dev;
        ApbpDir& m = M[d];
        if (kind < 18) {
            opname = "send";
            u16 v = fresh_value(g, m.ch[i]);
            hist.add(fmt("d%u.SendData(%u,%04x)", d, i, v));
            nt = fmt("direct:send:ready=%d:dis=%d", m.ch[i].ready, m.ch[i].irq_disable);
            rr = Classify([&] { dev.SendData(i, v); });
            bool must = m.send(i, v);
            want_data[d][i] = must ? 1 : 0;
            ctx.count("op_send");
            ctx.count(must ? "data_irq_expected" : "data_irq_suppressed");
            if (must && rr.outcome == OK && P[d].data_seen_tag[i] != P[d].data_tag[i] && P[d].data_calls[i] != dc0[d][i])
                F.add("direct:handler-stale:send", "a replaced data handler was invoked");
        } else if (kind < 30) {
            opname = "recv";
            u16 got = 0;
            nt = fmt("direct:recv:ready=%d:written=%d", m.ch[i].ready, m.ch[i].written);
            rr = Classify([&] { got = dev.RecvData(i); });
            bool written = m.ch[i].written;
            u16 exp = m.recv(i);
            hist.add(fmt("d%u.RecvData(%u)=%04x", d, i, got));
            if (written) {
                ctx.count("recv_value_checked");
                if (got != exp)
                    F.add("direct:recv-value:recv", fmt("RecvData returned %04x, most recently written %04x", got, exp));
            }
            ctx.count("op_recv");
        } else if (kind < 36) {
            opname = "peek";
            u16 got = 0;
            nt = fmt("direct:peek:ready=%d:written=%d", m.ch[i].ready, m.ch[i].written);
            rr = Classify([&] { got = dev.PeekData(i); });
            hist.add(fmt("d%u.PeekData(%u)=%04x", d, i, got));
            if (m.ch[i].written && got != m.peek(i))
                F.add("direct:peek-value:peek", fmt("PeekData returned %04x, most recently written %04x", got, m.peek(i)));
            ctx.count("op_peek");
        } else if (kind < 40) {
            opname = "query";
            hist.add(fmt("d%u.queries", d));
            nt = "direct:query";
            ctx.count("op_query");
        } else if (kind < 48) {
            opname = "setdisable";
            u16 v = g.chance(1, 2);
            hist.add(fmt("d%u.SetDisableInterrupt(%u,%u)", d, i, v));
            nt = fmt("direct:setdisable:%d->%d:ready=%d", m.ch[i].irq_disable, v, m.ch[i].ready);
            rr = Classify([&] { dev.SetDisableInterrupt(i, v); });
            m.ch[i].irq_disable = v != 0;
            ctx.count("op_setdisable");
        } else if (kind < 64) {
            opname = "semset";
            u16 v = sembits(g, m, 0);
            hist.add(fmt("d%u.SetSemaphore(%04x)", d, v));
            rr = Classify([&] { dev.SetSemaphore(v); });
            m.set(v);
            nt = fmt("direct:semset:%s:masked-bits=%d", sig_edge(sig0[d], m.signal()), (v & m.mask) != 0);
            ctx.count("op_semset");
        } else if (kind < 78) {
            opname = "semack";
            u16 v = sembits(g, m, 1);
            hist.add(fmt("d%u.ClearSemaphore(%04x)", d, v));
            rr = Classify([&] { dev.ClearSemaphore(v); });
            m.ack(v);
            nt = fmt("direct:semack:%s", sig_edge(sig0[d], m.signal()));
            ctx.count("op_semack");
        } else if (kind < 92) {
            opname = "semmask";
            u16 v = sembits(g, m, 2);
            hist.add(fmt("d%u.MaskSemaphore(%04x)", d, v));
            rr = Classify([&] { dev.MaskSemaphore(v); });
            m.set_mask(v);
            nt = fmt("direct:semmask:%s", sig_edge(sig0[d], m.signal()));
            ctx.count("op_semmask");
            if (!sig0[d] && m.signal())
                ctx.count("sem_rise_by_unmask");
            if (sig0[d] && !m.signal())
                ctx.count("sem_fall_by_mask");
        } else {
            opname = "rehandler";
            bool sem = g.chance(1, 3);
            hist.add(sem ? fmt("d%u.SetSemaphoreHandler(new)", d) : fmt("d%u.SetDataHandler(%u,new)", d, i));
            nt = sem ? "direct:rehandler:sem" : "direct:rehandler:data";
            rr = Classify([&] {
                if (sem)
                    P[d].install_sem();
                else
                    P[d].install_data(i);
            });
            ctx.count("op_rehandler");
        }
        if (rr.outcome != OK)
            F.add("direct:assert:" + opname, std::string("unexpected ") + outcome_name(rr.outcome) + " " + rr.what);

        // ---- everything observable, both objects, after every operation
        const std::string dks = is_data_op(opname) ? opname : "unrelated-op", sks = is_sem_op(opname) ? opname : "unrelated-op";
        const char *dk = dks.c_str(), *sk = sks.c_str();
        for (unsigned e = 0; e < 2 && rr.outcome == OK; ++e) {
            const Teakra::Apbp& x = P[e].dev;
            const ApbpDir& me = M[e];
            const char* who = e == d ? "" : ":other-object";
            for (unsigned q = 0; q < 3; ++q) {
                bool rdy = x.IsDataReady(q);
                if (rdy != me.ch[q].ready)
                    F.add(fmt("direct:ready-flag:%s%s", dk, who), fmt("IsDataReady(%u)=%d, model %d", q, rdy, me.ch[q].ready));
                u16 pk = x.PeekData(q);
                if (me.ch[q].written && pk != me.ch[q].data)
                    F.add(fmt("direct:peek-value:%s%s", dk, who), fmt("PeekData(%u)=%04x, most recently written %04x", q, pk, me.ch[q].data));
                if (x.IsDataReady(q) != rdy)
                    F.add("direct:peek-changes-ready", fmt("IsDataReady(%u) was %d before PeekData and %d after it", q, rdy, !rdy));
                if ((x.GetDisableInterrupt(q) != 0) != me.ch[q].irq_disable)
                    F.add(fmt("direct:irq-disable-readback:%s%s", dk, who),
                          fmt("GetDisableInterrupt(%u)=%u, model %d", q, x.GetDisableInterrupt(q), me.ch[q].irq_disable));
                s64 delta = (s64)(P[e].data_calls[q] - dc0[e][q]);
                if (delta < want_data[e][q])
                    F.add(fmt("direct:data-irq-missed:%s", dk), fmt("data handler %u not invoked by a write with the interrupt enabled", q));
                else if (delta > want_data[e][q])
                    F.add(fmt("direct:%s:%s%s",
                              (opname == "send" && e == d && q == i) ? (me.ch[q].irq_disable ? "data-irq-when-disabled" : "data-irq-duplicated")
                                                                     : "data-irq-spurious",
                              dk, who),
                          fmt("data handler %u invoked %" PRId64 " times, demanded %d", q, delta, want_data[e][q]));
            }
            if (x.GetSemaphore() != me.sem)
                F.add(fmt("direct:sem-value:%s%s", sk, who), fmt("GetSemaphore()=%04x, model %04x", x.GetSemaphore(), me.sem));
            if (x.GetSemaphoreMask() != me.mask)
                F.add(fmt("direct:sem-mask:%s%s", sk, who), fmt("GetSemaphoreMask()=%04x, model %04x", x.GetSemaphoreMask(), me.mask));
            ctx.count("signal_flag_checks");
            if (x.IsSemaphoreSignaled() != me.signal())
                F.add(fmt("direct:signal-flag:%s%s", sk, who),
                      fmt("IsSemaphoreSignaled()=%d but semaphore=%04x mask=%04x => %d", x.IsSemaphoreSignaled(), me.sem, me.mask, me.signal()));
            SemIrq rule = ApbpDir::edge(sig0[e], me.signal());
            u64 sdelta = P[e].sem_calls - sc0[e];
            if (rule == SemIrq::Required) {
                ctx.count("sem_rise");
                if (sdelta == 0)
                    F.add(fmt("direct:sem-irq-missed:%s", sk), "signal flag rose (0->1) and the semaphore handler was not invoked");
                else if (P[e].sem_seen_tag != P[e].sem_tag)
                    F.add("direct:handler-stale:sem", "a replaced semaphore handler was invoked");
            } else if (rule == SemIrq::Forbidden) {
                ctx.count("sem_stay0");
                if (sdelta != 0)
                    F.add(fmt("direct:sem-irq-spurious:%s%s", sk, who), "semaphore handler invoked while the signal flag stayed 0");
            }
        }
        if (!F.v.empty()) {
            bad = true;
            for (auto& f : F.v) {
                JObj j;
                j.str("what", f.second).str("history_tail", hist.str()).str("model_d0", mstate(M[0])).str("model_d1", mstate(M[1]));
                j.str("real", fmt("d%u: sem=%04x mask=%04x signaled=%d sem_handler_calls(this op)=%" PRIu64, d, P[d].dev.GetSemaphore(),
                                  P[d].dev.GetSemaphoreMask(), P[d].dev.IsSemaphoreSignaled(), P[d].sem_calls - sc0[d]));
                ctx.violation(f.first, f.second, c, j.done());
            }
            break;
        }
        ctx.seen("nt", nt);
        ctx.count("ops");
    }
    ctx.count("cases");
    ctx.count("histories_direct");
    if (!bad && c < 2)
        ctx.sample(JObj().num("case", (s64)c).str("mode", "direct").str("history_tail", hist.str()).str("final_d0", mstate(M[0])).done());
}

// ------------------------------------------------------------------------------------------- facade
void run_facade(Ctx& ctx, u64 c, unsigned nops) {
    Rng g = ctx.case_rng(c);
    Teakra::Teakra t{Teakra::UserConfig{}};
    if (g.chance(1, 2))
        t.Reset();
    enum { C2D = 0, D2C = 1 };
    ApbpDir M[2]; // M[C2D]: CPU -> DSP, M[D2C]: DSP -> CPU
    u64 recv_calls[3] = {0, 0, 0}, sem_calls = 0;
    unsigned recv_tag[3] = {0, 0, 0}, recv_seen[3] = {0, 0, 0}, sem_tag = 0, sem_seen = 0;
    auto install_recv = [&](unsigned i) {
        unsigned tag = ++recv_tag[i];
        t.SetRecvDataHandler((std::uint8_t)i, [&recv_calls, &recv_seen, i, tag] {
            ++recv_calls[i];
            recv_seen[i] = tag;
        });
    };
    auto install_sem = [&] {
        unsigned tag = ++sem_tag;
        t.SetSemaphoreHandler([&sem_calls, &sem_seen, tag] {
            ++sem_calls;
            sem_seen = tag;
        });
    };
    for (unsigned i = 0; i < 3; ++i)
        install_recv(i);
    install_sem();
    // model of ICU request bit 14: lo = certainly pending, hi = possibly pending
    bool icu_lo = false, icu_hi = false;
    bool sprime_reported = false;
    History hist;
    bool bad = false;
    static const unsigned cbit6[3] = {8, 12, 13};  // 0x0D6: C0, C1, C2
    static const unsigned disbit[3] = {8, 12, 13}; // 0x0D4: CI0, CI1, CI2

    // long runs of unread writes to one channel: now and then a channel is written 240 (or 65520) times without a read and
    // the following 20 operations are forced to be further writes to it, each followed by the full observation, so that
    // the number of consecutive unread writes walks through 255/256/257 (65535/65536/65537)
    unsigned forced_left = 0, forced_dir = 0, forced_i = 0;
    for (unsigned op = 0; op < nops && !bad; ++op) {
        unsigned i = (unsigned)g.below(3);
        unsigned kind = (unsigned)g.below(100);
        if (forced_left == 0 && g.chance(1, 150)) {
            forced_dir = (unsigned)g.below(2);
            forced_i = (unsigned)g.below(3);
            const unsigned pre = g.chance(1, 4) ? 65520 : 240;
            RunResult pr = Classify([&] {
                for (unsigned k = 0; k < pre; ++k) {
                    u16 v = (u16)(0x4000 + k);
                    if (forced_dir == 0) {
                        t.SendData((std::uint8_t)forced_i, v);
                        if (M[C2D].send(forced_i, v))
                            icu_lo = icu_hi = true;
                    } else {
                        t.MMIOWrite((u16)(0x0C0 + 4 * forced_i), v);
                        M[D2C].send(forced_i, v);
                    }
                }
            });
            if (pr.outcome != OK) {
                ctx.violation("facade:assert:write-run", "a run of unread writes ended in " + pr.what, c);
                break;
            }
            hist.add(fmt("%s x%u without a read", forced_dir == 0 ? fmt("host:SendData(%u,..)", forced_i).c_str() : fmt("dsp:write REPLY%u", forced_i).c_str(), pre));
            ctx.count("unread_write_runs");
            ctx.count("unread_write_run_words", pre);
            ctx.seen("nt", fmt("facade:unread-run:%s:%u", forced_dir == 0 ? "host" : "dsp", pre));
            forced_left = 20;
        }
        if (forced_left) {
            --forced_left;
            i = forced_i;
            kind = forced_dir == 0 ? 0 : 16; // host-send / dsp-send
        }
        // keep the pending bit mostly clear so that every demanded interrupt is visible as a 0->1 change
        if (icu_hi && g.chance(4, 5)) {
            t.MMIOWrite(0x202, 0x4000);
            icu_lo = icu_hi = false;
            hist.add("dsp:write 0x202=4000 (ack irq 14)");
            ctx.count("icu_acks");
        }
        bool sig0[2] = {M[0].signal(), M[1].signal()};
        u64 rc0[3] = {recv_calls[0], recv_calls[1], recv_calls[2]}, sc0 = sem_calls;
        bool icu_before_hi = icu_hi;
        int want_recv[3] = {0, 0, 0};
        bool c2d_send_must = false, c2d_send = false;
        std::string opname, nt;
        Fails F;
        RunResult rr;
        if (kind < 9) { // ---------------------------------------------------------------- CPU -> DSP data
            opname = "host-send";
            u16 v = fresh_value(g, M[C2D].ch[i]);
            hist.add(fmt("host:SendData(%u,%04x)", i, v));
            nt = fmt("facade:host-send:ready=%d:dis=%d", M[C2D].ch[i].ready, M[C2D].ch[i].irq_disable);
            rr = Classify([&] { t.SendData((std::uint8_t)i, v); });
            c2d_send = true;
            c2d_send_must = M[C2D].send(i, v);
            ctx.count("op_host_send");
            ctx.count(c2d_send_must ? "icu14_data_expected" : "icu14_data_suppressed");
        } else if (kind < 16) {
            opname = "dsp-recv";
            u16 got = 0;
            nt = fmt("facade:dsp-recv:ready=%d:written=%d", M[C2D].ch[i].ready, M[C2D].ch[i].written);
            rr = Classify([&] { got = t.MMIORead((u16)(0x0C2 + 4 * i)); });
            bool written = M[C2D].ch[i].written;
            u16 exp = M[C2D].recv(i);
            hist.add(fmt("dsp:read 0x%03X (CMD%u)=%04x", 0x0C2 + 4 * i, i, got));
            if (written) {
                ctx.count("recv_value_checked");
                if (got != exp)
                    F.add("facade:recv-value:dsp-recv", fmt("CMD%u read %04x, most recently written %04x", i, got, exp));
            }
            ctx.count("op_dsp_recv");
        } else if (kind < 25) { // ---------------------------------------------------------- DSP -> CPU data
            opname = "dsp-send";
            u16 v = fresh_value(g, M[D2C].ch[i]);
            hist.add(fmt("dsp:write 0x%03X (REPLY%u)=%04x", 0x0C0 + 4 * i, i, v));
            nt = fmt("facade:dsp-send:ready=%d", M[D2C].ch[i].ready);
            rr = Classify([&] { t.MMIOWrite((u16)(0x0C0 + 4 * i), v); });
            want_recv[i] = M[D2C].send(i, v) ? 1 : 0;
            ctx.count("op_dsp_send");
            ctx.count("host_data_irq_expected");
            if (rr.outcome == OK && recv_calls[i] != rc0[i] && recv_seen[i] != recv_tag[i])
                F.add("facade:handler-stale:dsp-send", "a replaced receive handler was invoked");
        } else if (kind < 32) {
            opname = "host-recv";
            u16 got = 0;
            nt = fmt("facade:host-recv:ready=%d:written=%d", M[D2C].ch[i].ready, M[D2C].ch[i].written);
            rr = Classify([&] { got = t.RecvData((std::uint8_t)i); });
            bool written = M[D2C].ch[i].written;
            u16 exp = M[D2C].recv(i);
            hist.add(fmt("host:RecvData(%u)=%04x", i, got));
            if (written) {
                ctx.count("recv_value_checked");
                if (got != exp)
                    F.add("facade:recv-value:host-recv", fmt("RecvData(%u) returned %04x, most recently written %04x", i, got, exp));
            }
            ctx.count("op_host_recv");
        } else if (kind < 36) {
            opname = "peek";
            hist.add("peek/query only");
            nt = "facade:peek";
            ctx.count("op_peek");
        } else if (kind < 40) { // writes that the notes define as having no effect on APBP state
            opname = "dsp-inert-write";
            static const u16 regs[] = {0x0C2, 0x0C6, 0x0CA, 0x0D2, 0x0D6, 0x0D8};
            u16 a = g.pick(regs), v = (u16)g.bits(16);
            hist.add(fmt("dsp:write 0x%03X=%04x (read-only register)", a, v));
            nt = fmt("facade:inert-write:%03X", a);
            rr = Classify([&] { t.MMIOWrite(a, v); });
            ctx.count("op_dsp_inert_write");
        } else if (kind < 48) { // ---------------------------------------------------------- interrupt disable
            opname = "dsp-setdisable";
            u16 v = (u16)g.bits(16);
            if (g.chance(1, 2))
                v &= 0x3104; // only the documented bits
            hist.add(fmt("dsp:write 0x0D4=%04x", v));
            nt = fmt("facade:setdisable:%d%d%d", (v >> 8) & 1, (v >> 12) & 1, (v >> 13) & 1);
            rr = Classify([&] { t.MMIOWrite(0x0D4, v); });
            for (unsigned q = 0; q < 3; ++q)
                M[C2D].ch[q].irq_disable = (v >> disbit[q]) & 1;
            ctx.count("op_dsp_setdisable");
        } else if (kind < 57) { // ---------------------------------------------------------- CPU -> DSP semaphore
            opname = "host-semset";
            u16 v = sembits(g, M[C2D], 0);
            hist.add(fmt("host:SetSemaphore(%04x)", v));
            rr = Classify([&] { t.SetSemaphore(v); });
            M[C2D].set(v);
            nt = fmt("facade:host-semset:%s", sig_edge(sig0[C2D], M[C2D].signal()));
            ctx.count("op_host_semset");
        } else if (kind < 65) {
            opname = "dsp-semack";
            u16 v = sembits(g, M[C2D], 1);
            hist.add(fmt("dsp:write 0x0D0=%04x (ack)", v));
            rr = Classify([&] { t.MMIOWrite(0x0D0, v); });
            M[C2D].ack(v);
            nt = fmt("facade:dsp-semack:%s", sig_edge(sig0[C2D], M[C2D].signal()));
            ctx.count("op_dsp_semack");
        } else if (kind < 73) {
            opname = "dsp-semmask";
            u16 v = sembits(g, M[C2D], 2);
            hist.add(fmt("dsp:write 0x0CE=%04x (mask)", v));
            rr = Classify([&] { t.MMIOWrite(0x0CE, v); });
            M[C2D].set_mask(v);
            nt = fmt("facade:dsp-semmask:%s", sig_edge(sig0[C2D], M[C2D].signal()));
            ctx.count("op_dsp_semmask");
            if (!sig0[C2D] && M[C2D].signal())
                ctx.count("sem_rise_by_unmask");
        } else if (kind < 81) { // ---------------------------------------------------------- DSP -> CPU semaphore
            opname = "dsp-semset";
            u16 v = sembits(g, M[D2C], 0);
            hist.add(fmt("dsp:write 0x0CC=%04x (set)", v));
            rr = Classify([&] { t.MMIOWrite(0x0CC, v); });
            M[D2C].set(v);
            nt = fmt("facade:dsp-semset:%s", sig_edge(sig0[D2C], M[D2C].signal()));
            ctx.count("op_dsp_semset");
        } else if (kind < 88) {
            opname = "host-semack";
            u16 v = sembits(g, M[D2C], 1);
            hist.add(fmt("host:ClearSemaphore(%04x)", v));
            rr = Classify([&] { t.ClearSemaphore(v); });
            M[D2C].ack(v);
            nt = fmt("facade:host-semack:%s", sig_edge(sig0[D2C], M[D2C].signal()));
            ctx.count("op_host_semack");
        } else if (kind < 96) {
            opname = "host-semmask";
            u16 v = sembits(g, M[D2C], 2);
            hist.add(fmt("host:MaskSemaphore(%04x)", v));
            rr = Classify([&] { t.MaskSemaphore(v); });
            M[D2C].set_mask(v);
            nt = fmt("facade:host-semmask:%s", sig_edge(sig0[D2C], M[D2C].signal()));
            ctx.count("op_host_semmask");
            if (!sig0[D2C] && M[D2C].signal())
                ctx.count("sem_rise_by_unmask");
        } else {
            opname = "rehandler";
            bool sem = g.chance(1, 3);
            hist.add(sem ? std::string("host:SetSemaphoreHandler(new)") : fmt("host:SetRecvDataHandler(%u,new)", i));
            nt = sem ? "facade:rehandler:sem" : "facade:rehandler:data";
            rr = Classify([&] {
                if (sem)
                    install_sem();
                else
                    install_recv(i);
            });
            ctx.count("op_rehandler");
        }
        if (rr.outcome != OK)
            F.add("facade:assert:" + opname, std::string("unexpected ") + outcome_name(rr.outcome) + " " + rr.what);

        // ---- observe everything after every operation (all of these reads are side-effect free)
        u16 r6 = 0, r8 = 0, r4 = 0, req = 0, sem_c2d = 0, mask_c2d = 0, sem_d2c_dsp = 0, sem_d2c_host = 0, reply_peek[3] = {0, 0, 0},
            host_peek[3] = {0, 0, 0};
        bool host_ready[3] = {false, false, false}, host_empty[3] = {false, false, false};
        int peek_changed = -1;
        if (rr.outcome == OK) {
            RunResult ro = Classify([&] {
                r6 = t.MMIORead(0x0D6);
                r8 = t.MMIORead(0x0D8);
                r4 = t.MMIORead(0x0D4);
                req = t.MMIORead(0x200);
                sem_c2d = t.MMIORead(0x0D2);
                mask_c2d = t.MMIORead(0x0CE);
                sem_d2c_dsp = t.MMIORead(0x0CC);
                sem_d2c_host = t.GetSemaphore();
                for (unsigned q = 0; q < 3; ++q) {
                    host_ready[q] = t.RecvDataIsReady((std::uint8_t)q);
                    host_empty[q] = t.SendDataIsEmpty((std::uint8_t)q);
                }
                for (unsigned q = 0; q < 3; ++q) { // peeking (host API and the DSP reading back its own REPLY) changes nothing
                    host_peek[q] = t.PeekRecvData((std::uint8_t)q);
                    reply_peek[q] = t.MMIORead((u16)(0x0C0 + 4 * q));
                    if (t.RecvDataIsReady((std::uint8_t)q) != host_ready[q])
                        peek_changed = (int)q;
                }
            });
            if (ro.outcome != OK)
                F.add("facade:assert:observe", std::string("unexpected ") + outcome_name(ro.outcome) + " " + ro.what);
            ctx.count("status_reads");
            if (peek_changed >= 0)
                F.add("facade:peek-changes-ready", fmt("RecvDataIsReady(%d) changed across PeekRecvData / a read of REPLY%d", peek_changed, peek_changed));
            const char* o = opname.c_str();
            const std::string dks = is_data_op(opname) ? opname : "unrelated-op", sks = is_sem_op(opname) ? opname : "unrelated-op";
            const char *dk = dks.c_str(), *sk = sks.c_str();
            for (unsigned q = 0; q < 3 && ro.outcome == OK; ++q) {
                // host API against the model
                if (host_ready[q] != M[D2C].ch[q].ready)
                    F.add(fmt("facade:ready-flag:%s", dk), fmt("RecvDataIsReady(%u)=%d, model %d", q, host_ready[q], M[D2C].ch[q].ready));
                if (host_empty[q] != !M[C2D].ch[q].ready)
                    F.add(fmt("facade:ready-flag:%s", dk), fmt("SendDataIsEmpty(%u)=%d, model ready=%d", q, host_empty[q], M[C2D].ch[q].ready));
                // DSP-side status registers against the host API
                bool R6 = (r6 >> (5 + q)) & 1, R8 = (r8 >> (10 + q)) & 1, C6 = (r6 >> cbit6[q]) & 1, C8 = (r8 >> (13 + q)) & 1;
                if (R6 != host_ready[q])
                    F.add(fmt("facade:status:0x0D6.R%u", q), fmt("0x0D6=%04x bit %u differs from RecvDataIsReady(%u)=%d", r6, 5 + q, q, host_ready[q]));
                if (R8 != host_ready[q])
                    F.add(fmt("facade:status:0x0D8.R%u", q), fmt("0x0D8=%04x bit %u differs from RecvDataIsReady(%u)=%d", r8, 10 + q, q, host_ready[q]));
                if (C6 != !host_empty[q])
                    F.add(fmt("facade:status:0x0D6.C%u", q), fmt("0x0D6=%04x bit %u differs from !SendDataIsEmpty(%u)=%d", r6, cbit6[q], q, !host_empty[q]));
                if (C8 != !host_empty[q])
                    F.add(fmt("facade:status:0x0D8.C%u", q), fmt("0x0D8=%04x bit %u differs from !SendDataIsEmpty(%u)=%d", r8, 13 + q, q, !host_empty[q]));
                // peeking
                if (M[D2C].ch[q].written) {
                    if (host_peek[q] != M[D2C].ch[q].data)
                        F.add(fmt("facade:peek-value:%s", dk), fmt("PeekRecvData(%u)=%04x, most recently written %04x", q, host_peek[q], M[D2C].ch[q].data));
                    if (reply_peek[q] != M[D2C].ch[q].data)
                        F.add(fmt("facade:peek-value:%s", dk), fmt("REPLY%u reads %04x, most recently written %04x", q, reply_peek[q], M[D2C].ch[q].data));
                }
                if ((bool)((r4 >> disbit[q]) & 1) != M[C2D].ch[q].irq_disable)
                    F.add(fmt("facade:irq-disable-readback:%s", dk), fmt("0x0D4=%04x bit %u, model %d", r4, disbit[q], M[C2D].ch[q].irq_disable));
                // host receive handlers: exactly one invocation per DSP write, none otherwise
                s64 delta = (s64)(recv_calls[q] - rc0[q]);
                if (delta < want_recv[q])
                    F.add(fmt("facade:data-irq-missed:%s", dk), fmt("receive handler %u not invoked by the DSP's write", q));
                else if (delta > want_recv[q])
                    F.add(fmt("facade:%s:%s", want_recv[q] ? "data-irq-duplicated" : "data-irq-spurious", dk),
                          fmt("receive handler %u invoked %" PRId64 " times, demanded %d", q, delta, want_recv[q]));
            }
            if (ro.outcome == OK) {
                if (sem_c2d != M[C2D].sem)
                    F.add(fmt("facade:sem-value:%s", sk), fmt("0x0D2=%04x, model CPU->DSP semaphore %04x", sem_c2d, M[C2D].sem));
                if (mask_c2d != M[C2D].mask)
                    F.add(fmt("facade:sem-mask:%s", sk), fmt("0x0CE=%04x, model CPU->DSP mask %04x", mask_c2d, M[C2D].mask));
                if (sem_d2c_dsp != M[D2C].sem || sem_d2c_host != M[D2C].sem)
                    F.add(fmt("facade:sem-value:%s", sk),
                          fmt("0x0CC=%04x GetSemaphore()=%04x, model DSP->CPU semaphore %04x", sem_d2c_dsp, sem_d2c_host, M[D2C].sem));
                // signal flags
                ctx.count("signal_flag_checks");
                bool S = (r6 >> 9) & 1, Sp = (r8 >> 9) & 1;
                if (S != M[C2D].signal())
                    F.add(fmt("facade:signal-flag:%s", sk),
                          fmt("0x0D6=%04x S=%d but GET_SEMAPHORE=%04x MASK_SEMAPHORE=%04x => %d", r6, S, M[C2D].sem, M[C2D].mask, M[C2D].signal()));
                if (!sprime_reported) {
                    ctx.count("sprime_checks");
                    if (Sp != M[D2C].signal()) {
                        // a view, not state: reported once per history under one key, the history goes on
                        sprime_reported = true;
                        JObj j;
                        j.str("what", fmt("0x0D8=%04x S'=%d but the CPU-side semaphore (DSP->CPU) is %04x with mask %04x => %d; the DSP-side flag S is %d",
                                          r8, Sp, M[D2C].sem, M[D2C].mask, M[D2C].signal(), S));
                        j.str("history_tail", hist.str()).str("model_cpu2dsp", mstate(M[C2D])).str("model_dsp2cpu", mstate(M[D2C]));
                        ctx.violation("facade:status:0x0D8.S'", "0x0D8 bit 9 (S', CPU-side signal flag) differs from ((DSP->CPU semaphore & ~CPU mask) != 0)", c, j.done());
                    }
                }
                // host semaphore handler (DSP -> CPU)
                SemIrq rule = ApbpDir::edge(sig0[D2C], M[D2C].signal());
                u64 sdelta = sem_calls - sc0;
                if (rule == SemIrq::Required) {
                    ctx.count("sem_rise");
                    ctx.count("sem_rise_d2c");
                    if (sdelta == 0)
                        F.add(fmt("facade:sem-irq-missed:%s", sk), "DSP->CPU signal flag rose (0->1) and the host semaphore handler was not invoked");
                    else if (sem_seen != sem_tag)
                        F.add("facade:handler-stale:sem", "a replaced semaphore handler was invoked");
                } else if (rule == SemIrq::Forbidden) {
                    ctx.count("sem_stay0");
                    if (sdelta != 0)
                        F.add(fmt("facade:sem-irq-spurious:%s", sk), "host semaphore handler invoked while the DSP->CPU signal flag stayed 0");
                }
                // the DSP's interrupt: ICU request bit 14
                rule = ApbpDir::edge(sig0[C2D], M[C2D].signal());
                bool must = false, may = false;
                if (c2d_send && c2d_send_must)
                    must = true;
                if (rule == SemIrq::Required) {
                    must = true;
                    ctx.count("sem_rise");
                    ctx.count("sem_rise_c2d");
                } else if (rule == SemIrq::Unconstrained)
                    may = true;
                else
                    ctx.count("sem_stay0");
                if (must)
                    icu_lo = icu_hi = true;
                else if (may)
                    icu_hi = true;
                bool p14 = (req >> 14) & 1;
                if (must && !icu_before_hi)
                    ctx.count("icu14_raise_observable");
                if (icu_lo && !p14)
                    F.add(fmt("facade:%s:%s", c2d_send ? "data-irq-missed" : "sem-irq-missed", c2d_send ? o : sk),
                          fmt("ICU request 0x200=%04x: bit 14 not set after an operation that must interrupt the DSP", req));
                if (!icu_hi && p14)
                    F.add(fmt("facade:%s:%s", c2d_send ? "data-irq-when-disabled" : (is_sem_op(opname) ? "sem-irq-spurious" : "dsp-irq-spurious"), c2d_send ? o : sk),
                          fmt("ICU request 0x200=%04x: bit 14 set although nothing may have interrupted the DSP", req));
                if (req & ~0x4000)
                    F.add("facade:icu-foreign-bits", fmt("ICU request 0x200=%04x: bits other than 14 set by APBP traffic", req));
            }
        }
        if (!F.v.empty()) {
            bad = true;
            for (auto& f : F.v) {
                JObj j;
                j.str("what", f.second).str("history_tail", hist.str()).str("model_cpu2dsp", mstate(M[C2D])).str("model_dsp2cpu", mstate(M[D2C]));
                j.str("real", fmt("0x0D6=%04x 0x0D8=%04x 0x0D4=%04x 0x200=%04x 0x0D2=%04x 0x0CE=%04x 0x0CC=%04x host_sem_handler_calls(this op)=%" PRIu64,
                                  r6, r8, r4, req, sem_c2d, mask_c2d, sem_d2c_dsp, sem_calls - sc0));
                ctx.violation(f.first, f.second, c, j.done());
            }
            break;
        }
        ctx.seen("nt", nt);
        ctx.count("ops");
    }
    ctx.count("cases");
    ctx.count("histories_facade");
    if (!bad && c < 1)
        ctx.sample(JObj().num("case", (s64)c).str("mode", "facade").str("history_tail", hist.str()).str("final_cpu2dsp", mstate(M[C2D]))
                       .str("final_dsp2cpu", mstate(M[D2C])).done());
}

} // namespace

int main(int argc, char** argv) {
    Ctx ctx;
    ctx.parse(argc, argv, "C14");
    const bool facade = ctx.mode == "facade";
    for (u64 c = 0; c < ctx.cases; ++c) {
        if (!ctx.selected(c))
            continue;
        if (facade)
            run_facade(ctx, c, 600);
        else
            run_direct(ctx, c, 200);
    }
    return ctx.finish();
}
