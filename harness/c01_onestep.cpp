// C01 — one-instruction effects match the hardware-validated reference.
// The SAME source is compiled twice: against /repo (flavour fast) and against the frozen reference
// /verif/ref (flavour ref). Modes:
//   (default)  tree side: forks the reference binary (--refbin) in mode refstream, generates the
//              identical seeded case sequence, executes it on the tree's interpreter and compares
//              per-case digests (outcome class, every public register field, ordered memory-access log).
//   refstream  reference side: writes 65536 opcode weights, then (outcome, digest) per case to fd 3.
//   dump       reference side: writes the full after-state of one case to fd 3.
//   genstream  clause (c): consumes the tree's own generator stream, replays each vector exactly as
//              src/test_verifier/main.cpp does and checks outcome / pc / data-access windows.
#include <sys/wait.h>
#include <unistd.h>
#include "exec.h"
#include "genstream.h"

using namespace vf;

namespace {

struct Case {
    u16 opcode, exp;
    CaseState st;
    // a pending vectored interrupt is delivered through SignalVectoredInterrupt (which defines the target address
    // and context-switch flag) instead of setting ipv directly: the pinned reference leaves those latch fields
    // uninitialised, so "ipv set without a signal" is not a state on which the reference behaves in a defined way
    bool vsignal = false;
    u32 vaddr = 0;
    bool vcs = false;
    bool sticky = false; // most registers shared with the other cases of its group of 8
};

struct Gen {
    std::vector<u16> slots; // opcodes of this shard, small handler classes repeated
    int idx_pc, idx_lp, idx_bcn, idx_end[4], idx_start[4], idx_sp, idx_ipv;
    Gen(const Ctx& ctx, const std::vector<u8>& weights) {
        for (u32 op = 0; op < 0x10000; ++op)
            if ((int)(op % (u32)ctx.nshards) == ctx.shard)
                for (int k = 0; k < weights[op]; ++k)
                    slots.push_back((u16)op);
        idx_pc = FieldIndex("pc");
        idx_lp = FieldIndex("lp");
        idx_bcn = FieldIndex("bcn");
        idx_sp = FieldIndex("sp");
        idx_ipv = FieldIndex("ipv");
        for (int i = 0; i < 4; ++i) {
            idx_end[i] = FieldIndex(fmt("bkrep_stack[%d].end", i));
            idx_start[i] = FieldIndex(fmt("bkrep_stack[%d].start", i));
        }
    }
    Case make(const Ctx& ctx, u64 c) const {
        Rng g = ctx.case_rng(c);
        Case k;
        k.opcode = slots[c % slots.size()];
        unsigned sel = (unsigned)g.below(8);
        static const u16 fixed[] = {0, 0xFFFF, 0x8000, 0x0001, 0x7FFF};
        if (sel < 2)
            k.exp = g.pick(fixed);
        else if (sel < 4)
            k.exp = (u16)((g.chance(1, 2) ? 0x6400 : 0xCC00) + g.below(0x200));
        else
            k.exp = (u16)g.bits(16);
        StateGenOpts o;
        o.loops = g.chance(1, 4);
        o.any_pc = g.chance(1, 2);
        o.random_ints = g.chance(1, 4);
        k.st = RandomState(g, o);
        if (g.chance(1, 2)) { // half of the cases: most registers as in the other cases of this group of 8 (see MixSticky)
            Rng gg = ctx.case_rng(c / 8, 0x6157);
            CaseState group = RandomState(gg);
            MixSticky(g, k.st, group);
            k.sticky = true;
        }
        if (k.st.v[idx_pc] > 0x3FFFD)
            k.st.v[idx_pc] = 0x3FFFD;
        if (k.st.v[idx_ipv]) {
            k.st.v[idx_ipv] = 0;
            k.vsignal = true;
            k.vaddr = (u32)g.below(0x40000);
            k.vcs = g.chance(1, 2);
        }
        if (k.st.v[idx_lp] && k.st.v[idx_bcn] >= 1 && g.chance(1, 2)) {
            // make the innermost loop end coincide with this instruction (one- or two-word)
            unsigned f = (unsigned)k.st.v[idx_bcn] - 1;
            k.st.v[idx_end[f]] = (k.st.v[idx_pc] + g.below(2)) & 0x3FFFF;
            k.st.v[idx_start[f]] = g.below(0x3FFFE);
        }
        return k;
    }
};

struct Exec {
    Machine m{true};
    CaseState after;
    RunResult rr;
    u64 digest = 0;
    u32 pc0 = 0;
    void run(const Case& k) {
        m.clean();
        m.load(k.st);
        pc0 = (u32)k.st.v[FieldIndexPc()];
        m.prog(pc0, k.opcode);
        m.prog(pc0 + 1, k.exp);
        if (k.vsignal)
            m.core.SignalVectoredInterrupt(k.vaddr, k.vcs);
        rr = m.run(1);
        after = m.capture();
        u64 h = mix(0xC01, (u64)rr.outcome);
        if (rr.outcome == OK) {
            h = Hash(after, h);
            // effects = final registers + the sequence of memory WRITES. Reads are not part of the comparison: how often
            // and in which order an implementation reads program words (prefetch, re-read, decode cache) is not behaviour,
            // and a data read that goes to a wrong address shows in the value it delivers (every cell holds a distinct
            // pattern); reads that reach peripheral registers are C11's subject (forms monitor).
            for (auto& a : m.log())
                if (a.write)
                    h = mix(h, ((u64)a.addr << 20) ^ a.value);
        }
        digest = h;
    }
    static int FieldIndexPc() {
        static int i = FieldIndex("pc");
        return i;
    }
    std::string logstr() const {
        std::string s;
        for (auto& a : m.log()) {
            s += fmt("%s%05x", a.write ? "W" : "R", a.addr);
            if (a.write)
                s += fmt("=%04x", a.value);
            s += " ";
        }
        return s;
    }
};

std::vector<u8> own_weights() {
    Encodings enc;
    std::vector<u8> w(0x10000, 1);
    for (u32 op = 0; op < 0x10000; ++op) {
        size_t n = enc.of(enc.all[op].form.name).size();
        w[op] = n < 64 ? 8 : 1;
    }
    return w;
}

bool read_all(int fd, void* buf, size_t n) {
    size_t got = 0;
    while (got < n) {
        ssize_t r = read(fd, (char*)buf + got, n - got);
        if (r <= 0)
            return false;
        got += (size_t)r;
    }
    return true;
}
void write_all(int fd, const void* buf, size_t n) {
    size_t put = 0;
    while (put < n) {
        ssize_t r = write(fd, (const char*)buf + put, n - put);
        if (r <= 0)
            _exit(9);
        put += (size_t)r;
    }
}

struct Child {
    pid_t pid = -1;
    int fd = -1;
    void start(const std::string& bin, const Ctx& ctx, const char* mode, s64 only_case) {
        int fds[2];
        if (pipe(fds) != 0)
            std::abort();
        pid = fork();
        if (pid == 0) {
            close(fds[0]);
            if (fds[1] != 3) {
                dup2(fds[1], 3);
                close(fds[1]);
            }
            std::string seed = std::to_string(ctx.seed), shard = fmt("%d/%d", ctx.shard, ctx.nshards),
                        cases = std::to_string(ctx.cases), oc = std::to_string(only_case);
            execl(bin.c_str(), bin.c_str(), "--seed", seed.c_str(), "--shard", shard.c_str(), "--cases",
                  cases.c_str(), "--mode", mode, "--case", oc.c_str(), "--out", "/dev/null", (char*)nullptr);
            _exit(127);
        }
        close(fds[1]);
        fd = fds[0];
    }
    int finish() {
        if (fd >= 0)
            close(fd);
        int st = 0;
        if (pid > 0)
            waitpid(pid, &st, 0);
        return st;
    }
};

int ref_stream(Ctx& ctx) {
    std::vector<u8> w = own_weights();
    write_all(3, w.data(), w.size());
    Gen gen(ctx, w);
    Exec ex;
    std::vector<char> buf;
    for (u64 c = 0; c < ctx.cases; ++c) {
        Case k = gen.make(ctx, c);
        ex.run(k);
        char rec[9];
        rec[0] = (char)ex.rr.outcome;
        // The pinned reference shifts an int by the whole 16-bit second word in `tstb <stt/mod>, #imm16`
        // (undefined behaviour, D13): for a bit index above 15 it does not complete in a defined way.
        if (ex.rr.outcome == OK && k.exp > 15 && InterpNeedExpansion(k.opcode) &&
            std::string(InterpHandlerName(k.opcode)) == "tstb")
            rec[0] = 5;
        std::memcpy(rec + 1, &ex.digest, 8);
        buf.insert(buf.end(), rec, rec + 9);
        if (buf.size() >= 9 * 4096) {
            write_all(3, buf.data(), buf.size());
            buf.clear();
        }
    }
    write_all(3, buf.data(), buf.size());
    return 0;
}

int ref_dump(Ctx& ctx) {
    std::vector<u8> w = own_weights();
    Gen gen(ctx, w);
    Exec ex;
    u64 c = ctx.opt_u64("case", 0);
    Case k = gen.make(ctx, c);
    ex.run(k);
    u64 n = ex.after.v.size();
    u64 oc = (u64)ex.rr.outcome;
    write_all(3, &oc, 8);
    write_all(3, &n, 8);
    write_all(3, ex.after.v.data(), n * 8);
    std::string l = ex.logstr() + " what=" + ex.rr.what;
    u64 ln = l.size();
    write_all(3, &ln, 8);
    write_all(3, l.data(), ln);
    return 0;
}

int tree_side(Ctx& ctx) {
    std::string refbin = ctx.opts["refbin"];
    Child ch;
    ch.start(refbin, ctx, "refstream", -1);
    std::vector<u8> w(0x10000);
    if (!read_all(ch.fd, w.data(), w.size())) {
        ctx.note("reference stream did not start");
        return 3;
    }
    Gen gen(ctx, w);
    Exec ex;
    int dumps = 0;
    for (u64 c = 0; c < ctx.cases; ++c) {
        char rec[9];
        if (!read_all(ch.fd, rec, 9)) {
            ctx.note("reference stream ended early");
            return 3;
        }
        // a replayed case runs after the earlier cases of its group of 8 (they are its history on this interpreter)
        if (!ctx.selected(c) && !(ctx.only_case >= 0 && c / 8 == (u64)ctx.only_case / 8 && c < (u64)ctx.only_case))
            continue;
        int ref_outcome = rec[0];
        u64 ref_digest;
        std::memcpy(&ref_digest, rec + 1, 8);
        Case k = gen.make(ctx, c);
        ctx.count("cases");
        const char* hname = InterpHandlerName(k.opcode);
        if (ref_outcome != OK) {
            ctx.count(std::string("excluded_ref_") + (ref_outcome == 5 ? "undefined_behaviour" : outcome_name(ref_outcome)));
            continue;
        }
        ex.run(k);
        ctx.count("compared");
        if (k.sticky)
            ctx.count("compared_with_group_state");
        ctx.seen("nt", hname);
        ctx.seen("opcodes_hi", fmt("%02x", k.opcode >> 8));
        if (ex.rr.outcome == OK && ex.digest == ref_digest) {
            if (c < 2)
                ctx.sample(JObj().hexs("opcode", k.opcode).hexs("exp", k.exp).str("handler", hname)
                               .str("effect", Diff(k.st, ex.after, 8)).str("accesses", ex.logstr()).done());
            continue;
        }
        // ---- divergence: fetch the reference's after-state for the witness
        std::string cls, refinfo;
        CaseState ref_after;
        bool have_ref = false;
        if (dumps < 40) {
            ++dumps;
            Child d;
            d.start(refbin, ctx, "dump", (s64)c);
            u64 oc = 0, n = 0, ln = 0;
            if (read_all(d.fd, &oc, 8) && read_all(d.fd, &n, 8) && n == ref_after.v.size() &&
                read_all(d.fd, ref_after.v.data(), n * 8) && read_all(d.fd, &ln, 8) && ln < 100000) {
                std::string l(ln, ' ');
                read_all(d.fd, l.data(), ln);
                refinfo = l;
                have_ref = true;
            }
            d.finish();
        }
        if (ex.rr.outcome != OK)
            cls = std::string("outcome-") + outcome_name(ex.rr.outcome);
        else if (!have_ref)
            cls = "state"; // witness budget of this worker used up: field not identified
        else {
            cls = "memlog";
            auto& f = Fields();
            for (size_t i = 0; i < f.size(); ++i)
                if (ex.after.v[i] != ref_after.v[i]) {
                    std::string n = f[i].name;
                    size_t b = n.find('[');
                    cls = "field-" + (b == std::string::npos ? n : n.substr(0, b));
                    break;
                }
        }
        JObj j;
        j.hexs("opcode", k.opcode).hexs("second_word", k.exp).str("handler", hname);
        j.str("tree_outcome", outcome_name(ex.rr.outcome)).str("tree_what", ex.rr.what);
        j.str("tree_vs_ref(field:tree!=ref)", have_ref ? Diff(ex.after, ref_after, 16) : "(not fetched)");
        j.str("tree_accesses", ex.logstr()).str("ref_accesses", refinfo);
        j.raw("before", StateJson(k.st));
        ctx.violation(fmt("diverge:%s:%s", hname, cls.c_str()),
                      fmt("opcode %04x %04x (%s): tree %s differs from reference", k.opcode, k.exp, hname,
                          cls.c_str()),
                      c, j.done());
    }
    int st = ch.finish();
    if (ctx.only_case < 0 && (!WIFEXITED(st) || WEXITSTATUS(st) != 0)) {
        ctx.note(fmt("reference child status %d", st));
        return 3;
    }
    return 0;
}

// ---------------------------------------------------------------- clause (c)
int gen_stream(Ctx& ctx) {
    BareCore core;
    MemLog::Install();
    MemLog& ml = MemLog::I();
    int passes = (int)ctx.cases;
    if (passes < 1)
        passes = 1;
    std::set<u16> opcodes;
    long n = ForEachGeneratedCase(
        [&](const TestCase& tc, long index) {
            auto& regs = core.regs;
            auto& mi = core.mem;
            regs.Reset();
            regs.a = tc.before.a;
            regs.b = tc.before.b;
            regs.p = tc.before.p;
            regs.r = tc.before.r;
            regs.x = tc.before.x;
            regs.y = tc.before.y;
            regs.stepi0 = tc.before.stepi0;
            regs.stepj0 = tc.before.stepj0;
            regs.mixp = tc.before.mixp;
            regs.sv = tc.before.sv;
            regs.repc = tc.before.repc;
            regs.Lc() = tc.before.lc;
            regs.Set<Teakra::cfgi>(tc.before.cfgi);
            regs.Set<Teakra::cfgj>(tc.before.cfgj);
            regs.Set<Teakra::stt0>(tc.before.stt0);
            regs.Set<Teakra::stt1>(tc.before.stt1);
            regs.Set<Teakra::stt2>(tc.before.stt2);
            regs.Set<Teakra::mod0>(tc.before.mod0);
            regs.Set<Teakra::mod1>(tc.before.mod1);
            regs.Set<Teakra::mod2>(tc.before.mod2);
            regs.Set<Teakra::ar0>(tc.before.ar[0]);
            regs.Set<Teakra::ar1>(tc.before.ar[1]);
            regs.Set<Teakra::arp0>(tc.before.arp[0]);
            regs.Set<Teakra::arp1>(tc.before.arp[1]);
            regs.Set<Teakra::arp2>(tc.before.arp[2]);
            regs.Set<Teakra::arp3>(tc.before.arp[3]);
            for (u16 off = 0; off < TestSpaceSize; ++off) {
                mi.DataWrite(TestSpaceX + off, tc.before.test_space_x[off]);
                mi.DataWrite(TestSpaceY + off, tc.before.test_space_y[off]);
            }
            mi.ProgramWrite(0, tc.opcode);
            mi.ProgramWrite(1, tc.expand);
            ml.log.clear();
            ml.enabled = true;
            RunResult rr = core.Run(1);
            ml.enabled = false;
            ctx.count("cases");
            opcodes.insert(tc.opcode);
            const char* hname = InterpHandlerName(tc.opcode);
            ctx.seen("nt", hname);
            auto witness = [&]() {
                JObj j;
                j.hexs("opcode", tc.opcode).hexs("expand", tc.expand).str("handler", hname);
                j.str("outcome", outcome_name(rr.outcome)).str("what", rr.what).num("record", index);
                j.hexs("ar0", tc.before.ar[0]).hexs("ar1", tc.before.ar[1]).hexs("arp0", tc.before.arp[0]);
                j.hexs("arp1", tc.before.arp[1]).hexs("arp2", tc.before.arp[2]).hexs("arp3", tc.before.arp[3]);
                j.hexs("mod1", tc.before.mod1).hexs("mod2", tc.before.mod2).hexs("cfgi", tc.before.cfgi);
                j.hexs("cfgj", tc.before.cfgj);
                std::string r;
                for (int i = 0; i < 8; ++i)
                    r += fmt("%04x ", tc.before.r[i]);
                j.str("r", r);
                std::string acc;
                for (auto& a : ml.log)
                    acc += fmt("%s%05x ", a.write ? "W" : "R", a.addr);
                j.str("accesses", acc);
                return j.done();
            };
            if (rr.outcome == UNIMPL)
                ctx.count("unimplemented_skipped");
            else if (rr.outcome != OK)
                ctx.violation(fmt("gen:%s:%s", outcome_name(rr.outcome), hname),
                              fmt("generated vector %04x %04x aborts: %s", tc.opcode, tc.expand, rr.what.c_str()),
                              (u64)index, witness());
            else {
                u32 want = 1 + (InterpNeedExpansion(tc.opcode) ? 1 : 0);
                if (core.regs.pc != want)
                    ctx.violation(fmt("gen:pc:%s", hname),
                                  fmt("generated vector %04x %04x leaves pc=%x, instruction length %u", tc.opcode,
                                      tc.expand, core.regs.pc, want),
                                  (u64)index, witness());
                else
                    ctx.count("pc_checked");
            }
            for (auto& a : ml.log) {
                if (a.addr < kDataBase)
                    continue; // program space (fetch, movp/movd) is not part of the compared windows
                u32 d = a.addr - kDataBase;
                bool in = (d >= TestSpaceX && d < (u32)TestSpaceX + TestSpaceSize) ||
                          (d >= TestSpaceY && d < (u32)TestSpaceY + TestSpaceSize);
                ctx.count("data_accesses");
                if (!in) {
                    ctx.violation(fmt("gen:window:%s", hname),
                                  fmt("generated vector %04x %04x touches data word %05x outside the compared windows",
                                      tc.opcode, tc.expand, d),
                                  (u64)index, witness());
                    break;
                }
            }
            if (index < 2)
                ctx.sample(witness());
            return true;
        },
        passes);
    if (n < 0) {
        ctx.violation("gen:generator-failed", "GenerateTestCasesToFile failed or crashed", 0);
    }
    ctx.count("gen_distinct_opcodes_shard", opcodes.size());
    return 0;
}

} // namespace

int main(int argc, char** argv) {
    Ctx ctx;
    ctx.parse(argc, argv, "C01");
    // data-memory contents differ per (seed, shard); both the tree side and the reference side derive the same salt
    {
        u64 h = mix(mix(ctx.seed, 0xDA7A), (u64)ctx.shard);
        g_data_pattern_mul = (u32)(h & 0xFFFE) | 1;
        g_data_pattern_add = (u32)((h >> 20) & 0xFFFF);
    }
    int rc = 0;
    if (ctx.mode == "refstream")
        return ref_stream(ctx);
    if (ctx.mode == "dump")
        return ref_dump(ctx);
    if (ctx.mode == "genstream")
        rc = gen_stream(ctx);
    else
        rc = tree_side(ctx);
    if (rc)
        return rc; // no "done" record: driver treats the run as inconclusive
    return ctx.finish();
}
