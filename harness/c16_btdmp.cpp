// C16 — audio FIFO: every queued word is output once, in order, one frame per period.
// Oracles:
//  (M) models/btdmp.h, an independent model written from the statement + btdmp.md, run in lock-step with a
//      real Teakra::Btdmp registered on a real CoreTiming (flags, frame times and contents, interrupt times,
//      and the safety of the reported fast-forward horizon);
//  (T) twin real instances driven by the same history: A advances with CoreTiming::Skip(k), B with
//      k x CoreTiming::Tick().
// Every sent word is a unique non-zero id, so loss, duplication and reordering are distinguishable from the
// zero padding. The period is set once before the history starts.
// mode "direct": the Btdmp class; mode "facade": the same statement through Teakra::MMIOWrite/MMIORead
// (0x2BE enable, 0x2C6 send, 0x2CA flush, 0x2C2 status), Teakra::Run and SetAudioCallback (period 4096).
#include <algorithm>
#include <array>
#include <deque>
#include <vector>
#include "btdmp.h"
#include "core_timing.h"
#include "crash.h"
#include "teakra/teakra.h"
#include "core_shim.h"
#include "models/btdmp.h"
#include "worker.h"

using namespace vf;

namespace {

using Frame = model::BtdmpFrame;
constexpr u64 Inf = Teakra::CoreTiming::Callbacks::Infinity;

struct Rig {
    Teakra::CoreTiming ct;
    Teakra::Btdmp dev{ct};
    const u64& clock;
    std::vector<Frame> log;
    std::vector<u64> irq_at;
    // sink == false: a port nobody listens to (no audio callback installed), like the second port of a complete Teakra;
    // its queue, flags, horizon and empty interrupt must behave exactly the same
    explicit Rig(const u64& clk, bool sink = true) : clock(clk) {
        dev.SetInterruptHandler([this] { irq_at.push_back(clock); });
        if (sink)
            install_sink();
    }
    // (re)attach the audio callback: a host may replace its sink at any time; that is not an event of the port
    void install_sink() {
        dev.SetAudioCallback([this](std::array<std::int16_t, 2> s) { log.push_back({clock, (u16)s[0], (u16)s[1]}); });
    }
};

const char* pclass(u32 p) {
    switch (p) {
    case 1: return "1";
    case 2: return "2";
    case 3: return "3";
    case 7: return "7";
    case 4096: return "4096";
    case 65535: return "65535";
    }
    return p < 64 ? "small" : "rnd";
}
const char* fclass(size_t n) {
    return n == 0 ? "0" : n == 1 ? "1" : n == 2 ? "2" : n == 15 ? "15" : n == 16 ? "16" : (n & 1) ? "odd" : "even";
}

std::string frames_tail(const std::vector<Frame>& v, size_t n = 6) {
    std::string s = fmt("n=%zu:", v.size());
    for (size_t i = v.size() > n ? v.size() - n : 0; i < v.size(); ++i)
        s += fmt(" @%" PRIu64 "(%04x,%04x)", v[i].at, v[i].l, v[i].r);
    return s;
}
std::string model_state(const model::Btdmp& m) {
    std::string s = fmt("period=%u phase=%u enabled=%d irqs=%" PRIu64 " dropped=%" PRIu64 " fifo=[", m.period, m.phase,
                        m.enabled, m.empty_irqs, m.dropped);
    for (u16 w : m.fifo)
        s += fmt("%04x ", w);
    return s + "]";
}

struct IdSource {
    u16 next;
    explicit IdSource(Rng& g) : next((u16)g.bits(16)) {}
    u16 get() {
        if (++next == 0)
            ++next;
        return next;
    }
};

// ------------------------------------------------------------------------------------------- direct
void run_direct(Ctx& ctx, u64 c, unsigned ops_per_history) {
    Rng g = ctx.case_rng(c);
    static const u32 fixed[] = {1, 2, 3, 7, 4096, 65535};
    u32 period;
    {
        unsigned s = (unsigned)g.below(10);
        if (s < 6)
            period = fixed[s];
        else if (s < 8)
            period = (u32)g.range(4, 40);
        else
            period = (u32)g.range(1, 65535);
    }
    u64 now = 0;
    const bool no_sink = g.chance(1, 5);
    Rig A(now, !no_sink), B(now, !no_sink); // A fast-forwards, B single-steps
    if (no_sink)
        ctx.count("histories_without_audio_callback");
    model::Btdmp M;
    M.period = period;
    A.dev.SetTransmitPeriod((u16)period);
    B.dev.SetTransmitPeriod((u16)period);
    IdSource ids(g);

    std::deque<std::string> hist;
    bool bad = false;
    size_t cmp_ab = 0, cmp_bm = 0, cmp_irq = 0; // prefixes of the logs already compared
    auto log = [&](const std::string& s) {
        hist.push_back(s);
        if (hist.size() > 40)
            hist.pop_front();
    };
    auto fail = [&](const std::string& key, const std::string& what) {
        if (bad)
            return;
        bad = true;
        std::string h;
        for (auto& s : hist)
            h += s + "; ";
        JObj j;
        j.str("what", what).unum("period", period).str("history_tail", h);
        j.str("model", model_state(M)).str("model_frames", frames_tail(M.frames));
        j.str("real_tick_frames", frames_tail(B.log)).str("real_skip_frames", frames_tail(A.log));
        j.str("real_tick", fmt("empty=%u full=%u enable=%u irqs=%zu horizon=%" PRIu64, B.dev.GetTransmitEmpty(),
                               B.dev.GetTransmitFull(), B.dev.GetTransmitEnable(), B.irq_at.size(), B.dev.GetMaxSkip()));
        j.str("real_skip", fmt("empty=%u full=%u enable=%u irqs=%zu horizon=%" PRIu64, A.dev.GetTransmitEmpty(),
                               A.dev.GetTransmitFull(), A.dev.GetTransmitEnable(), A.irq_at.size(), A.dev.GetMaxSkip()));
        ctx.violation(key, what, c, j.done());
    };
    std::string opname;
    auto check_all = [&] {
        if (bad)
            return;
        // ---- model against the single-stepped instance B (a defect of Tick/Send/Flush shows here)
        if (!no_sink) {
            size_t n = std::min(B.log.size(), M.frames.size());
            for (; cmp_bm < n; ++cmp_bm) {
                if (B.log[cmp_bm].at != M.frames[cmp_bm].at)
                    return fail("model:frame-clock:" + opname, fmt("frame %zu emitted at cycle %" PRIu64 ", model %" PRIu64, cmp_bm,
                                                                  B.log[cmp_bm].at, M.frames[cmp_bm].at));
                if (B.log[cmp_bm].l != M.frames[cmp_bm].l || B.log[cmp_bm].r != M.frames[cmp_bm].r)
                    return fail("model:frame-content:" + opname,
                                fmt("frame %zu is (%04x,%04x), model (%04x,%04x)", cmp_bm, B.log[cmp_bm].l, B.log[cmp_bm].r,
                                    M.frames[cmp_bm].l, M.frames[cmp_bm].r));
            }
            if (B.log.size() != M.frames.size())
                return fail("model:frame-clock:" + opname, fmt("frames emitted by cycle %" PRIu64 ": real %zu, model %zu (one per period enabled cycles)",
                                                              now, B.log.size(), M.frames.size()));
        }
        {
            size_t n = std::min(B.irq_at.size(), M.irq_at.size());
            for (; cmp_irq < n; ++cmp_irq)
                if (B.irq_at[cmp_irq] != M.irq_at[cmp_irq])
                    return fail("model:empty-irq:" + opname, fmt("empty interrupt %zu at cycle %" PRIu64 ", model %" PRIu64, cmp_irq,
                                                                B.irq_at[cmp_irq], M.irq_at[cmp_irq]));
            if (B.irq_at.size() != M.irq_at.size())
                return fail("model:empty-irq:" + opname, fmt("empty interrupts: real %zu, model %zu (exactly when a pop empties the queue)",
                                                            B.irq_at.size(), M.irq_at.size()));
        }
        if (!!B.dev.GetTransmitEmpty() != M.empty())
            return fail("model:empty-flag:" + opname, "empty flag differs from (queue size == 0)");
        if (!!B.dev.GetTransmitFull() != M.full())
            return fail("model:full-flag:" + opname, "full flag differs from (queue size == 16)");
        if (!!B.dev.GetTransmitEnable() != M.enabled)
            return fail("model:enable:" + opname, "enable readback differs");
        // ---- twin: Skip(k) instance against k x Tick() instance (B agrees with the model: a difference is Skip's)
        if (!no_sink && A.log.size() != B.log.size())
            return fail("twin:frame-count:" + opname, "Skip(k) instance and k x Tick() instance emitted a different number of frames");
        for (; cmp_ab < A.log.size(); ++cmp_ab)
            if (A.log[cmp_ab].l != B.log[cmp_ab].l || A.log[cmp_ab].r != B.log[cmp_ab].r)
                return fail("twin:frame-content:" + opname, fmt("frame %zu differs between Skip(k) and k x Tick()", cmp_ab));
        if (A.irq_at.size() != B.irq_at.size())
            return fail("twin:irq-count:" + opname, "Skip(k) instance and k x Tick() instance raised a different number of empty interrupts");
        if (!!A.dev.GetTransmitEmpty() != !!B.dev.GetTransmitEmpty() || !!A.dev.GetTransmitFull() != !!B.dev.GetTransmitFull() ||
            !!A.dev.GetTransmitEnable() != !!B.dev.GetTransmitEnable())
            return fail("twin:flags:" + opname, "Skip(k) instance and k x Tick() instance disagree on empty/full/enable");
        if (A.dev.GetMaxSkip() != B.dev.GetMaxSkip())
            return fail("twin:horizon:" + opname, "Skip(k) instance and k x Tick() instance report different horizons (hidden clock/queue state differs)");
        // ---- the reported horizon must stop before the frame that empties the queue
        u64 h = B.dev.GetMaxSkip(), T = M.cycles_to_empty_irq();
        ctx.count("horizon_checks");
        if (T != model::Btdmp::Never) {
            ctx.count("horizon_finite");
            if (h == Inf || h >= T)
                return fail("model:horizon-skips-irq:" + opname,
                            fmt("horizon %" PRIu64 " reaches the cycle (+%" PRIu64 ") whose frame empties the queue", h, T));
        }
    };
    auto step_both = [&](u64 n) { // n single cycles on both instances and the model
        for (u64 q = 0; q < n; ++q) {
            ++now;
            A.ct.Tick();
            B.ct.Tick();
            M.cycle(now);
        }
    };
    auto replay_b = [&](u64 k) { // k single cycles on B + model only (A has skipped them)
        for (u64 q = 0; q < k; ++q) {
            ++now;
            B.ct.Tick();
            M.cycle(now);
        }
    };
    const u64 sane_k = 20ull * 65536;

    // ---- prelude of one short-period history in six: a long stream. About 65 500 words are sent and played (16 at a time)
    // before the random operations start, so that whatever the port counts in 16 bits (words accepted, words played, frames)
    // is just below its wrap when the fill-to-16 / overflow / drain operations of the history arrive.
    if (period <= 40 && g.chance(1, 6)) {
        const u32 target = 65520 - (u32)g.below(48);
        RunResult pr = Classify([&] {
            A.dev.SetTransmitEnable(1);
            B.dev.SetTransmitEnable(1);
            M.enable(true);
            u32 streamed = 0;
            while (streamed < target && !bad) {
                unsigned n = (unsigned)std::min<u32>(16, target - streamed);
                for (unsigned q = 0; q < n; ++q) {
                    u16 w = ids.get();
                    A.dev.Send(w);
                    B.dev.Send(w);
                    M.send(w);
                }
                streamed += n;
                step_both((u64)period * ((n + 1) / 2));
            }
        });
        log(fmt("stream of %u words played", target));
        opname = "stream";
        if (pr.outcome != OK)
            fail("assert:stream", std::string("unexpected ") + outcome_name(pr.outcome) + " " + pr.what);
        check_all();
        ctx.count("long_stream_preludes");
        ctx.count("long_stream_words", target);
        ctx.seen("nt", fmt("stream:p=%s", pclass(period)));
    }

    for (unsigned op = 0; op < ops_per_history && !bad; ++op) {
        unsigned kind = (unsigned)g.below(100);
        if (!no_sink && g.chance(1, 25)) { // the host replaces its audio callback (same sink): not an event of the port
            A.install_sink();
            B.install_sink();
            log("audio callback replaced");
            ctx.count("audio_callback_replaced");
        }
        size_t fill0 = M.fifo.size();
        size_t frames0 = M.frames.size();
        u64 irqs0 = M.empty_irqs;
        std::string nt;
        RunResult rr;
        if (kind < 30) { // ---------------------------------------------------------------- send burst
            opname = "send";
            unsigned sel = (unsigned)g.below(7), n;
            if (sel < 3)
                n = sel + 1;
            else if (sel == 3)
                n = (unsigned)g.range(1, 6);
            else if (sel == 4)
                n = fill0 < 16 ? (unsigned)(16 - fill0) : 1;
            else if (sel == 5)
                n = (unsigned)(16 - fill0) + (unsigned)g.range(1, 3);
            else
                n = 1;
            unsigned acc = 0, drop = 0;
            std::string words;
            rr = Classify([&] {
                for (unsigned q = 0; q < n; ++q) {
                    u16 w = ids.get();
                    A.dev.Send(w);
                    B.dev.Send(w);
                    if (M.send(w))
                        ++acc;
                    else
                        ++drop;
                    if (q < 4)
                        words += fmt("%04x ", w);
                }
            });
            log(fmt("send x%u [%s] fill %zu->%zu", n, words.c_str(), fill0, M.fifo.size()));
            ctx.count("op_send");
            ctx.count("sends_accepted", acc);
            ctx.count("sends_dropped", drop);
            if (M.full())
                ctx.count("reached_full");
            nt = fmt("send:fill=%s:%s", fclass(fill0), drop ? "overflow" : M.full() ? "to-full" : "fits");
        } else if (kind < 34) { // ---------------------------------------------------------- flush
            opname = "flush";
            u16 v = g.chance(1, 2) ? 0x0004 : (u16)g.bits(16);
            log(fmt("flush(%04x) fill %zu", v, fill0));
            rr = Classify([&] {
                A.dev.SetTransmitFlush(v);
                B.dev.SetTransmitFlush(v);
            });
            M.flush();
            ctx.count("op_flush");
            if (fill0)
                ctx.count("flush_nonempty");
            nt = fmt("flush:fill=%s:en=%d", fclass(fill0), M.enabled);
        } else if (kind < 44) { // ---------------------------------------------------------- enable
            opname = "enable";
            static const u16 on_values[] = {1, 0x8000, 0x8000, 0xFFFF};
            u16 v = g.chance(3, 4) ? g.pick(on_values) : 0;
            log(fmt("enable(%04x)", v));
            nt = fmt("enable:%d->%d:fill=%s", M.enabled, v != 0, fclass(fill0));
            rr = Classify([&] {
                A.dev.SetTransmitEnable(v);
                B.dev.SetTransmitEnable(v);
            });
            M.enable(v != 0);
            ctx.count("op_enable");
        } else if (kind < 62) { // ---------------------------------------------------------- single cycles
            opname = "tick";
            unsigned sel = (unsigned)g.below(6);
            u64 n;
            if (sel < 3)
                n = 1;
            else if (sel == 3)
                n = g.range(2, 6);
            else if (sel == 4)
                n = period <= 64 ? period - M.phase : g.range(1, 8); // exactly up to the next frame
            else
                n = period <= 64 ? g.range(1, 2 * period + 1) : g.range(1, 8);
            log(fmt("tick x%" PRIu64 " phase=%u fill=%zu", n, M.phase, fill0));
            rr = Classify([&] { step_both(n); });
            ctx.count("op_tick");
            ctx.count("cycles_ticked", n);
            nt = fmt("tick:p=%s:fill=%s:en=%d:%s", pclass(period), fclass(fill0), M.enabled,
                     M.frames.size() != frames0 ? "frame" : "noframe");
        } else { // -------------------------------------------------------------------------- fast-forward
            opname = "skip";
            u64 h = A.dev.GetMaxSkip();
            unsigned sel = (unsigned)g.below(8);
            u64 maxk;
            const char* kc;
            u64 to_frame = period - M.phase; // cycle that emits the next frame if enabled
            if (sel == 0) {
                maxk = 0, kc = "0";
            } else if (sel == 1) {
                maxk = 1, kc = "1";
            } else if (h != Inf) {
                if (sel == 2 || sel == 3)
                    maxk = h, kc = "h";
                else if (sel == 4)
                    maxk = h ? h - 1 : 0, kc = "h-1";
                else if (sel == 5)
                    maxk = h + g.range(1, 2 * period), kc = ">h";
                else
                    maxk = g.range(0, h), kc = "<=h";
            } else { // no horizon (disabled or queue empty): any distance is allowed
                if (sel == 2)
                    maxk = to_frame - 1, kc = "inf:frame-1";
                else if (sel == 3)
                    maxk = to_frame, kc = "inf:frame";
                else if (sel == 4)
                    maxk = period, kc = "inf:period";
                else if (sel == 5)
                    maxk = (u64)period * g.range(2, 4) + g.below(period), kc = "inf:frames";
                else
                    maxk = g.below(3ull * period + 1), kc = "inf:rnd";
                if (period > 5000 && maxk > 2ull * period)
                    maxk = 2ull * period + g.below(period);
            }
            u64 k = 0;
            log(fmt("skip max=%" PRIu64 " h=%" PRIu64 " phase=%u fill=%zu", maxk, h, M.phase, fill0));
            rr = Classify([&] { k = A.ct.Skip(maxk); });
            hist.back() += fmt(" -> k=%" PRIu64, k);
            opname = k == 0 ? "skip:k=0" : "skip:k>0";
            if (rr.outcome != OK) {
                fail("skip-assert", "CoreTiming::Skip raised " + std::string(outcome_name(rr.outcome)) + " " + rr.what);
                break;
            }
            if (k > maxk || k > h || k > sane_k) {
                fail("skip-overshoot", "CoreTiming::Skip advanced further than the maximum / the reported horizon");
                break;
            }
            replay_b(k);
            ctx.count("op_skip");
            ctx.count(k == 0 ? "skip_k0" : "skip_kpos");
            ctx.count("cycles_skipped", k);
            ctx.maxv("max_skip", k);
            if (h != Inf && k == h && k > 0)
                ctx.count("skip_at_horizon");
            if (M.frames.size() != frames0)
                ctx.count("skip_over_frames");
            if (M.empty_irqs != irqs0) { // k single cycles raised the interrupt: the skip must not have been allowed
                fail("skip-over-irq", "k single cycles raise the empty interrupt inside a distance Skip(k) accepted");
                break;
            }
            nt = fmt("skip:p=%s:fill=%s:en=%d:k=%s:%s", pclass(period), fclass(fill0), M.enabled, kc,
                     M.frames.size() != frames0 ? "frames" : "noframe");
            check_all();
            // as the interpreter does after a skip: one real cycle so that the component can fire
            if (!bad && g.chance(1, 2)) {
                opname = "tick";
                log("tick x1 (after skip)");
                size_t f1 = M.frames.size();
                u64 i1 = M.empty_irqs;
                rr = Classify([&] { step_both(1); });
                ctx.count("cycles_ticked");
                if (M.empty_irqs != i1)
                    ctx.seen("nt", fmt("tick-after-skip:p=%s:irq:fill=%s", pclass(period), fclass(fill0)));
                else if (M.frames.size() != f1)
                    ctx.seen("nt", fmt("tick-after-skip:p=%s:frame", pclass(period)));
            }
        }
        if (bad)
            break;
        if (rr.outcome != OK) {
            fail("assert:" + opname, std::string("unexpected ") + outcome_name(rr.outcome) + " " + rr.what);
            break;
        }
        check_all();
        if (!bad)
            ctx.seen("nt", nt);
    }

    // ---- drain: everything still queued must come out, in order, and then silence
    if (!bad) {
        opname = "drain";
        log(fmt("drain fill=%zu", M.fifo.size()));
        A.dev.SetTransmitEnable(0x8000);
        B.dev.SetTransmitEnable(0x8000);
        M.enable(true);
        RunResult rr;
        for (int guard = 0; guard < 24 && !M.fifo.empty() && !bad; ++guard) {
            u64 k = 0, h = A.dev.GetMaxSkip();
            if (h == Inf)
                break; // check_all reports the unsafe horizon
            rr = Classify([&] { k = A.ct.Skip(h); });
            if (rr.outcome != OK) {
                fail("skip-assert", "CoreTiming::Skip raised " + std::string(outcome_name(rr.outcome)) + " " + rr.what);
                break;
            }
            if (k > h || k > sane_k) {
                fail("skip-overshoot", "CoreTiming::Skip advanced further than the reported horizon");
                break;
            }
            u64 i0 = M.empty_irqs;
            replay_b(k);
            if (M.empty_irqs != i0) {
                fail("skip-over-irq", "k single cycles raise the empty interrupt inside a distance Skip(k) accepted");
                break;
            }
            check_all();
            rr = Classify([&] { step_both(1); });
            if (rr.outcome != OK)
                fail("assert:drain", std::string("unexpected ") + outcome_name(rr.outcome) + " " + rr.what);
            check_all();
        }
        if (!bad) {
            rr = Classify([&] { step_both(period <= 64 ? 2 * period : 3); });
            if (rr.outcome != OK)
                fail("assert:drain", std::string("unexpected ") + outcome_name(rr.outcome) + " " + rr.what);
            check_all();
        }
        ctx.count("drains");
    }

    // ---- finale: ONE fast-forward across 2^32 cycles and beyond. Only possible while there is no horizon (queue empty),
    // and only the fast-forwarding instance can get there: the oracle is the statement's arithmetic (one frame per period
    // of enabled cycles, frame clock = enabled cycles modulo the period), then the phase is confirmed by single cycles.
    if (!bad && !no_sink && period >= 4096 && g.chance(1, 2)) {
        RunResult rr = Classify([&] {
            A.dev.SetTransmitFlush(1);
            A.dev.SetTransmitFlush(0);
            if (g.chance(3, 4))
                A.dev.SetTransmitEnable(1);
        });
        const bool en = A.dev.GetTransmitEnable() != 0;
        if (rr.outcome == OK && A.dev.GetMaxSkip() == Inf) {
            // learn A's frame clock: single cycles until the next frame (enabled) - that cycle has phase 0 afterwards
            u32 phase = 0;
            if (en) {
                size_t f0 = A.log.size();
                for (u32 k = 0; k <= period && A.log.size() == f0; ++k) {
                    ++now;
                    A.ct.Tick();
                }
            }
            // a few cycles into the period
            u32 into = (u32)g.below(std::min<u32>(period, 600));
            for (u32 k = 0; k < into; ++k) {
                ++now;
                A.ct.Tick();
            }
            phase = en ? into : 0;
            static const u64 bases[] = {1ull << 32, 1ull << 32, 1ull << 33, 3ull << 32};
            u64 base = g.pick(bases);
            s64 delta;
            switch (g.below(6)) {
            case 0: delta = -1; break;
            case 1: delta = 0; break;
            case 2: delta = 1; break;
            case 3: delta = (s64)period - 1; break;
            case 4: delta = (s64)g.below(period); break;
            default: delta = (s64)g.bits(31); break;
            }
            u64 k = g.chance(1, 8) ? 0xFFFFFFFFull : base - phase + (u64)delta;
            size_t f0 = A.log.size(), i0 = A.irq_at.size();
            u64 got = 0;
            log(fmt("huge skip %" PRIu64 " (enabled=%d phase=%u)", k, (int)en, phase));
            rr = Classify([&] { got = A.ct.Skip(k); });
            now += got;
            u64 want_frames = en ? (phase + k) / period : 0;
            u32 want_phase = en ? (u32)((phase + k) % period) : 0;
            ctx.count("huge_skips");
            ctx.count("huge_skip_frames_expected", want_frames);
            ctx.seen("nt", fmt("huge-skip:en=%d:p=%s", (int)en, pclass(period)));
            if (rr.outcome != OK)
                fail("huge-skip:assert", "CoreTiming::Skip raised " + rr.what);
            else if (got != k)
                fail("huge-skip:distance", fmt("Skip(%" PRIu64 ") without a horizon advanced %" PRIu64, k, got));
            else if (A.log.size() - f0 != want_frames)
                fail("huge-skip:frame-count", fmt("Skip(%" PRIu64 ") from frame-clock phase %u with period %u emitted %zu frames, one per period is %" PRIu64,
                                                  k, phase, period, A.log.size() - f0, want_frames));
            else if (A.irq_at.size() != i0)
                fail("huge-skip:irq", "empty interrupt raised although the queue was empty all along");
            else if (en) {
                // the next frame must come exactly period - want_phase single cycles later
                size_t f1 = A.log.size();
                u32 n = 0;
                while (n <= period && A.log.size() == f1) {
                    ++now;
                    A.ct.Tick();
                    ++n;
                }
                if (n != period - want_phase)
                    fail("huge-skip:phase", fmt("after Skip(%" PRIu64 ") the next frame came after %u single cycles, the frame clock says %u", k, n,
                                                period - want_phase));
            }
        }
    }

    ctx.count("cases");
    ctx.count("histories_direct");
    ctx.count("ops", ops_per_history);
    ctx.count("frames", M.frames.size());
    ctx.maxv("max_frames_in_one_history", M.frames.size());
    ctx.count("empty_irqs", M.empty_irqs);
    for (auto& f : M.frames) {
        int words = (f.l != 0) + (f.r != 0);
        ctx.count(words == 2 ? "frames_two_words" : words == 1 ? "frames_one_word_padded" : "frames_silent");
        ctx.count("words_out", words);
    }
    if (!bad && c < 2) {
        std::string h;
        for (auto& s : hist)
            h += s + "; ";
        ctx.sample(JObj().num("case", (s64)c).str("mode", "direct").unum("period", period).str("history_tail", h)
                       .str("frames", frames_tail(B.log)).unum("empty_irqs", M.empty_irqs).done());
    }
}

// ------------------------------------------------------------------------------------------- facade
void run_facade(Ctx& ctx, u64 c, unsigned ops_per_history) {
    Rng g = ctx.case_rng(c);
    const u32 period = 4096;
    Teakra::Teakra t{Teakra::UserConfig{}};
    if (g.chance(1, 2))
        t.Reset();
    // the program the core executes while time passes: either the idle loop `brr -1` (the interpreter then
    // fast-forwards with CoreTiming::Skip) or nops closed by `br 0x0000` (every cycle is a CoreTiming::Tick)
    bool idle_loop = g.chance(1, 2);
    if (idle_loop) {
        t.ProgramWrite(0, 0x57F0); // brr -1, always
    } else {
        for (u32 a = 0; a < 0x20; ++a)
            t.ProgramWrite(a, 0x0000); // nop
        t.ProgramWrite(0x20, 0x4180);  // br 0x0000, always
        t.ProgramWrite(0x21, 0x0000);
    }
    std::vector<Frame> flog;
    u64 now = 0;
    t.SetAudioCallback([&](std::array<std::int16_t, 2> s) { flog.push_back({now, (u16)s[0], (u16)s[1]}); });
    model::Btdmp M;
    M.period = period;
    IdSource ids(g);
    bool pending = false; // model of ICU request bit 11 (BTDMP)
    size_t cmp = 0;

    std::deque<std::string> hist;
    bool bad = false;
    auto log = [&](const std::string& s) {
        hist.push_back(s);
        if (hist.size() > 40)
            hist.pop_front();
    };
    auto fail = [&](const std::string& key, const std::string& what) {
        if (bad)
            return;
        bad = true;
        std::string h;
        for (auto& s : hist)
            h += s + "; ";
        JObj j;
        j.str("what", what).str("program", idle_loop ? "brr -1 (idle loop)" : "nop loop").str("history_tail", h);
        j.str("model", model_state(M)).str("model_frames", frames_tail(M.frames)).str("real_frames", frames_tail(flog));
        ctx.violation(key, what, c, j.done());
    };
    std::string opname;
    auto check_all = [&] {
        if (bad)
            return;
        u16 st = 0, en = 0, req = 0;
        RunResult rr = Classify([&] {
            st = t.MMIORead(0x2C2);
            en = t.MMIORead(0x2BE);
            req = t.MMIORead(0x200);
        });
        if (rr.outcome != OK)
            return fail("facade:assert:status-read", std::string("unexpected ") + outcome_name(rr.outcome) + " " + rr.what);
        ctx.count("fac_status_reads");
        if (flog.size() != M.frames.size())
            return fail("facade:frame-count:" + opname, fmt("frames emitted: real %zu, model %zu", flog.size(), M.frames.size()));
        for (; cmp < flog.size(); ++cmp)
            if (flog[cmp].l != M.frames[cmp].l || flog[cmp].r != M.frames[cmp].r)
                return fail("facade:frame-content:" + opname,
                            fmt("frame %zu is (%04x,%04x), model (%04x,%04x)", cmp, flog[cmp].l, flog[cmp].r, M.frames[cmp].l,
                                M.frames[cmp].r));
        if (((st >> 4) & 1) != (M.empty() ? 1 : 0))
            return fail("facade:empty-flag:" + opname, fmt("MMIO 0x2C2=%04x bit 4 differs from (queue size == 0)", st));
        if (((st >> 3) & 1) != (M.full() ? 1 : 0))
            return fail("facade:full-flag:" + opname, fmt("MMIO 0x2C2=%04x bit 3 differs from (queue size == 16)", st));
        if ((en != 0) != M.enabled)
            return fail("facade:enable:" + opname, fmt("MMIO 0x2BE=%04x differs from what was written", en));
        if ((((req >> 11) & 1) != 0) != pending)
            return fail(std::string("facade:") + (pending ? "irq-missing:" : "irq-spurious:") + opname,
                        fmt("ICU request 0x200=%04x bit 11, model pending=%d", req, pending));
    };
    check_all();
    for (unsigned op = 0; op < ops_per_history && !bad; ++op) {
        unsigned kind = (unsigned)g.below(100);
        size_t fill0 = M.fifo.size();
        size_t frames0 = M.frames.size();
        u64 irqs0 = M.empty_irqs;
        std::string nt;
        RunResult rr;
        if (kind < 32) {
            opname = "send";
            unsigned sel = (unsigned)g.below(6), n;
            if (sel < 3)
                n = sel + 1;
            else if (sel == 3)
                n = (unsigned)g.range(1, 6);
            else if (sel == 4)
                n = fill0 < 16 ? (unsigned)(16 - fill0) : 1;
            else
                n = (unsigned)(16 - fill0) + (unsigned)g.range(1, 3);
            unsigned drop = 0, acc = 0;
            rr = Classify([&] {
                for (unsigned q = 0; q < n; ++q) {
                    u16 w = ids.get();
                    t.MMIOWrite(0x2C6, w);
                    if (M.send(w))
                        ++acc;
                    else
                        ++drop;
                }
            });
            log(fmt("write 0x2C6 x%u fill %zu->%zu", n, fill0, M.fifo.size()));
            ctx.count("fac_sends_accepted", acc);
            ctx.count("fac_sends_dropped", drop);
            nt = fmt("facade:send:fill=%s:%s", fclass(fill0), drop ? "overflow" : M.full() ? "to-full" : "fits");
        } else if (kind < 37) {
            opname = "flush";
            u16 v = g.chance(1, 2) ? 0x0004 : (u16)g.bits(16);
            log(fmt("write 0x2CA=%04x fill %zu", v, fill0));
            rr = Classify([&] { t.MMIOWrite(0x2CA, v); });
            M.flush();
            if (fill0)
                ctx.count("fac_flush_nonempty");
            nt = fmt("facade:flush:fill=%s", fclass(fill0));
        } else if (kind < 47) {
            opname = "enable";
            u16 v = g.chance(3, 4) ? 0x8000 : 0;
            log(fmt("write 0x2BE=%04x", v));
            nt = fmt("facade:enable:%d->%d", M.enabled, v != 0);
            rr = Classify([&] { t.MMIOWrite(0x2BE, v); });
            M.enable(v != 0);
        } else if (kind < 55) {
            opname = "ack";
            log("write 0x202=0800 (acknowledge)");
            rr = Classify([&] { t.MMIOWrite(0x202, 0x0800); });
            nt = fmt("facade:ack:pending=%d", pending);
            pending = false;
        } else {
            opname = "run";
            unsigned sel = (unsigned)g.below(8);
            u64 to_frame = period - M.phase;
            u64 n;
            if (sel == 0)
                n = 1;
            else if (sel == 1)
                n = g.range(2, 5);
            else if (sel == 2)
                n = to_frame > 1 ? to_frame - 1 : 1;
            else if (sel == 3)
                n = to_frame;
            else if (sel == 4)
                n = to_frame + 1;
            else if (sel == 5)
                n = (u64)period * g.range(1, 9) + g.below(period);
            else
                n = g.range(1, 2 * period);
            log(fmt("Run(%" PRIu64 ") phase=%u fill=%zu en=%d", n, M.phase, fill0, M.enabled));
            rr = Classify([&] { t.Run((unsigned)n); });
            for (u64 q = 0; q < n; ++q)
                M.cycle(++now);
            if (M.empty_irqs != irqs0)
                pending = true;
            ctx.count("fac_runs");
            ctx.count("fac_cycles", n);
            nt = fmt("facade:run:%s:fill=%s:en=%d:%s:%s", idle_loop ? "idle" : "nops", fclass(fill0), M.enabled,
                     n == 1 ? "n=1" : "n>1", M.empty_irqs != irqs0 ? "irq" : M.frames.size() != frames0 ? "frame" : "noframe");
        }
        if (rr.outcome != OK) {
            fail("facade:assert:" + opname, std::string("unexpected ") + outcome_name(rr.outcome) + " " + rr.what);
            break;
        }
        check_all();
        if (!bad)
            ctx.seen("nt", nt);
    }
    ctx.count("cases");
    ctx.count("histories_facade");
    ctx.count(idle_loop ? "histories_facade_idle_loop" : "histories_facade_nop_loop");
    ctx.count("ops", ops_per_history);
    ctx.count("fac_frames", M.frames.size());
    ctx.count("fac_empty_irqs", M.empty_irqs);
    for (auto& f : M.frames)
        ctx.count("fac_words_out", (f.l != 0) + (f.r != 0));
    if (!bad && c < 1) {
        std::string h;
        for (auto& s : hist)
            h += s + "; ";
        ctx.sample(JObj().num("case", (s64)c).str("mode", "facade").str("program", idle_loop ? "idle loop" : "nop loop")
                       .str("history_tail", h).str("frames", frames_tail(flog)).unum("empty_irqs", M.empty_irqs).done());
    }
}

} // namespace

int main(int argc, char** argv) {
    Ctx ctx;
    ctx.parse(argc, argv, "C16");
    static std::string prop = ctx.opts.count("prop") ? ctx.opts["prop"] : "C16";
    ctx.prop = prop.c_str(); // the long histories also run as a sanitizer workload of C18
    const unsigned ops_direct = (unsigned)ctx.opt_u64("ops", 80);
    const bool facade = ctx.mode == "facade";
    for (u64 c = 0; c < ctx.cases; ++c) {
        if (!ctx.selected(c))
            continue;
        if (facade)
            run_facade(ctx, c, 240);
        else
            run_direct(ctx, c, ops_direct);
    }
    return ctx.finish();
}
