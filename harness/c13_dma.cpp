// C13 — a DMA transfer copies exactly the documented 3-D strided element sequence.
// Oracle: independent model (models/dma.h, from dma.md / ahbm.md / the property statement) run next to the
// real Teakra facade. Channels are programmed through MMIO exactly like a guest would (0x1BE select,
// 0x1C0..0x1DC configuration, AHBM 0x0E2.. routing/unit/burst, start = 0x40C0 -> 0x1DE); external memory is a
// sparse model behind Teakra::SetAHBMCallback with an ordered access log.
// Compared after every transfer: the whole 0x80000-byte DSP memory, external memory contents, the ordered
// external write log and read log (address, width, value), DMA interrupt exactly once (ICU trigger count via
// the verification yield hook + pending bit 15 through MMIO 0x200, acknowledged through 0x202).
#include <algorithm>
#include <unordered_set>
#include "teakra/teakra.h"
#include "verif_hooks.h"
#include "core_shim.h"
#include "models/dma.h"
#include "worker.h"

using namespace vf;
using dma_model::Access;
using dma_model::Config;
using dma_model::SparseMem;

namespace {

u64 g_icu_triggers = 0;
void YieldCounter(int site) {
    if (site == (int)Teakra::Verif::IcuTriggerBeforeHandler)
        ++g_icu_triggers;
}

// bounds observer on SharedMemory::ReadWord/WriteWord: a transfer that leaves the 0x40000-word array is vetoed (outcome
// "oob") instead of corrupting the worker. The generated walks stay inside the data area, so this never fires on a
// correct element walk.
void BoundsObserver(const Teakra::SharedMemory*, std::uint32_t word_address, bool is_write, std::uint16_t) {
    if (word_address >= 0x40000)
        throw OobVeto{word_address, is_write};
}

constexpr u32 kDspWords = dma_model::kDspDataWords;
constexpr u32 kMemBytes = 0x80000;

struct Plan {
    Config c;
    int dma_ch = 0, ahbm_ch = 0;
    u16 unit[3] = {0, 0, 0}, burst[3] = {0, 0, 0}, dir[3] = {0, 0, 0}, mask[3] = {0, 0, 0};
    u16 y = 0;
    bool ext = false;     // a side is external memory
    bool checked = true;  // the external side is inside the statement: values/logs are compared
    bool dirty = false;   // may leave a non-empty burst queue behind: the case ends after it
    bool overlap = false; // source and destination element sets intersect
    bool decoy = false;
    u64 elements = 0;
    const char* why_unchecked = "";
};

unsigned UnitBytes(u16 u) { return u == 0 ? 1 : u == 1 ? 2 : 4; }
unsigned BurstLen(u16 b) { return b == 0 ? 1 : b == 1 ? 4 : 8; }
const char* Sp(u16 s) { return s == 0 ? "dsp" : "ext"; }

// largest displacement of the cursor from its start (all steps are unsigned, so the last element is the farthest)
u64 Displacement(const Config& c, const u16* step) {
    u64 n0 = dma_model::Count(c, 0), n1 = dma_model::Count(c, 1), n2 = dma_model::Count(c, 2);
    return n2 * (n1 * (n0 - 1) * step[0] + (n1 - 1) * step[1]) + (n2 - 1) * step[2];
}
// shrink steps until the walk fits into `budget` address units
void FitSteps(const Config& c, u16* step, u64 budget) {
    u64 n0 = dma_model::Count(c, 0), n1 = dma_model::Count(c, 1), n2 = dma_model::Count(c, 2);
    while (Displacement(c, step) > budget) {
        u64 t[3] = {n2 * n1 * (n0 - 1) * step[0], n2 * (n1 - 1) * step[1], (n2 - 1) * step[2]};
        int w = t[0] >= t[1] ? (t[0] >= t[2] ? 0 : 2) : (t[1] >= t[2] ? 1 : 2);
        step[w] /= 2;
    }
}

u16 PickSize(Rng& g) {
    unsigned k = (unsigned)g.below(100);
    if (k < 10)
        return 0;
    if (k < 25)
        return 1;
    if (k < 70)
        return (u16)g.range(2, 6);
    if (k < 95)
        return (u16)g.range(7, 40);
    return (u16)g.range(41, 300);
}
u16 PickStep(Rng& g, unsigned natural, bool multiples_only) {
    unsigned k = (unsigned)g.below(100);
    u16 s;
    if (k < 40)
        s = (u16)natural;
    else if (k < 48)
        s = 0;
    else if (k < 58)
        s = 1;
    else if (k < 68)
        s = 2;
    else if (k < 83)
        s = (u16)g.range(3, 9);
    else if (k < 93)
        s = (u16)g.range(10, 64);
    else
        s = g.edge16();
    if (multiples_only)
        s = (u16)(s / natural * natural);
    return s;
}

Plan MakePlan(Rng& g, const u32* regions, bool allow_big) {
    Plan p;
    Config& c = p.c;
    unsigned sp = (unsigned)g.below(100);
    // 0..29 dsp>dsp, 30..54 ext>dsp, 55..79 dsp>ext, 80..99 ext>ext
    c.src_space = (sp < 30 || (sp >= 55 && sp < 80)) ? 0 : 7;
    c.dst_space = (sp < 55) ? 0 : 7;
    p.ext = c.src_space == 7 || c.dst_space == 7;
    c.dword = g.chance(1, 2);
    const unsigned ebytes = c.dword ? 4 : 2;

    // ---- sizes
    unsigned shape = (unsigned)g.below(400);
    u64 cap = 4096;
    if (shape == 0 && allow_big) { // a few big transfers: 2^16 < elements <= 2^20
        cap = 1u << 20;
        for (;;) {
            c.size[0] = (u16)g.range(2, 0x800);
            c.size[1] = (u16)g.range(1, 0x200);
            c.size[2] = (u16)g.range(1, 0x40);
            u64 e = dma_model::Elements(c);
            if (e > 0x10000 && e <= cap)
                break;
        }
    } else if (shape < 9) { // one dimension at a 16-bit edge
        static const u16 edges[] = {0xFFFF, 0xFFFE, 0x8000, 0x7FFF, 0x1000, 0x8001};
        int d = (int)g.below(3);
        for (int i = 0; i < 3; ++i)
            c.size[i] = (u16)g.below(2);
        c.size[d] = g.pick(edges);
        if (c.size[d] == 0x1000)
            c.size[(d + 1 + g.below(2)) % 3] = (u16)g.range(2, 8);
        cap = 1u << 17;
    } else {
        for (int i = 0; i < 3; ++i)
            c.size[i] = PickSize(g);
    }
    // known defect D8 (never terminates): double-word mode with SIZE0 == 0xFFFF is excluded
    if (c.dword && c.size[0] > 0xFFFE)
        c.size[0] = 0xFFFE;
    while (dma_model::Elements(c) > cap) {
        int d = (int)g.below(3);
        c.size[d] = (u16)(c.size[d] / 2);
    }

    // ---- AHBM side
    p.dma_ch = (int)g.below(8);
    p.ahbm_ch = (int)g.below(3);
    for (int i = 0; i < 3; ++i) {
        p.unit[i] = (u16)g.below(3);
        p.burst[i] = (u16)g.below(3);
        p.dir[i] = (u16)g.below(2);
        p.mask[i] = (u16)(g.bits(8) & ~(1u << p.dma_ch));
    }
    p.mask[p.ahbm_ch] |= (u16)(1u << p.dma_ch);
    u16& unit = p.unit[p.ahbm_ch];
    u16& burst = p.burst[p.ahbm_ch];
    if (g.chance(3, 4))
        unit = c.dword ? 2 : 1; // unit matching the element width
    burst = g.chance(1, 2) ? 0 : (u16)g.range(1, 2);
    p.dir[p.ahbm_ch] = c.dst_space == 7 ? 1 : 0;
    // the channels not routed to get a different unit so that wrong routing is visible
    for (int i = 0; i < 3; ++i)
        if (i != p.ahbm_ch && p.unit[i] == unit && g.chance(3, 4))
            p.unit[i] = (u16)((unit + 1 + g.below(2)) % 3);
    const unsigned blen = BurstLen(burst);

    // ---- steps
    bool burst_friendly = p.ext && burst != 0 && g.chance(2, 3);
    for (int side = 0; side < 2; ++side) {
        u16 space = side ? c.dst_space : c.src_space;
        u16* st = side ? c.dst_step : c.src_step;
        unsigned natural = space == 0 ? (c.dword ? 2 : 1) : ebytes;
        bool mult = space == 7 && g.chance(3, 4);
        for (int i = 0; i < 3; ++i)
            st[i] = PickStep(g, natural, mult);
        if (space == 7 && burst_friendly)
            st[0] = st[1] = st[2] = (u16)ebytes;
        if (cap > 4096 && space == 7)
            for (int i = 0; i < 3; ++i)
                st[i] = (u16)std::min<unsigned>(st[i], 8);
    }
    if (burst_friendly) { // element count a multiple of the burst length
        u32 n0 = dma_model::Count(c, 0);
        n0 = std::max<u32>(blen, n0 / blen * blen);
        c.size[0] = (u16)(c.dword ? n0 * 2 : n0);
        while (dma_model::Elements(c) > cap)
            c.size[1 + g.below(2)] /= 2;
    }
    p.elements = dma_model::Elements(c);

    // ---- start addresses
    const u64 dsp_budget = kDspWords - 1 - (c.dword ? 1 : 0);
    if (c.src_space == 0)
        FitSteps(c, c.src_step, dsp_budget);
    if (c.dst_space == 0)
        FitSteps(c, c.dst_step, dsp_budget);
    auto dsp_start = [&](const u16* st) -> u32 {
        u64 room = dsp_budget - Displacement(c, st);
        unsigned k = (unsigned)g.below(8);
        if (k == 0)
            return 0;
        if (k == 1)
            return (u32)room; // last element ends at the very end of the data area
        if (k == 2)
            return (u32)std::min<u64>(room, 0xFFFF - std::min<u64>(0xFFFF, g.below(8))); // across the bank border
        return (u32)g.below(room + 1);
    };
    auto ext_start = [&]() -> u32 {
        u32 a = regions[g.below(3)] + (u32)g.below(0x100);
        if (g.chance(6, 7))
            a &= ~(u32)(ebytes - 1);
        return a;
    };
    c.src_addr = c.src_space == 0 ? dsp_start(c.src_step) : ext_start();
    c.dst_addr = c.dst_space == 0 ? dsp_start(c.dst_step) : ext_start();
    if (c.src_space == c.dst_space && g.chance(1, 2)) { // provoke overlapping ranges
        if (g.chance(1, 2))
            for (int i = 0; i < 3; ++i)
                c.dst_step[i] = c.src_step[i];
        s64 unitstep = c.src_space == 0 ? 1 : (s64)ebytes;
        s64 delta = ((s64)g.below(17) - 8) * (g.chance(1, 2) ? unitstep : 1);
        if (c.src_space == 0) {
            u64 room = dsp_budget - Displacement(c, c.dst_step);
            s64 d = (s64)c.src_addr + delta;
            c.dst_addr = (u32)std::min<s64>(std::max<s64>(d, 0), (s64)room);
        } else
            c.dst_addr = (u32)((s64)c.src_addr + delta);
    }
    p.y = g.chance(1, 2) ? 0 : (u16)g.bits(16);
    p.decoy = g.chance(1, 2);

    // ---- classification of the external side (what the statement covers)
    if (p.ext) {
        dma_model::ExtClass k = dma_model::ClassifyExt(c);
        bool both = c.src_space == 7 && c.dst_space == 7;
        if (!k.aligned) {
            p.checked = false;
            p.why_unchecked = "unaligned";
        } else if (UnitBytes(unit) != ebytes) {
            p.checked = false;
            p.why_unchecked = "unit!=element";
        } else if (blen != 1 && (!k.contiguous || p.elements % blen || both)) {
            p.checked = false;
            p.why_unchecked = "burst:noncontiguous-or-partial";
        }
        p.dirty = !p.checked && blen != 1;
    }
    return p;
}

struct ExtSide {
    SparseMem mem;
    std::vector<Access> reads, writes;
};

std::string PlanJson(const Plan& p) {
    const Config& c = p.c;
    JObj j;
    j.str("src", fmt("%s:0x%08x", Sp(c.src_space), c.src_addr)).str("dst", fmt("%s:0x%08x", Sp(c.dst_space), c.dst_addr));
    j.str("size", fmt("%u,%u,%u", c.size[0], c.size[1], c.size[2]));
    j.str("src_step", fmt("%u,%u,%u", c.src_step[0], c.src_step[1], c.src_step[2]));
    j.str("dst_step", fmt("%u,%u,%u", c.dst_step[0], c.dst_step[1], c.dst_step[2]));
    j.num("dword", c.dword).num("dma_channel", p.dma_ch).num("ahbm_channel", p.ahbm_ch);
    j.str("ahbm_unit_burst_dir_mask",
          fmt("%u/%u/%u/%02x %u/%u/%u/%02x %u/%u/%u/%02x", p.unit[0], p.burst[0], p.dir[0], p.mask[0], p.unit[1],
              p.burst[1], p.dir[1], p.mask[1], p.unit[2], p.burst[2], p.dir[2], p.mask[2]));
    j.unum("elements", p.elements).num("checked", p.checked).str("why_unchecked", p.why_unchecked);
    j.num("overlap", p.overlap);
    return j.done();
}

} // namespace

int main(int argc, char** argv) {
    Ctx ctx;
    ctx.parse(argc, argv, "C13");
    Teakra::Verif::yield_hook = &YieldCounter;
    Teakra::Verif::mem_observer = &BoundsObserver;
    const unsigned max_transfers = 24; // constructing a Teakra costs ~30 ms (decoder table): keep instances few

    for (u64 cs = 0; cs < ctx.cases; ++cs) {
        if (!ctx.selected(cs))
            continue;
        Rng g = ctx.case_rng(cs);

        // ---------------- machines
        const bool user_memory = g.chance(1, 2);
        std::vector<u8> user_buf;
        Teakra::UserConfig ucfg;
        if (user_memory) {
            user_buf.resize(kMemBytes);
            ucfg.dsp_memory = user_buf.data();
        }
        Teakra::Teakra t(ucfg);
        dma_model::Machine M;
        M.dsp.resize(kMemBytes);
        for (u32 i = 0; i < kMemBytes; i += 8) {
            u64 v = g.next();
            std::memcpy(&M.dsp[i], &v, 8);
        }
        std::memcpy(t.GetDspMemory(), M.dsp.data(), kMemBytes);
        ExtSide R;
        R.mem.background = M.ext.background = g.next();
        Teakra::AHBMCallback cb;
        cb.read8 = [&R](u32 a) -> u8 {
            u8 v = (u8)R.mem.Read(a, 1);
            R.reads.push_back({a, v, 1});
            return v;
        };
        cb.read16 = [&R](u32 a) -> u16 {
            u16 v = (u16)R.mem.Read(a, 2);
            R.reads.push_back({a, v, 2});
            return v;
        };
        cb.read32 = [&R](u32 a) -> u32 {
            u32 v = R.mem.Read(a, 4);
            R.reads.push_back({a, v, 4});
            return v;
        };
        cb.write8 = [&R](u32 a, u8 v) {
            R.mem.Write(a, 1, v);
            R.writes.push_back({a, v, 1});
        };
        cb.write16 = [&R](u32 a, u16 v) {
            R.mem.Write(a, 2, v);
            R.writes.push_back({a, v, 2});
        };
        cb.write32 = [&R](u32 a, u32 v) {
            R.mem.Write(a, 4, v);
            R.writes.push_back({a, v, 4});
        };
        t.SetAHBMCallback(cb);
        u32 regions[3] = {0x20000000u + ((u32)g.below(0x10000) & ~3u), (u32)g.bits(32) & ~3u,
                          g.chance(1, 4) ? 0xFFFFFF00u : (0x08000000u + ((u32)g.below(0x100000) & ~3u))};

        bool stop = false;
        std::string history;
        for (unsigned x = 0; x < max_transfers && !stop; ++x) {
            Plan p = MakePlan(g, regions, /*allow_big=*/true);
            // a transfer that may leave a partial burst queued ends the case: keep most of them for the end
            for (int retry = 0; p.dirty && x + 1 < max_transfers && retry < 8 && !g.chance(1, 6); ++retry)
                p = MakePlan(g, regions, true);
            const Config& c = p.c;
            const unsigned ebytes = c.dword ? 4 : 2;
            const std::string cls = fmt("%s>%s:%s", Sp(c.src_space), Sp(c.dst_space), c.dword ? "dword" : "word");
            const std::string xcls =
                p.ext ? cls + fmt(":u%u:b%u", UnitBytes(p.unit[p.ahbm_ch]), BurstLen(p.burst[p.ahbm_ch])) : cls;
            // violation keys stay coarse: spaces, element width and whether bursts are in use
            const std::string kcls = cls + (p.ext && BurstLen(p.burst[p.ahbm_ch]) != 1 ? ":burst" : "");

            if (p.elements <= 4096 && c.src_space == c.dst_space) {
                std::unordered_set<u32> src;
                unsigned gran = c.src_space == 0 ? (c.dword ? 2 : 1) : ebytes;
                u32 am = c.dword ? (c.src_space == 0 ? ~1u : ~3u) : ~0u;
                dma_model::Walk(c, [&](u32 s, u32) {
                    for (unsigned i = 0; i < gran; ++i)
                        src.insert((s & am) + i);
                });
                dma_model::Walk(c, [&](u32, u32 d) {
                    for (unsigned i = 0; i < gran; ++i)
                        if (src.count((d & am) + i))
                            p.overlap = true;
                });
            }
            history += PlanJson(p) + " ";

            auto fail = [&](const std::string& key, const std::string& what, const std::string& extra = "") {
                JObj j;
                j.str("what", what).raw("transfer", PlanJson(p)).num("transfer_index", x).num("user_memory", user_memory);
                if (!extra.empty())
                    j.str("detail", extra);
                ctx.violation(key, what, cs, j.done());
                stop = true;
            };

            // ---------------- program the real machine through MMIO
            std::vector<std::pair<u16, u16>> w;
            for (int i = 0; i < 3; ++i) {
                w.push_back({(u16)(0x0E2 + i * 6), (u16)((p.burst[i] ? 1 : 0) | (p.burst[i] << 1) | (p.unit[i] << 4))});
                w.push_back({(u16)(0x0E4 + i * 6), (u16)((p.dir[i] << 8) | (1u << 9))});
                w.push_back({(u16)(0x0E6 + i * 6), p.mask[i]});
            }
            for (size_t i = w.size(); i > 1; --i)
                std::swap(w[i - 1], w[g.below(i)]);
            for (auto& kv : w)
                t.MMIOWrite(kv.first, kv.second);
            w.clear();
            w.push_back({0x1C0, (u16)c.src_addr});
            w.push_back({0x1C2, (u16)(c.src_addr >> 16)});
            w.push_back({0x1C4, (u16)c.dst_addr});
            w.push_back({0x1C6, (u16)(c.dst_addr >> 16)});
            w.push_back({0x1C8, c.size[0]});
            w.push_back({0x1CA, c.size[1]});
            w.push_back({0x1CC, c.size[2]});
            w.push_back({0x1CE, c.src_step[0]});
            w.push_back({0x1D0, c.dst_step[0]});
            w.push_back({0x1D2, c.src_step[1]});
            w.push_back({0x1D4, c.dst_step[1]});
            w.push_back({0x1D6, c.src_step[2]});
            w.push_back({0x1D8, c.dst_step[2]});
            w.push_back({0x1DA, (u16)(c.src_space | (c.dst_space << 4) | ((c.dword ? 1 : 0) << 10))});
            w.push_back({0x1DC, p.y});
            for (size_t i = w.size(); i > 1; --i)
                std::swap(w[i - 1], w[g.below(i)]);
            t.MMIOWrite(0x184, (u16)(1u << p.dma_ch));
            t.MMIOWrite(0x1BE, (u16)p.dma_ch);
            for (auto& kv : w)
                t.MMIOWrite(kv.first, kv.second);
            if (p.decoy) { // a different channel gets an unrelated configuration; must not disturb this one
                int other = (p.dma_ch + 1 + (int)g.below(7)) % 8;
                t.MMIOWrite(0x1BE, (u16)other);
                for (u16 r = 0x1C0; r <= 0x1DC; r += 2) {
                    u16 v = (u16)g.bits(16);
                    if (r == 0x1DA)
                        v &= 0x0477;
                    t.MMIOWrite(r, v);
                }
                t.MMIOWrite(0x1BE, (u16)p.dma_ch);
                ctx.count("decoy_channel_configs");
            }

            // ---------------- now and then the transfer is first attempted while the host's external-memory callbacks
            // fail (a bus-fault report thrown from the very first access): the attempt is abandoned by the exception, the
            // callbacks are repaired, and the SAME channel is started again - that start must perform the whole transfer.
            // (only without bursts: a fault in the middle of a burst legitimately leaves words queued)
            if (p.ext && BurstLen(p.burst[p.ahbm_ch]) == 1 && g.chance(1, 6)) {
                struct BusFault {};
                Teakra::AHBMCallback bad;
                bad.read8 = [](u32) -> u8 { throw BusFault{}; };
                bad.read16 = [](u32) -> u16 { throw BusFault{}; };
                bad.read32 = [](u32) -> u32 { throw BusFault{}; };
                bad.write8 = [](u32, u8) { throw BusFault{}; };
                bad.write16 = [](u32, u16) { throw BusFault{}; };
                bad.write32 = [](u32, u32) { throw BusFault{}; };
                t.SetAHBMCallback(bad);
                bool faulted = false;
                try {
                    t.MMIOWrite(0x1DE, 0x40C0);
                } catch (const BusFault&) {
                    faulted = true;
                } catch (...) {
                    faulted = true;
                }
                t.SetAHBMCallback(cb);
                ctx.count(faulted ? "starts_abandoned_by_callback_fault" : "fault_attempts_without_external_access");
                if (faulted)
                    ctx.seen("nt", "restart-after-fault:" + kcls);
            }
            // ---------------- run both (the previous completion is acknowledged two times out of three: a completion must
            // raise its interrupt also while the request bit of an earlier one is still pending)
            const bool ack_first = g.chance(1, 2);
            if (ack_first) {
                t.MMIOWrite(0x202, 0x8000);
                if (t.MMIORead(0x200) & 0x8000) {
                    fail("irq-ack:bit15-stays", "ICU pending bit 15 still set after acknowledge");
                    break;
                }
            } else if (t.MMIORead(0x200) & 0x8000)
                ctx.count("starts_with_request_still_pending");
            R.reads.clear();
            R.writes.clear();
            g_icu_triggers = 0;
            RunResult rr = Classify([&] { t.MMIOWrite(0x1DE, 0x40C0); });
            const u64 triggers = g_icu_triggers;
            const bool pending = (t.MMIORead(0x200) & 0x8000) != 0;

            M.Run(c);
            if (M.dsp_out_of_range) {
                ctx.note("harness generated a DSP address outside the data area: " + PlanJson(p));
                ctx.count("harness_bug_dsp_range");
                break;
            }

            ctx.count("transfers");
            ctx.count("elements", p.elements);
            ctx.maxv("max_elements", p.elements);
            ctx.count(fmt("dma_channel_%d", p.dma_ch));
            if (p.ext)
                ctx.count(fmt("ahbm_channel_%d", p.ahbm_ch));
            ctx.count("kind_" + cls);

            // ---------------- compare
            if (rr.outcome != OK) {
                fail(fmt("outcome:%s:%s", outcome_name(rr.outcome), cls.c_str()),
                     std::string("start ended with ") + outcome_name(rr.outcome) + " " + rr.what);
                break;
            }
            if (triggers != 1) {
                fail(fmt("irq-count:%s", triggers == 0 ? "0" : "many"),
                     fmt("DMA interrupt raised %" PRIu64 " times for one transfer of %" PRIu64 " elements", triggers,
                         p.elements));
                break;
            }
            if (!pending) {
                fail("irq-not-pending", "ICU pending bit 15 clear after the transfer");
                break;
            }
            ctx.count("irq_exactly_once");

            const u8* real = t.GetDspMemory();
            if (user_memory && real != user_buf.data()) {
                fail("user-memory-not-used", "GetDspMemory() differs from UserConfig.dsp_memory");
                break;
            }
            // destination cells of an external read that the statement does not cover: accept the real values
            if (c.dst_space == 0 && c.src_space == 7 && !p.checked) {
                dma_model::Walk(c, [&](u32, u32 d) {
                    u32 lo = c.dword ? (d & ~1u) : d, n = c.dword ? 2 : 1;
                    for (u32 i = 0; i < n; ++i) {
                        u32 b = dma_model::kDspDataByteOffset + 2 * (lo + i);
                        M.dsp[b] = real[b];
                        M.dsp[b + 1] = real[b + 1];
                    }
                });
            }
            if (std::memcmp(real, M.dsp.data(), kMemBytes) != 0) {
                u32 at = 0;
                while (real[at] == M.dsp[at])
                    ++at;
                u32 word = at / 2;
                bool is_dest = false;
                if (c.dst_space == 0 && word >= 0x20000) {
                    dma_model::Walk(c, [&](u32, u32 d) {
                        u32 lo = c.dword ? (d & ~1u) : d, n = c.dword ? 2 : 1;
                        if (word - 0x20000 >= lo && word - 0x20000 < lo + n)
                            is_dest = true;
                    });
                }
                unsigned n_bad = 0;
                for (u32 i = 0; i < kMemBytes; i += 2)
                    n_bad += real[i] != M.dsp[i] || real[i + 1] != M.dsp[i + 1];
                fail(fmt("dsp-mem:%s:%s", is_dest ? "value" : "stray", cls.c_str()),
                     is_dest ? "destination cell in DSP memory holds a different value than the model"
                             : "a DSP memory cell that is not a destination of the transfer changed (or a destination was not written)",
                     fmt("first differing shared-memory word 0x%05x (data address 0x%05x): real %04x model %04x; %u words differ",
                         word, word - 0x20000, real[2 * word] | (real[2 * word + 1] << 8),
                         M.dsp[2 * word] | (M.dsp[2 * word + 1] << 8), n_bad));
                break;
            }
            ctx.count("dsp_memory_compares");

            if (c.src_space != 7 && !R.reads.empty()) {
                fail("ext-unexpected-read:" + cls, "external memory was read although the source is DSP memory");
                break;
            }
            if (c.dst_space != 7 && !R.writes.empty()) {
                fail("ext-unexpected-write:" + cls, "external memory was written although the destination is DSP memory");
                break;
            }
            if (p.ext) {
                ctx.count("ext_reads_seen", R.reads.size());
                ctx.count("ext_writes_seen", R.writes.size());
            }
            if (p.ext && p.checked) {
                auto cmp_log = [&](const std::vector<Access>& a, const std::vector<Access>& m, const char* which) -> bool {
                    size_t n = std::min(a.size(), m.size());
                    size_t i = 0;
                    while (i < n && a[i] == m[i])
                        ++i;
                    if (i == n && a.size() == m.size())
                        return true;
                    std::string d = fmt("real log has %zu entries, model %zu; first difference at #%zu: ", a.size(), m.size(), i);
                    if (i < a.size())
                        d += fmt("real (0x%08x,w%u,0x%x) ", a[i].addr, a[i].width, a[i].value);
                    if (i < m.size())
                        d += fmt("model (0x%08x,w%u,0x%x)", m[i].addr, m[i].width, m[i].value);
                    const char* kind = a.size() != m.size() ? "length" : (a[i].addr != m[i].addr || a[i].width != m[i].width) ? "address" : "value";
                    fail(fmt("ext-%slog:%s:%s", which, kind, kcls.c_str()),
                         fmt("ordered external %s log differs from the model", which), d);
                    return false;
                };
                if (!cmp_log(R.writes, M.writes, "write"))
                    break;
                if (!cmp_log(R.reads, M.reads, "read"))
                    break;
                u32 where = 0;
                if (R.mem.Differs(M.ext, &where)) {
                    fail("ext-mem:" + kcls, "external memory contents differ from the model",
                         fmt("byte 0x%08x real %02x model %02x", where, R.mem.Peek(where), M.ext.Peek(where)));
                    break;
                }
                ctx.count("ext_checked_transfers");
                ctx.count("ext_log_entries_compared", R.writes.size() + R.reads.size());
                if (BurstLen(p.burst[p.ahbm_ch]) != 1)
                    ctx.count("burst_checked_transfers");
                if (c.src_space == 7)
                    ctx.count("ext_read_checked_transfers");
                if (c.dst_space == 7)
                    ctx.count("ext_write_checked_transfers");
            } else if (p.ext) {
                ctx.count("ext_exec_only_transfers");
                ctx.count(std::string("ext_exec_only_") + p.why_unchecked);
                M.ext = R.mem; // outside the statement: continue from what the real machine produced
            }

            // acknowledge (two times out of three; otherwise the next completion arrives with the request still pending);
            // the bit must clear
            if (g.chance(2, 3)) {
                t.MMIOWrite(0x202, 0x8000);
                if (t.MMIORead(0x200) & 0x8000) {
                    fail("irq-ack:bit15-stays", "ICU pending bit 15 still set after acknowledge");
                    break;
                }
            }

            // ---------------- bookkeeping
            bool multi[3] = {dma_model::Count(c, 0) > 1, dma_model::Count(c, 1) > 1, dma_model::Count(c, 2) > 1};
            if (multi[0] && multi[1] && multi[2])
                ctx.count("three_dimensional_transfers");
            if (!c.size[0] || !c.size[1] || !c.size[2])
                ctx.count("zero_size_transfers");
            if (p.overlap)
                ctx.count("overlapping_transfers");
            if (p.elements > 0x10000)
                ctx.count("big_transfers");
            if (c.size[0] >= 0x7FFF || c.size[1] >= 0x7FFF || c.size[2] >= 0x7FFF)
                ctx.count("size_16bit_edge_transfers");
            if (!p.ext || p.checked)
                ctx.seen("nt", fmt("%s:dims=%d%d%d:zero=%d%d%d:%s:ch%d", xcls.c_str(), multi[0], multi[1], multi[2], !c.size[0],
                                   !c.size[1], !c.size[2], p.overlap ? "overlap" : "disjoint", p.dma_ch));
            if (cs < 2 && x < 2)
                ctx.sample(PlanJson(p), 4);
            if (p.dirty)
                stop = true; // a partial burst may sit in the AHBM queue: start a fresh machine
        }
        ctx.count("cases");
    }
    return ctx.finish();
}
