// C19 — the host mailbox/semaphore API is race-free and loses nothing against a running DSP.
// Oracle (S + history checker): built with ThreadSanitizer (flavour tsan; the same source also runs in flavour fast
// for volume). A DSP thread executes Run(n) slices of a guest that services the APBP interrupt (echoing CMD0/CMD2
// into REPLY0/REPLY2 and the semaphore), polls channel 1 in its main loop and keeps rewriting the interrupt-disable
// register; a host thread issues SendData / RecvData / ready polls / Set|Clear|Mask|GetSemaphore with pseudo-random
// delays injected at the H3 hand-over points. Host callbacks call back into the API (deadlock probe).
// Offline checks on the per-thread logs: every value read was sent on that channel, values arrive in send order,
// the last value sent is observed within a bounded number of DSP cycles after the sender stops, every send with
// interrupts enabled is answered, nobody blocks.
#include <atomic>
#include <chrono>
#include <thread>
#include "core_shim.h"
#include "teakra/teakra.h"
#include "verif_hooks.h"
#include "worker.h"

using namespace vf;

namespace {

constexpr u16 MMIO = 0x8000;
// fixed opcode constants (see harness/common/guestprog.h for the ones shared with C06)
constexpr u16 BR = 0x4180, MOV_I_SP = 0x5E0D, MOV_I_A0L = 0x5E1A, MOV_I_A1L = 0x5E1B, MOV_A0L_M = 0xD4BC, MOV_A1L_M = 0xD5BC,
              MOV_M_A0 = 0xD4B8, MOV_M_A1 = 0xD5B8, MOV_I_MOD3 = 0x0037, RETI = 0x45C0, RETIC = 0x45D0, EINT = 0x4380, DINT = 0x43C0, NOP = 0x0000,
              TST0_A0L = 0x89FA; // tst0 #imm16, a0l : fz = ((imm & a0l) == 0)
inline u16 BRR_EQ(unsigned skip) { return (u16)(0x5000 | ((skip & 0x7F) << 4) | 1); } // brr +skip, eq

struct Prog {
    std::vector<std::pair<u32, u16>> words;
    u32 at = 0;
    void w(u16 x) { words.push_back({at++, x}); }
    void w2(u16 a, u16 b) {
        w(a);
        w(b);
    }
};

// ctxsw: the APBP handler is entered with a context switch (ic0 = 1) and ends in retic;
// timer_period != 0: timer 0 in auto-restart mode raises IRQ 10 -> int1 (trivial handler) so that a second core line is
// being latched and sampled while the host's requests arrive on int0
// dispatch: the int0 handler is written the way icu.md prescribes for a shared line: read the controller's request
// register, return at once if IRQ 14 is not pending, otherwise acknowledge it FIRST and then service the mailboxes
// (acknowledging before servicing makes the protocol loss-free: a send that arrives later sets the bit again). A request
// bit lost inside the controller (a host Trigger overwritten by the DSP's Acknowledge of another IRQ) then leaves a value
// unread for ever.
Prog guest(bool ctxsw, unsigned timer_period, bool dispatch = false) {
    Prog p;
    p.at = 0;
    p.w2(BR, 0x0100);
    p.at = 0x0006;
    p.w2(BR, 0x0200);
    p.at = 0x000E;
    p.w2(BR, 0x0280);
    p.at = 0x0100;
    p.w2(MOV_I_SP, 0x0FF0);
    p.w2(MOV_I_A0L, 0x4000);
    p.w2(MOV_A0L_M, MMIO + 0x206); // IRQ 14 (APBP) -> int0
    if (timer_period) {
        p.w2(MOV_I_A0L, 0x0400);
        p.w2(MOV_A0L_M, MMIO + 0x208); // IRQ 10 (timer 0) -> int1
        p.w2(MOV_I_A0L, (u16)timer_period);
        p.w2(MOV_A0L_M, MMIO + 0x024);
        p.w2(MOV_I_A0L, 0);
        p.w2(MOV_A0L_M, MMIO + 0x026);
        p.w2(MOV_I_A0L, 0x0404); // auto-restart, restart
        p.w2(MOV_A0L_M, MMIO + 0x020);
    }
    // mod3: ic0 (bit 1), ie (7), im0 (8), im1 (9), cpc (14)
    p.w2(MOV_I_MOD3, (u16)(0x4180 | (ctxsw ? 0x0002 : 0) | (timer_period ? 0x0200 : 0)));
    u32 main = p.at;
    // ---- main loop: poll channel 1 (its interrupt is disabled), echo it, rewrite the disable register
    p.w(DINT);
    p.w2(MOV_M_A0, MMIO + 0x0D6);
    p.w2(TST0_A0L, 0x1000); // C1
    p.w(BRR_EQ(4));
    p.w2(MOV_M_A1, MMIO + 0x0C6); // CMD1
    p.w2(MOV_A1L_M, MMIO + 0x0C4); // REPLY1
    p.w2(MOV_I_A0L, 0x1000);
    p.w2(MOV_A0L_M, MMIO + 0x0D4); // CI1 = 1 (written again and again: DSP-side write racing with host sends)
    p.w(EINT);
    p.w(NOP);
    p.w(NOP);
    p.w2(BR, (u16)main);
    // ---- APBP interrupt handler
    p.at = 0x0200;
    if (dispatch) {
        p.w2(MOV_M_A0, MMIO + 0x200); // 0x200 request register
        p.w2(TST0_A0L, 0x4000);       // IRQ 14 pending?
        p.w(BRR_EQ(2));               // no: to the return below
        p.w2(BR, 0x0210);
        p.w(ctxsw ? RETIC : RETI);
        p.at = 0x0210;
        p.w2(MOV_I_A1L, 0x4000);
        p.w2(MOV_A1L_M, MMIO + 0x202); // acknowledge IRQ 14 before looking at the mailboxes
    }
    p.w2(MOV_M_A0, MMIO + 0x0D6);
    p.w2(TST0_A0L, 0x0100); // C0
    p.w(BRR_EQ(4));
    p.w2(MOV_M_A1, MMIO + 0x0C2);
    p.w2(MOV_A1L_M, MMIO + 0x0C0);
    p.w2(TST0_A0L, 0x2000); // C2
    p.w(BRR_EQ(4));
    p.w2(MOV_M_A1, MMIO + 0x0CA);
    p.w2(MOV_A1L_M, MMIO + 0x0C8);
    p.w2(TST0_A0L, 0x0200); // S
    p.w(BRR_EQ(6));
    p.w2(MOV_M_A1, MMIO + 0x0D2);  // GET_SEMAPHORE
    p.w2(MOV_A1L_M, MMIO + 0x0D0); // ACK_SEMAPHORE
    p.w2(MOV_A1L_M, MMIO + 0x0CC); // SET_SEMAPHORE (echo to the CPU)
    if (!dispatch) {
        p.w2(MOV_I_A1L, 0x4000);
        p.w2(MOV_A1L_M, MMIO + 0x202); // acknowledge IRQ 14
    }
    p.w(ctxsw ? RETIC : RETI);
    // ---- timer interrupt handler (int1): acknowledge and return
    p.at = 0x0280;
    p.w2(MOV_I_A1L, 0x0400);
    p.w2(MOV_A1L_M, MMIO + 0x202);
    p.w(RETI);
    return p;
}

struct Ev {
    u64 t;      // time the call returned (for reads: after the value was obtained)
    u64 t_call; // time just before the call was made (reads only; 0 otherwise)
    u8 kind; // 0 send, 1 reply-read(host poll), 2 reply-read(callback), 3 sem-set, 4 sem-callback, 5 api-misc
    u8 ch;
    u16 v;
};

std::atomic<u64> g_yield_count[Teakra::Verif::YieldSiteCount];
std::atomic<u64> g_sched_seed{1};
void yield_hook(int site) {
    // per-site pseudo random choice between nothing, yield and a short sleep; only at hand-over points
    u64 x = g_sched_seed.fetch_add(0x9E3779B97F4A7C15ull, std::memory_order_relaxed);
    x ^= x >> 29;
    x *= 0xBF58476D1CE4E5B9ull;
    x ^= x >> 32;
    unsigned r = (unsigned)(x % 16);
    if (site >= 0 && site < Teakra::Verif::YieldSiteCount)
        g_yield_count[site].fetch_add(1, std::memory_order_relaxed);
    if (site == Teakra::Verif::InterpreterAfterLatchSample) {
        if (r == 0)
            std::this_thread::yield();
        return; // called every cycle: keep it cheap
    }
    if (r < 6)
        std::this_thread::yield();
    else if (r < 8)
        std::this_thread::sleep_for(std::chrono::microseconds(20 + (x >> 40) % 200));
}

// callbacks run on whichever thread makes the API call that triggers them: each thread appends to its own log
thread_local std::vector<Ev>* tl_log = nullptr;
void log_ev(const Ev& e) {
    if (tl_log && tl_log->size() < tl_log->capacity())
        tl_log->push_back(e);
}

u64 now_ns() {
    return (u64)std::chrono::duration_cast<std::chrono::nanoseconds>(std::chrono::steady_clock::now().time_since_epoch()).count();
}

} // namespace

int main(int argc, char** argv) {
    Ctx ctx;
    ctx.parse(argc, argv, "C19");
    Teakra::Verif::yield_hook = &yield_hook;
    const unsigned rounds = (unsigned)ctx.opt_u64("rounds", ctx.thorough ? 400 : 60);
    const u64 progress_cycles = 400000; // bound for "eventually": DSP cycles after the sender stopped
    const auto wall_watchdog = std::chrono::seconds(240);

    for (u64 c = 0; c < ctx.cases; ++c) {
        if (!ctx.selected(c))
            continue;
        Rng g = ctx.case_rng(c);
        g_sched_seed = g.next() | 1;
        Teakra::UserConfig cfg;
        Teakra::Teakra t(cfg);
        t.Reset();
        const bool ctxsw = g.chance(1, 2);
        static const unsigned periods[] = {0, 0, 6, 9, 50, 333, 1000};
        const unsigned timer_period = g.pick(periods);
        const bool dispatch = timer_period != 0 && g.chance(1, 2);
        for (auto& kv : guest(ctxsw, timer_period, dispatch).words)
            t.ProgramWrite(kv.first, kv.second);
        if (dispatch)
            ctx.count("cases_handler_dispatching_on_request_register");
        ctx.count(ctxsw ? "cases_context_switching_handler" : "cases_plain_handler");
        ctx.count(timer_period ? "cases_with_second_interrupt_line" : "cases_single_interrupt_line");

        std::vector<Ev> host_log, dsp_log;
        host_log.reserve(400000);
        dsp_log.reserve(400000);
        std::atomic<u16> last_reply[3];
        std::atomic<u32> sem_echo{0}, callbacks{0}, reentrant_calls{0};
        std::atomic<u16> echoed{0}; // semaphore bits the DSP reported back (it echoes exactly the bits it read and acknowledged)
        for (auto& a : last_reply)
            a = 0;
        std::atomic<bool> stop{false}, guest_ready{false};
        std::atomic<u64> cycles{0};
        std::atomic<int> dsp_outcome{OK};
        std::string dsp_what;

        // host callbacks run on the DSP thread (inside Run) and call back into the API
        for (int i = 0; i < 3; ++i)
            t.SetRecvDataHandler((u8)i, [&, i] {
                callbacks.fetch_add(1, std::memory_order_relaxed);
                u64 t_call = now_ns();
                if (t.RecvDataIsReady((u8)i)) {
                    u16 pk = t.PeekRecvData((u8)i);
                    u16 v = t.RecvData((u8)i);
                    (void)pk;
                    reentrant_calls.fetch_add(3, std::memory_order_relaxed);
                    log_ev({now_ns(), t_call, 2, (u8)i, v});
                    last_reply[i].store(v, std::memory_order_release);
                }
            });
        // half of the cases: the semaphore callback works the way interrupt handlers usually do - mask everything, service
        // ONE pending bit, unmask. When more bits are pending the unmasking raises the flag again from inside the callback,
        // and the API must deliver that interrupt too (a nested callback); otherwise the remaining bits are never announced.
        const bool cb_one_at_a_time = g.chance(1, 2);
        if (cb_one_at_a_time)
            ctx.count("cases_callback_mask_service_unmask");
        std::atomic<u32> nested_callbacks{0};
        static thread_local int cb_depth = 0;
        t.SetSemaphoreHandler([&] {
            callbacks.fetch_add(1, std::memory_order_relaxed);
            if (cb_depth)
                nested_callbacks.fetch_add(1, std::memory_order_relaxed);
            ++cb_depth;
            if (cb_one_at_a_time && cb_depth < 20) {
                t.MaskSemaphore(0xFFFF);
                u16 s = t.GetSemaphore();
                u16 one = (u16)(s & (u16)-(s16)s); // lowest pending bit
                t.ClearSemaphore(one);
                reentrant_calls.fetch_add(4, std::memory_order_relaxed);
                log_ev({now_ns(), 0, 4, 0, one});
                echoed.fetch_or(one, std::memory_order_release);
                sem_echo.fetch_add(1, std::memory_order_release);
                t.MaskSemaphore(0);
            } else {
                u16 s = t.GetSemaphore();
                t.ClearSemaphore(s);
                reentrant_calls.fetch_add(2, std::memory_order_relaxed);
                log_ev({now_ns(), 0, 4, 0, s});
                echoed.fetch_or(s, std::memory_order_release);
                sem_echo.fetch_add(1, std::memory_order_release);
            }
            --cb_depth;
        });

        tl_log = &host_log;
        std::thread dsp([&] {
            tl_log = &dsp_log;
            Rng dg(g_sched_seed.load() ^ 0xD5);
            // let the guest finish its init code (ICU routing, interrupt enable) before the host starts sending:
            // a request that is not routed yet is dropped by design
            Classify([&] { t.Run(300); });
            guest_ready.store(true, std::memory_order_release);
            while (!stop.load(std::memory_order_acquire)) {
                unsigned n = (unsigned)dg.range(1, 3000);
                RunResult r = Classify([&] { t.Run(n); });
                cycles.fetch_add(n, std::memory_order_release);
                if (r.outcome != OK) {
                    dsp_outcome = r.outcome;
                    dsp_what = r.what;
                    break;
                }
            }
        });

        // ---- deadlock monitor: the DSP thread must keep advancing cycles (Run(n) cannot block by itself) and the host
        // thread must keep either completing API calls or polling; 60 s without either is a blocked thread
        std::atomic<u64> host_progress{0};
        std::atomic<bool> monitor_stop{false};
        std::thread monitor([&] {
            u64 lc = 0, lh = 0;
            auto last_c = std::chrono::steady_clock::now(), last_h = last_c;
            while (!monitor_stop.load(std::memory_order_acquire)) {
                std::this_thread::sleep_for(std::chrono::milliseconds(200));
                u64 cc = cycles.load(), hh = host_progress.load();
                auto now = std::chrono::steady_clock::now();
                if (cc != lc) {
                    lc = cc;
                    last_c = now;
                }
                if (hh != lh) {
                    lh = hh;
                    last_h = now;
                }
                bool dsp_stuck = now - last_c > std::chrono::seconds(60) && !stop.load() && dsp_outcome.load() == OK && guest_ready.load();
                bool host_stuck = now - last_h > std::chrono::seconds(60) && !stop.load();
                if (dsp_stuck || host_stuck) {
                    ctx.violation(dsp_stuck ? "deadlock:dsp-thread-blocked" : "deadlock:host-thread-blocked",
                                  dsp_stuck ? "the DSP thread did not complete a Run slice for 60 s (blocked inside Run, e.g. in a host callback re-entering the API)"
                                            : "the host thread did not return from an API call for 60 s",
                                  c, JObj().unum("dsp_cycles", cc).unum("host_progress", hh).done());
                    ctx.count("cases");
                    ctx.finish();
                    std::_Exit(0);
                }
            }
        });
        // ---------------------------------------------------------------- host thread (this one)
        while (!guest_ready.load(std::memory_order_acquire))
            std::this_thread::yield();
        u16 seq[3] = {0, 0, 0};
        std::vector<u16> sent[3];
        bool bad = false;
        std::string why, inconclusive;
        auto wait_until = [&](auto pred, const char* what) {
            auto t0 = std::chrono::steady_clock::now();
            u64 c0 = cycles.load();
            while (!pred()) {
                if (dsp_outcome.load() != OK)
                    return false;
                if (cycles.load() - c0 > progress_cycles) {
                    if (pred())
                        return true;
                    why = fmt("%s not observed within %" PRIu64 " DSP cycles after the send", what, progress_cycles);
                    return false;
                }
                if (std::chrono::steady_clock::now() - t0 > wall_watchdog) {
                    // the DSP thread is alive (otherwise the deadlock monitor fires) but too slow to reach the cycle
                    // bound on this machine: no verdict
                    inconclusive = fmt("%s: cycle bound not reached within the wall-clock watchdog (DSP cycles advanced by %" PRIu64 ")",
                                       what, cycles.load() - c0);
                    return false;
                }
                host_progress.fetch_add(1, std::memory_order_relaxed);
                std::this_thread::yield();
            }
            return true;
        };
        u64 api_calls = 0;
        u16 outstanding = 0; // semaphore bits set by the host whose echo has not been seen yet (host thread only)
        auto harvest = [&] {
            u16 done = (u16)(echoed.load(std::memory_order_acquire) & outstanding);
            if (done) {
                echoed.fetch_and((u16)~done, std::memory_order_acq_rel);
                outstanding &= (u16)~done;
                ctx.count("semaphore_bits_echoed", (u64)__builtin_popcount(done));
            }
        };
        auto pick_free_bit = [&]() -> u16 {
            for (int k = 0; k < 16; ++k) {
                u16 b = (u16)(1u << g.below(16));
                if (!(outstanding & b))
                    return b;
            }
            return 0;
        };
        for (unsigned r = 0; r < rounds && !bad; ++r) {
            // ---- stop-and-wait on a random channel or the semaphore
            unsigned what = (unsigned)g.below(4);
            if (what < 3) {
                u8 ch = (u8)what;
                u16 v = ++seq[ch];
                sent[ch].push_back(v);
                host_log.push_back({now_ns(), 0, 0, ch, v});
                t.SendData(ch, v);
                ++api_calls;
                if (!wait_until([&] { return last_reply[ch].load(std::memory_order_acquire) == v; }, fmt("reply to channel %d", ch).c_str())) {
                    bad = true;
                    if (!inconclusive.empty())
                        break;
                    if (why.empty())
                        why = "DSP thread ended";
                    ctx.violation(fmt("progress:stop-and-wait:ch%d%s", ch, ch == 1 ? ":polled" : ":interrupt"), why, c,
                                  JObj().num("round", r).num("value", v).num("last_reply", last_reply[ch].load()).done());
                    break;
                }
                ctx.count(fmt("stop_and_wait_ch%d", ch));
            } else {
                harvest();
                u16 bits = pick_free_bit();
                if (!bits)
                    continue;
                host_log.push_back({now_ns(), 0, 3, 0, bits});
                outstanding |= bits;
                t.SetSemaphore(bits);
                ++api_calls;
                // every set with the interrupt enabled must be delivered: the DSP handler reads, acknowledges and echoes
                // exactly the bits it saw, so this very bit has to come back
                if (!wait_until([&] { harvest(); return (outstanding & bits) == 0; }, "echo of the semaphore bit just set")) {
                    bad = true;
                    if (!inconclusive.empty())
                        break;
                    if (why.empty())
                        why = "DSP thread ended";
                    ctx.violation("progress:stop-and-wait:semaphore", why, c, JObj().num("round", r).num("bit", bits).num("outstanding", outstanding).done());
                    break;
                }
                ctx.count("stop_and_wait_semaphore");
            }
            // ---- burst: sends without waiting mixed with every other API call
            unsigned nb = (unsigned)g.below(12);
            for (unsigned k = 0; k < nb; ++k) {
                unsigned s = (unsigned)g.below(12);
                u8 ch = (u8)g.below(3);
                switch (s) {
                case 0:
                case 1:
                case 2: {
                    u16 v = ++seq[ch];
                    sent[ch].push_back(v);
                    host_log.push_back({now_ns(), 0, 0, ch, v});
                    t.SendData(ch, v);
                    break;
                }
                case 3: (void)t.SendDataIsEmpty(ch); break;
                case 4: (void)t.RecvDataIsReady(ch); break;
                case 5: (void)t.PeekRecvData(ch); break;
                case 6: (void)t.GetSemaphore(); break;
                case 7: { // set without waiting: possibly while an earlier bit is still unacknowledged on the DSP side
                    harvest();
                    u16 b = pick_free_bit();
                    if (b) {
                        outstanding |= b;
                        host_log.push_back({now_ns(), 0, 3, 0, b});
                        t.SetSemaphore(b);
                    }
                    break;
                }
                case 8: { // host-side service of the echo channel, racing with the callback's service
                    u16 sv = t.GetSemaphore();
                    if (sv) {
                        echoed.fetch_or(sv, std::memory_order_release);
                        t.ClearSemaphore(sv);
                    }
                    break;
                }
                case 9: t.MaskSemaphore(g.chance(1, 2) ? 0 : (u16)(1u << g.below(16))); t.MaskSemaphore(0); break;
                case 10:
                    if (t.RecvDataIsReady(ch)) { // host-side read racing with the callback's read: either may get it
                        u64 t_call = now_ns();
                        u16 v = t.RecvData(ch);
                        host_log.push_back({now_ns(), t_call, 1, ch, v});
                    }
                    break;
                case 11: std::this_thread::yield(); break;
                }
                ++api_calls;
                host_progress.fetch_add(1, std::memory_order_relaxed);
            }
        }
        // ---- the sender stops: every semaphore bit that was set must have been serviced and echoed within the bound
        if (!bad && outstanding) {
            if (!wait_until([&] { harvest(); return outstanding == 0; }, "echo of all semaphore bits set")) {
                bad = true;
                if (inconclusive.empty())
                    ctx.violation("progress:semaphore-bit-never-serviced", why.empty() ? "DSP thread ended" : why, c,
                                  JObj().num("outstanding_bits", outstanding).num("dsp_side_semaphore", 0).done());
            }
        }
        // ---- the last value of every channel must be observed within the bound
        if (!bad) {
            for (u8 ch = 0; ch < 3 && !bad; ++ch) {
                if (sent[ch].empty())
                    continue;
                u16 lastv = sent[ch].back();
                auto seen_last = [&] {
                    if (last_reply[ch].load(std::memory_order_acquire) == lastv)
                        return true;
                    for (auto& e : host_log)
                        if (e.kind == 1 && e.ch == ch && e.v == lastv)
                            return true;
                    return false;
                };
                if (!wait_until(seen_last, fmt("last value of channel %d", ch).c_str())) {
                    bad = true;
                    if (!inconclusive.empty())
                        break;
                    ctx.violation(fmt("progress:last-value:ch%d", ch), why.empty() ? "DSP thread ended" : why, c,
                                  JObj().num("last_sent", lastv).num("last_reply", last_reply[ch].load()).done());
                }
            }
        }
        stop = true;
        dsp.join();
        if (!inconclusive.empty()) {
            ctx.note("inconclusive: " + inconclusive);
            monitor_stop = true;
            monitor.join();
            return 3; // no "done" record: the driver reports the run as inconclusive
        }
        monitor_stop = true;
        monitor.join();
        if (dsp_outcome.load() != OK && !bad) {
            bad = true;
            ctx.violation(fmt("dsp-thread:%s", outcome_name(dsp_outcome.load())), "Run() ended with " + dsp_what, c);
        }
        // ---------------------------------------------------------------- offline history checks
        u64 sig = 1469598103934665603ull;
        if (!bad) {
            std::vector<Ev> all = host_log;
            all.insert(all.end(), dsp_log.begin(), dsp_log.end());
            std::stable_sort(all.begin(), all.end(), [](const Ev& a, const Ev& b) { return a.t < b.t; });
            for (auto& e : all) {
                sig = (sig ^ (u64)(e.kind * 4 + e.ch)) * 1099511628211ull;
                if (e.kind == 1 || e.kind == 2) {
                    ctx.count("replies_checked");
                    // sequence numbers are unique and increasing per channel: membership == range check
                    if (e.v == 0 || e.v > seq[e.ch]) {
                        bad = true;
                        ctx.violation(fmt("history:value-never-sent:ch%d", e.ch), fmt("channel %d delivered %u which was never sent (max %u)", e.ch, e.v, seq[e.ch]), c);
                        break;
                    }
                }
            }
            // order: two reads race (host poll vs callback on the DSP thread), and a time stamp is taken outside the
            // call, so only "read A RETURNED before read B was CALLED" orders them. A read that started after another
            // had completed must not see an older value.
            for (int ch = 0; ch < 3 && !bad; ++ch) {
                std::vector<Ev> reads;
                for (auto& e : all)
                    if ((e.kind == 1 || e.kind == 2) && e.ch == ch)
                        reads.push_back(e);
                std::vector<Ev> by_ret = reads, by_call = reads;
                std::sort(by_ret.begin(), by_ret.end(), [](const Ev& a, const Ev& b) { return a.t < b.t; });
                std::sort(by_call.begin(), by_call.end(), [](const Ev& a, const Ev& b) { return a.t_call < b.t_call; });
                size_t k = 0;
                u16 max_completed = 0;
                for (auto& e : by_call) {
                    while (k < by_ret.size() && by_ret[k].t < e.t_call)
                        max_completed = std::max(max_completed, by_ret[k++].v);
                    if (e.v < max_completed) {
                        bad = true;
                        ctx.violation(fmt("history:order:ch%d", ch), fmt("channel %d delivered %u to a read that started after a read of %u had completed", ch, e.v, max_completed), c);
                        break;
                    }
                }
            }
        }
        ctx.count("cases");
        ctx.count("host_api_calls", api_calls);
        ctx.count("host_callbacks_on_dsp_thread", callbacks.load());
        ctx.count("reentrant_api_calls_from_callbacks", reentrant_calls.load());
        ctx.count("nested_semaphore_callbacks", nested_callbacks.load());
        ctx.count("dsp_cycles", cycles.load());
        for (int s = 0; s < Teakra::Verif::YieldSiteCount; ++s)
            ctx.count(fmt("yield_site_%d", s), g_yield_count[s].exchange(0));
        ctx.seen("nt", fmt("%016" PRIx64, sig)); // distinct interleaving signature of send/reply/callback events
        if (!bad && c < 2)
            ctx.sample(JObj().num("rounds", rounds).num("sent_ch0", seq[0]).num("sent_ch1", seq[1]).num("sent_ch2", seq[2])
                           .num("callbacks", callbacks.load()).num("dsp_cycles", (s64)cycles.load()).str("interleaving_signature", fmt("%016" PRIx64, sig)).done());
    }
    return ctx.finish();
}
