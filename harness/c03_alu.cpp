// C03 — accumulator add/sub/compare/inc/dec/neg/round/copy and and/or/xor: results, flags and
// saturation are exact.
// Oracle: independent 40-bit ALU model (models/alu40.h, written from the property statement) evaluated
// on the same pre-state as one real interpreter step; the whole register state and the data-memory
// access log are compared (frame condition).
// Instruction list: fixed by handler name, encodings found by enumerating the tree's own decode table
// (vf::Encodings); operand *types* come from a type-aware recording visitor over the same table, the
// meaning of every operand value (which register, which operation) is this file's own reading of the
// enum orders in operand.h.
#include <array>
#include <type_traits>
#include "exec.h"
#include "models/alu40.h"

using namespace vf;
namespace A = vf::alu40;

namespace {

// ------------------------------------------------------------------ type-aware recording visitor
enum OT : u8 {
    T_Other, T_Alm, T_Alu, T_MemImm8, T_MemImm16, T_MemR7Imm16, T_MemR7Imm7s, T_Imm16, T_Imm8, T_Rn,
    T_StepZIDS, T_Register, T_Ax, T_Bx, T_Ab, T_Px, T_Moda4, T_Moda3, T_Cond,
};
template <typename T>
constexpr OT ot() {
    if constexpr (std::is_same_v<T, Alm>) return T_Alm;
    else if constexpr (std::is_same_v<T, Alu>) return T_Alu;
    else if constexpr (std::is_same_v<T, MemImm8>) return T_MemImm8;
    else if constexpr (std::is_same_v<T, MemImm16>) return T_MemImm16;
    else if constexpr (std::is_same_v<T, MemR7Imm16>) return T_MemR7Imm16;
    else if constexpr (std::is_same_v<T, MemR7Imm7s>) return T_MemR7Imm7s;
    else if constexpr (std::is_same_v<T, Imm16>) return T_Imm16;
    else if constexpr (std::is_same_v<T, Imm8>) return T_Imm8;
    else if constexpr (std::is_same_v<T, Rn>) return T_Rn;
    else if constexpr (std::is_same_v<T, StepZIDS>) return T_StepZIDS;
    else if constexpr (std::is_same_v<T, Register>) return T_Register;
    else if constexpr (std::is_same_v<T, Ax>) return T_Ax;
    else if constexpr (std::is_same_v<T, Bx>) return T_Bx;
    else if constexpr (std::is_same_v<T, Ab>) return T_Ab;
    else if constexpr (std::is_same_v<T, Px>) return T_Px;
    else if constexpr (std::is_same_v<T, Moda4>) return T_Moda4;
    else if constexpr (std::is_same_v<T, Moda3>) return T_Moda3;
    else if constexpr (std::is_same_v<T, Cond>) return T_Cond;
    else return T_Other;
}

struct TypedRec {
    using instruction_return_type = void;
    const char* name = "";
    std::vector<std::pair<OT, u16>> ops;
    template <typename T>
    void one(const T& t) {
        if constexpr (std::is_enum_v<T> || std::is_integral_v<T>)
            ops.emplace_back(T_Other, (u16)t);
        else
            ops.emplace_back(ot<T>(), (u16)OperandRaw<T::Bits>(t));
    }
    template <typename... T>
    void record(const char* n, const T&... t) {
        name = n;
        ops.clear();
        (one(t), ...);
    }
    void undefined(u16) { record("undefined"); }
#define VF_REC_HANDLER(n)                                                                          \
    template <typename... T>                                                                       \
    void n(T... t) { record(#n, t...); }
#include "rec_names.inc"
#undef VF_REC_HANDLER
};

// ------------------------------------------------------------------ this file's reading of operand.h
enum Acc : u8 { A0, A1, B0, B1 };
const char* acc_name(unsigned a) {
    static const char* n[] = {"a0", "a1", "b0", "b1"};
    return n[a & 3];
}
Acc from_ax(unsigned v) { return v ? A1 : A0; }
Acc from_bx(unsigned v) { return v ? B1 : B0; }
Acc from_ab(unsigned v) { // Ab: b0, b1, a0, a1
    static const Acc t[] = {B0, B1, A0, A1};
    return t[v & 3];
}

enum OpId : u8 {
    O_or, O_and, O_xor, O_add, O_sub, O_cmp, O_addh, O_addl, O_subh, O_subl, O_cmpu,
    O_inc, O_dec, O_neg, O_rnd, O_copy, O_not, O_clr, O_clrr, O_COUNT, O_none = 0xFF,
};
const char* op_name(unsigned o) {
    static const char* n[] = {"or", "and", "xor", "add", "sub", "cmp", "addh", "addl", "subh", "subl",
                              "cmpu", "inc", "dec", "neg", "rnd", "copy", "not", "clr", "clrr"};
    return o < O_COUNT ? n[o] : "?";
}
// AlmOp order: Or And Xor Add Tst0 Tst1 Cmp Sub Msu Addh Addl Subh Subl Sqr Sqra Cmpu
const OpId kAlm[16] = {O_or, O_and, O_xor, O_add, O_none, O_none, O_cmp, O_sub,
                       O_none, O_addh, O_addl, O_subh, O_subl, O_none, O_none, O_cmpu};
// Alu order: Or And Xor Add Reserved Reserved Cmp Sub
const OpId kAlu[8] = {O_or, O_and, O_xor, O_add, O_none, O_none, O_cmp, O_sub};
// Moda4: Shr Shr4 Shl Shl4 Ror Rol Clr Reserved Not Neg Rnd Pacr Clrr Inc Dec Copy
const OpId kModa4[16] = {O_none, O_none, O_none, O_none, O_none, O_none, O_clr, O_none,
                         O_not, O_neg, O_rnd, O_none, O_clrr, O_inc, O_dec, O_copy};
// Moda3: Shr Shr4 Shl Shl4 Ror Rol Clr Clrr
const OpId kModa3[8] = {O_none, O_none, O_none, O_none, O_none, O_none, O_clr, O_clrr};

// Register operand (5 bits), order of struct Register in operand.h
enum RegSrc : u8 {
    R_r0, R_r1, R_r2, R_r3, R_r4, R_r5, R_r7, R_y0, R_st0, R_st1, R_st2, R_p, R_pc, R_sp, R_cfgi,
    R_cfgj, R_b0h, R_b1h, R_b0l, R_b1l, R_ext0, R_ext1, R_ext2, R_ext3, R_a0, R_a1, R_a0l, R_a1l,
    R_a0h, R_a1h, R_lc, R_sv,
};
const char* reg_name(unsigned r) {
    static const char* n[] = {"r0", "r1", "r2", "r3", "r4", "r5", "r7", "y0", "st0", "st1", "st2",
                              "p", "pc", "sp", "cfgi", "cfgj", "b0h", "b1h", "b0l", "b1l", "ext0",
                              "ext1", "ext2", "ext3", "a0", "a1", "a0l", "a1l", "a0h", "a1h", "lc", "sv"};
    return n[r & 31];
}
const char* cond_name(unsigned c) {
    static const char* n[] = {"true", "eq", "neq", "gt", "ge", "lt", "le", "nn",
                              "c", "v", "e", "l", "nr", "niu0", "iu0", "iu1"};
    return n[c & 15];
}

enum Fam : u8 {
    F_ALM_MEMIMM8, F_ALM_RN, F_ALM_REG, F_ALM_R6,
    F_ALU_MEMIMM16, F_ALU_MEMR7IMM16, F_ALU_IMM16, F_ALU_IMM8, F_ALU_MEMR7IMM7S,
    F_MODA4, F_MODA3,
    F_ADD_AB_BX, F_ADD_BX_AX, F_ADD_P1, F_ADD_PX_BX,
    F_SUB_AB_BX, F_SUB_BX_AX, F_SUB_P1, F_SUB_PX_BX,
    F_CMP_AX_BX, F_CMP_BX_AX, F_CMP_B0_B1, F_CMP_B1_B0, F_CMP_P1_TO,
    F_OR_AB_AX_AX, F_OR_AX_BX_AX, F_OR_BX_BX_AX, F_AND_AB_AB_AX,
    F_COUNT,
};
const char* fam_name(unsigned f) {
    static const char* n[] = {"alm.MemImm8", "alm.Rn", "alm.Register", "alm_r6",
                              "alu.MemImm16", "alu.MemR7Imm16", "alu.Imm16", "alu.Imm8", "alu.MemR7Imm7s",
                              "moda4", "moda3",
                              "add.Ab_Bx", "add.Bx_Ax", "add_p1", "add.Px_Bx",
                              "sub.Ab_Bx", "sub.Bx_Ax", "sub_p1", "sub.Px_Bx",
                              "cmp.Ax_Bx", "cmp.Bx_Ax", "cmp_b0_b1", "cmp_b1_b0", "cmp_p1_to",
                              "or_.Ab_Ax_Ax", "or_.Ax_Bx_Ax", "or_.Bx_Bx_Ax", "and_.Ab_Ab_Ax"};
    return f < F_COUNT ? n[f] : "?";
}

// scheduling groups (and the groups floors are stated for)
enum Grp : u8 {
    G_ALM_MEMIMM8, G_ALM_RN, G_ALM_REG, G_ALM_R6, G_ALU_MEMIMM16, G_ALU_MEMR7IMM16, G_ALU_IMM16,
    G_ALU_IMM8, G_ALU_MEMR7IMM7S, G_MODA4, G_MODA3, G_EXTRA, G_COUNT,
};
const unsigned kWeight[G_COUNT] = {18, 10, 14, 3, 4, 4, 6, 8, 6, 10, 3, 14}; // sums to 100
Grp grp_of(Fam f) { return f <= F_MODA3 ? (Grp)f : G_EXTRA; }
// coarse family for floors / counters
unsigned coarse_id(Fam f) { return f <= F_ALM_R6 ? 0 : f <= F_ALU_MEMR7IMM7S ? 1 : f <= F_MODA3 ? 2 : 3; }
const char* kCoarse[4] = {"alm", "alu", "moda", "extra"};

// operand class (part of the violation key)
enum OpndClass : u8 { C_W16, C_IMM8, C_ACC, C_PROD, C_NONE };
const char* opnd_class_name(unsigned c) {
    static const char* n[] = {"w16", "imm8", "acc40", "prod40", "none"};
    return n[c];
}

struct Desc {
    u16 opcode = 0;
    bool expanded = false;
    Fam fam = F_COUNT;
    OpId op = O_none;
    Acc dst = A0;    // accumulator operand / destination
    u16 x = 0, y = 0; // form specific raw operand values
    OpndClass oc = C_NONE;
    std::string text; // for reports
};

// ------------------------------------------------------------------ field indices
struct Ix {
    int pc, sat, sata, acc[4], fl[8], p[2], pe[2], ps[2], r[8], m[8], br[8], page, epi, epj, y0, sp, sv,
        lc0, ext[4], stepi, modi, stepj, modj, im[3], ie, fr, s, ou[2], iu[2], ip[3], ipv, prpage, mod0c,
        bcn, lp, rep;
    Ix() {
        auto F = [](const std::string& n) { return FieldIndex(n); };
        pc = F("pc"); sat = F("sat"); sata = F("sata");
        acc[A0] = F("a[0]"); acc[A1] = F("a[1]"); acc[B0] = F("b[0]"); acc[B1] = F("b[1]");
        const char* fn[8] = {"fz", "fm", "fe", "fn", "fc0", "fv", "fvl", "flm"};
        for (int i = 0; i < 8; ++i) fl[i] = F(fn[i]);
        for (int i = 0; i < 2; ++i) {
            p[i] = F(fmt("p[%d]", i)); pe[i] = F(fmt("pe[%d]", i)); ps[i] = F(fmt("ps[%d]", i));
            ou[i] = F(fmt("ou[%d]", i)); iu[i] = F(fmt("iu[%d]", i));
        }
        for (int i = 0; i < 8; ++i) {
            r[i] = F(fmt("r[%d]", i)); m[i] = F(fmt("m[%d]", i)); br[i] = F(fmt("br[%d]", i));
        }
        for (int i = 0; i < 4; ++i) ext[i] = F(fmt("ext[%d]", i));
        for (int i = 0; i < 3; ++i) { im[i] = F(fmt("im[%d]", i)); ip[i] = F(fmt("ip[%d]", i)); }
        page = F("page"); epi = F("epi"); epj = F("epj"); y0 = F("y[0]"); sp = F("sp"); sv = F("sv");
        lc0 = F("bkrep_stack[0].lc"); stepi = F("stepi"); modi = F("modi"); stepj = F("stepj"); modj = F("modj");
        ie = F("ie"); fr = F("fr"); s = F("s"); ipv = F("ipv"); prpage = F("prpage"); mod0c = F("mod0_unk_const");
        bcn = F("bcn"); lp = F("lp"); rep = F("rep");
    }
};
enum { FZ, FM, FE, FN, FC0, FV, FVL, FLM };
const char* kFlag[8] = {"fz", "fm", "fe", "fn", "fc0", "fv", "fvl", "flm"};

// well-formed random state, no loop / repeat / interrupt activity, pc = 0 (as state.h RandomState,
// with precomputed indices)
void gen_state(Rng& g, const Ix& ix, CaseState& s) {
    auto& f = Fields();
    for (size_t i = 0; i < f.size(); ++i) {
        unsigned w = f[i].width;
        u64 v;
        if (w == 40)
            v = g.edge40();
        else if (w == 16)
            v = g.edge16();
        else if (w == 32)
            v = g.chance(1, 4) ? (u64)(u32)g.edge40() : g.bits(32);
        else
            v = g.bits(w);
        s.v[i] = mask_width(v, w);
    }
    s.v[ix.prpage] = 0;
    s.v[ix.mod0c] = 1;
    s.v[ix.pc] = 0;
    s.v[ix.bcn] = s.v[ix.lp] = s.v[ix.rep] = 0;
    s.v[ix.ie] = 0;
    s.v[ix.ip[0]] = s.v[ix.ip[1]] = s.v[ix.ip[2]] = s.v[ix.ipv] = 0;
}

inline bool in_mmio(u16 a) { return a >= 0x8000 && a < 0x8800; }

// ------------------------------------------------------------------ reading operands off the pre-state
struct View {
    const CaseState& s;
    const Ix& ix;
    A::s64 acc(Acc a) const { return (A::s64)s.v[ix.acc[a]]; }
    u16 f(int i) const { return (u16)s.v[i]; }
    A::s64 product(unsigned unit) const {
        return A::product40((u32)s.v[ix.p[unit]], (unsigned)s.v[ix.pe[unit]], (unsigned)s.v[ix.ps[unit]]);
    }
    u16 acc_low(Acc a) const { return (u16)(A::unsigned40(acc(a)) & 0xFFFF); }
    u16 acc_high(Acc a) const { return (u16)((A::unsigned40(acc(a)) >> 16) & 0xFFFF); }
    u16 acc_ext4(Acc a) const { return (u16)((A::unsigned40(acc(a)) >> 32) & 0xF); }
    // TeakLite-compatible status words
    u16 st0() const {
        return (u16)(f(ix.sat) | f(ix.ie) << 1 | f(ix.im[0]) << 2 | f(ix.im[1]) << 3 | f(ix.fr) << 4 |
                     (f(ix.fl[FLM]) | f(ix.fl[FVL])) << 5 | f(ix.fl[FE]) << 6 | f(ix.fl[FC0]) << 7 |
                     f(ix.fl[FV]) << 8 | f(ix.fl[FN]) << 9 | f(ix.fl[FM]) << 10 | f(ix.fl[FZ]) << 11 |
                     acc_ext4(A0) << 12);
    }
    u16 st1() const { return (u16)(f(ix.page) | f(ix.ps[0]) << 10 | acc_ext4(A1) << 12); }
    u16 st2() const {
        u16 v = 0;
        for (int i = 0; i < 6; ++i)
            v |= f(ix.m[i]) << i;
        v |= f(ix.im[2]) << 6 | f(ix.s) << 7 | f(ix.ou[0]) << 8 | f(ix.ou[1]) << 9 | f(ix.iu[0]) << 10 |
             f(ix.iu[1]) << 11 | f(ix.ip[2]) << 13 | f(ix.ip[0]) << 14 | f(ix.ip[1]) << 15;
        return v;
    }
    u16 reg16(unsigned r) const {
        switch (r) {
        case R_r0: case R_r1: case R_r2: case R_r3: case R_r4: case R_r5: return f(ix.r[r]);
        case R_r7: return f(ix.r[7]);
        case R_y0: return f(ix.y0);
        case R_st0: return st0();
        case R_st1: return st1();
        case R_st2: return st2();
        case R_sp: return f(ix.sp);
        case R_cfgi: return (u16)(f(ix.stepi) | f(ix.modi) << 7);
        case R_cfgj: return (u16)(f(ix.stepj) | f(ix.modj) << 7);
        case R_b0h: return acc_high(B0);
        case R_b1h: return acc_high(B1);
        case R_b0l: return acc_low(B0);
        case R_b1l: return acc_low(B1);
        case R_ext0: case R_ext1: case R_ext2: case R_ext3: return f(ix.ext[r - R_ext0]);
        case R_a0l: return acc_low(A0);
        case R_a1l: return acc_low(A1);
        case R_a0h: return acc_high(A0);
        case R_a1h: return acc_high(A1);
        case R_lc: return f(ix.lc0); // no block repeat active: frame 0
        case R_sv: return f(ix.sv);
        default: return 0;
        }
    }
};

bool cond_holds(unsigned c, const View& v) {
    const Ix& ix = v.ix;
    unsigned fz = v.f(ix.fl[FZ]), fm = v.f(ix.fl[FM]), fn = v.f(ix.fl[FN]), fc0 = v.f(ix.fl[FC0]),
             fv = v.f(ix.fl[FV]), fe = v.f(ix.fl[FE]), flm = v.f(ix.fl[FLM]), fvl = v.f(ix.fl[FVL]);
    switch (c & 15) {
    case 0: return true;
    case 1: return fz;
    case 2: return !fz;
    case 3: return !fz && !fm;
    case 4: return !fm;
    case 5: return fm;
    case 6: return fm || fz;
    case 7: return !fn;
    case 8: return fc0;
    case 9: return fv;
    case 10: return fe;
    case 11: return flm || fvl;
    case 12: return !v.f(ix.fr);
    case 13: return !v.f(ix.iu[0]);
    case 14: return v.f(ix.iu[0]);
    default: return v.f(ix.iu[1]);
    }
}

// 16-bit operand extension per operation (Interpretation (i))
A::s64 extend16(OpId op, u16 w) {
    switch (op) {
    case O_add: case O_sub: case O_cmp: return A::ext_signed16(w);
    case O_addh: case O_subh: return A::ext_high16(w);
    default: return A::ext_unsigned16(w); // addl subl cmpu or and xor
    }
}
A::Kind kind_of(OpId op) {
    switch (op) {
    case O_or: return A::Kind::Or;
    case O_and: return A::Kind::And;
    case O_xor: case O_not: return A::Kind::Xor;
    case O_add: case O_addh: case O_addl: case O_inc: case O_rnd: return A::Kind::Add;
    case O_sub: case O_subh: case O_subl: case O_dec: case O_neg: return A::Kind::Sub;
    case O_cmp: case O_cmpu: return A::Kind::Cmp;
    default: return A::Kind::Load; // copy clr clrr
    }
}

enum Ev { EV_CARRY, EV_OVERFLOW, EV_SATPOS, EV_SATNEG, EV_ZERO, EV_NONE, EV_CONDFALSE, EV_COUNT };
const char* kEv[EV_COUNT] = {"carry", "overflow", "saturate-pos", "saturate-neg", "zero", "none", "cond-false"};

} // namespace

int main(int argc, char** argv) {
    Ctx ctx;
    ctx.parse(argc, argv, "C03");
    const Ix ix;
    const size_t NF = Fields().size();

    // -------------------------------------------------------------- instruction list
    Encodings enc;
    std::vector<Matcher<TypedRec>> typed = GetDecodeTable<TypedRec>();
    auto typed_decode = [&](u16 op, TypedRec& tr) {
        for (auto& row : typed)
            if (row.Matches(op)) {
                row.call(tr, op, 0);
                return true;
            }
        return false;
    };
    static const char* kHandlers[] = {"alm", "alm_r6", "alu", "moda4", "moda3", "add", "add_p1", "sub", "sub_p1",
                                      "cmp", "cmp_b0_b1", "cmp_b1_b0", "cmp_p1_to", "or_", "and_"};
    std::vector<Desc> list[G_COUNT];
    u64 excluded_op = 0, excluded_unimpl40 = 0, excluded_pc = 0, enc_total = 0;
    auto die = [&](const std::string& why) {
        std::fprintf(stderr, "c03_alu: cannot interpret decode table: %s\n", why.c_str());
        std::exit(3);
    };
    for (const char* h : kHandlers) {
        const auto& ops = enc.of(h);
        if (ops.empty())
            die(std::string("no encoding for handler ") + h);
        for (u16 opc : ops) {
            TypedRec tr;
            if (!typed_decode(opc, tr) || std::string(tr.name) != h)
                die(fmt("typed decode disagrees for %04x", opc));
            auto& o = tr.ops;
            auto is = [&](std::initializer_list<OT> want) {
                if (o.size() != want.size())
                    return false;
                size_t i = 0;
                for (OT w : want)
                    if (o[i++].first != w)
                        return false;
                return true;
            };
            Desc d;
            d.opcode = opc;
            d.expanded = enc.all[opc].expanded;
            std::string hn = h;
            bool known = true;
            if (hn == "alm") {
                d.op = kAlm[o.at(0).second & 15];
                if (is({T_Alm, T_MemImm8, T_Ax})) {
                    d.fam = F_ALM_MEMIMM8; d.x = o[1].second; d.dst = from_ax(o[2].second); d.oc = C_W16;
                    d.text = fmt("%s [page:0x%02x], %s", op_name(d.op), d.x, acc_name(d.dst));
                } else if (is({T_Alm, T_Rn, T_StepZIDS, T_Ax})) {
                    d.fam = F_ALM_RN; d.x = o[1].second; d.y = o[2].second; d.dst = from_ax(o[3].second); d.oc = C_W16;
                    d.text = fmt("%s [r%u]step%u, %s", op_name(d.op), d.x, d.y, acc_name(d.dst));
                } else if (is({T_Alm, T_Register, T_Ax})) {
                    d.fam = F_ALM_REG; d.x = o[1].second; d.dst = from_ax(o[2].second);
                    d.oc = (d.x == R_a0 || d.x == R_a1) ? C_ACC : d.x == R_p ? C_PROD : C_W16;
                    d.text = fmt("%s %s, %s", op_name(d.op), reg_name(d.x), acc_name(d.dst));
                } else
                    known = false;
            } else if (hn == "alm_r6") {
                if (!is({T_Alm, T_Ax})) known = false;
                else {
                    d.op = kAlm[o[0].second & 15]; d.fam = F_ALM_R6; d.dst = from_ax(o[1].second); d.oc = C_W16;
                    d.text = fmt("%s r6, %s", op_name(d.op), acc_name(d.dst));
                }
            } else if (hn == "alu") {
                d.op = kAlu[o.at(0).second & 7];
                d.oc = C_W16;
                if (is({T_Alu, T_MemImm16, T_Ax})) d.fam = F_ALU_MEMIMM16;
                else if (is({T_Alu, T_MemR7Imm16, T_Ax})) d.fam = F_ALU_MEMR7IMM16;
                else if (is({T_Alu, T_Imm16, T_Ax})) d.fam = F_ALU_IMM16;
                else if (is({T_Alu, T_Imm8, T_Ax})) { d.fam = F_ALU_IMM8; d.oc = C_IMM8; }
                else if (is({T_Alu, T_MemR7Imm7s, T_Ax})) d.fam = F_ALU_MEMR7IMM7S;
                else known = false;
                if (known) {
                    d.x = o[1].second; d.dst = from_ax(o[2].second);
                    d.text = fmt("%s <%s:0x%x>, %s", op_name(d.op), fam_name(d.fam), d.x, acc_name(d.dst));
                }
            } else if (hn == "moda4") {
                if (!is({T_Moda4, T_Ax, T_Cond})) known = false;
                else {
                    d.fam = F_MODA4; d.op = kModa4[o[0].second & 15]; d.dst = from_ax(o[1].second); d.y = o[2].second;
                    d.text = fmt("%s %s, %s", op_name(d.op), acc_name(d.dst), cond_name(d.y));
                }
            } else if (hn == "moda3") {
                if (!is({T_Moda3, T_Bx, T_Cond})) known = false;
                else {
                    d.fam = F_MODA3; d.op = kModa3[o[0].second & 7]; d.dst = from_bx(o[1].second); d.y = o[2].second;
                    d.text = fmt("%s %s, %s", op_name(d.op), acc_name(d.dst), cond_name(d.y));
                }
            } else if (hn == "add" || hn == "sub") {
                bool sub = hn == "sub";
                d.op = sub ? O_sub : O_add;
                if (is({T_Ab, T_Bx})) { d.fam = sub ? F_SUB_AB_BX : F_ADD_AB_BX; d.x = from_ab(o[0].second); d.dst = from_bx(o[1].second); d.oc = C_ACC; }
                else if (is({T_Bx, T_Ax})) { d.fam = sub ? F_SUB_BX_AX : F_ADD_BX_AX; d.x = from_bx(o[0].second); d.dst = from_ax(o[1].second); d.oc = C_ACC; }
                else if (is({T_Px, T_Bx})) { d.fam = sub ? F_SUB_PX_BX : F_ADD_PX_BX; d.x = o[0].second & 1; d.dst = from_bx(o[1].second); d.oc = C_PROD; }
                else known = false;
                if (known)
                    d.text = d.oc == C_PROD ? fmt("%s p%u, %s", h, d.x, acc_name(d.dst))
                                            : fmt("%s %s, %s", h, acc_name(d.x), acc_name(d.dst));
            } else if (hn == "add_p1" || hn == "sub_p1") {
                if (!is({T_Ax})) known = false;
                else {
                    bool sub = hn == "sub_p1";
                    d.op = sub ? O_sub : O_add; d.fam = sub ? F_SUB_P1 : F_ADD_P1; d.x = 1; d.dst = from_ax(o[0].second); d.oc = C_PROD;
                    d.text = fmt("%s p1, %s", sub ? "sub" : "add", acc_name(d.dst));
                }
            } else if (hn == "cmp") {
                d.op = O_cmp; d.oc = C_ACC;
                if (is({T_Ax, T_Bx})) { d.fam = F_CMP_AX_BX; d.x = from_ax(o[0].second); d.dst = from_bx(o[1].second); }
                else if (is({T_Bx, T_Ax})) { d.fam = F_CMP_BX_AX; d.x = from_bx(o[0].second); d.dst = from_ax(o[1].second); }
                else known = false;
                if (known)
                    d.text = fmt("cmp %s, %s", acc_name(d.x), acc_name(d.dst));
            } else if (hn == "cmp_b0_b1" || hn == "cmp_b1_b0") {
                if (!o.empty()) known = false;
                d.op = O_cmp; d.oc = C_ACC;
                if (hn == "cmp_b0_b1") { d.fam = F_CMP_B0_B1; d.x = B0; d.dst = B1; }
                else { d.fam = F_CMP_B1_B0; d.x = B1; d.dst = B0; }
                d.text = fmt("cmp %s, %s", acc_name(d.x), acc_name(d.dst));
            } else if (hn == "cmp_p1_to") {
                if (!is({T_Ax})) known = false;
                else {
                    d.op = O_cmp; d.oc = C_PROD; d.fam = F_CMP_P1_TO; d.x = 1; d.dst = from_ax(o[0].second);
                    d.text = fmt("cmp p1, %s", acc_name(d.dst));
                }
            } else if (hn == "or_") {
                d.op = O_or; d.oc = C_ACC;
                if (is({T_Ab, T_Ax, T_Ax})) { d.fam = F_OR_AB_AX_AX; d.x = from_ab(o[0].second); d.y = from_ax(o[1].second); d.dst = from_ax(o[2].second); }
                else if (is({T_Ax, T_Bx, T_Ax})) { d.fam = F_OR_AX_BX_AX; d.x = from_ax(o[0].second); d.y = from_bx(o[1].second); d.dst = from_ax(o[2].second); }
                else if (is({T_Bx, T_Bx, T_Ax})) { d.fam = F_OR_BX_BX_AX; d.x = from_bx(o[0].second); d.y = from_bx(o[1].second); d.dst = from_ax(o[2].second); }
                else known = false;
                if (known)
                    d.text = fmt("or %s, %s, %s", acc_name(d.x), acc_name(d.y), acc_name(d.dst));
            } else if (hn == "and_") {
                if (!is({T_Ab, T_Ab, T_Ax})) known = false;
                else {
                    d.op = O_and; d.oc = C_ACC; d.fam = F_AND_AB_AB_AX;
                    d.x = from_ab(o[0].second); d.y = from_ab(o[1].second); d.dst = from_ax(o[2].second);
                    d.text = fmt("and %s, %s, %s", acc_name(d.x), acc_name(d.y), acc_name(d.dst));
                }
            }
            if (!known)
                die(fmt("unexpected operand list for %s opcode %04x", h, opc));
            if (d.op == O_none) { // operation not in the property's list (tst0/tst1/msu/sqr/sqra, shifts, pacr)
                ++excluded_op;
                continue;
            }
            if (d.fam == F_ALM_REG) {
                if (d.x == R_pc) { // register.md: reading pc through Register is not defined (unreachable)
                    ++excluded_pc;
                    continue;
                }
                bool six = d.op == O_or || d.op == O_and || d.op == O_xor || d.op == O_add || d.op == O_cmp || d.op == O_sub;
                if ((d.oc == C_ACC || d.oc == C_PROD) && !six) { // Interpretation (iii): unimplemented
                    ++excluded_unimpl40;
                    continue;
                }
            }
            list[grp_of(d.fam)].push_back(d);
            ++enc_total;
        }
    }
    for (unsigned gi = 0; gi < G_COUNT; ++gi)
        if (list[gi].empty())
            die(fmt("group %u empty", gi));

    // slot table: 100 slots, interleaved
    std::vector<u8> slot_grp;
    std::vector<u32> slot_rank;
    u32 nslots[G_COUNT] = {};
    {
        unsigned left[G_COUNT];
        for (unsigned gi = 0; gi < G_COUNT; ++gi)
            left[gi] = kWeight[gi];
        bool any = true;
        while (any) {
            any = false;
            for (unsigned gi = 0; gi < G_COUNT; ++gi)
                if (left[gi]) {
                    --left[gi];
                    slot_grp.push_back((u8)gi);
                    slot_rank.push_back(nslots[gi]++);
                    any = true;
                }
        }
    }
    const u64 S = slot_grp.size();

    // -------------------------------------------------------------- local statistics (flushed at the end)
    std::vector<u8> enc_seen(0x10000, 0);
    static bool nt[O_COUNT][F_COUNT][EV_COUNT];
    u64 n_cases = 0, n_fam[F_COUNT] = {}, n_op[O_COUNT] = {}, n_ev[EV_COUNT] = {};
    u64 n_carry[4] = {}, n_ovf[4] = {}, n_sat[4] = {}, n_rise[8] = {}, n_fall[8] = {}, n_satcfg[4] = {};
    u64 n_skip[5] = {}, n_cond_true = 0, n_cond_false = 0, n_memop = 0, n_and8_kept = 0, n_fvl_latched = 0,
        n_flm_kept = 0, n_alias = 0;

    Machine m;
    CaseState s, e;

    static const A::s64 kBoundary[] = {0, A::s64(1) << 30, -(A::s64(1) << 30), A::s64(1) << 31, -(A::s64(1) << 31),
                                       A::s64(1) << 39, -(A::s64(1) << 39), A::s64(1) << 15, -(A::s64(1) << 15),
                                       A::s64(1) << 32, A::s64(1) << 16,
                                       A::s64(1) << 31, -(A::s64(1) << 31), A::s64(1) << 39, -(A::s64(1) << 39), 0};

    for (u64 c = 0; c < ctx.cases; ++c) {
        if (!ctx.selected(c))
            continue;
        Rng g = ctx.case_rng(c);
        // ---------------------------------------------------------- pick the encoding (round-robin)
        const u64 slot = c % S, round = c / S;
        const unsigned gi = slot_grp[slot];
        const auto& L = list[gi];
        const u64 n = L.size();
        const u64 stride = (n + (u64)ctx.nshards - 1) / (u64)ctx.nshards;
        const Desc& d = L[(round * nslots[gi] + slot_rank[slot] + (u64)ctx.shard * stride) % n];

        // ---------------------------------------------------------- pre-state
        gen_state(g, ix, s);
        BiasRelations(g, s); // equal registers, product consistent with its factors (state.h)
        if (g.chance(1, 2)) { // half of the cases share most registers with the other cases of their group of 8 (state.h MixSticky)
            Rng gg = ctx.case_rng(c / 8, 0x6157);
            CaseState grp;
            gen_state(gg, ix, grp);
            MixSticky(g, s, grp);
            ctx.count("cases_with_group_state");
        }
        u16 exp = 0;
        bool has_mem = false;
        u16 ea = 0, memval = 0;
        int rn_unit = -1;
        switch (d.fam) {
        case F_ALM_MEMIMM8:
            while (in_mmio((u16)(s.v[ix.page] << 8 | d.x)))
                s.v[ix.page] = g.bits(8);
            ea = (u16)(s.v[ix.page] << 8 | d.x);
            has_mem = true;
            break;
        case F_ALM_RN:
            rn_unit = d.x & 7;
            s.v[ix.m[rn_unit]] = 0;
            s.v[ix.br[rn_unit]] = 0;
            while (in_mmio((u16)s.v[ix.r[rn_unit]]))
                s.v[ix.r[rn_unit]] = g.edge16();
            ea = (u16)s.v[ix.r[rn_unit]];
            has_mem = true;
            break;
        case F_ALU_MEMIMM16:
            do
                exp = g.edge16();
            while (in_mmio(exp));
            ea = exp;
            has_mem = true;
            break;
        case F_ALU_MEMR7IMM16:
            exp = g.edge16();
            while (in_mmio((u16)(s.v[ix.r[7]] + exp)))
                s.v[ix.r[7]] = g.bits(16);
            ea = (u16)(s.v[ix.r[7]] + exp);
            has_mem = true;
            break;
        case F_ALU_MEMR7IMM7S: {
            int off = (d.x & 0x40) ? (int)(d.x & 0x7F) - 0x80 : (int)(d.x & 0x7F);
            while (in_mmio((u16)(s.v[ix.r[7]] + off)))
                s.v[ix.r[7]] = g.bits(16);
            ea = (u16)(s.v[ix.r[7]] + off);
            has_mem = true;
            break;
        }
        case F_ALU_IMM16:
            exp = g.edge16();
            break;
        default:
            break;
        }
        if (has_mem)
            memval = g.edge16();

        // operand b as the model reads it from the (current) pre-state; a = accumulator operand
        auto operand = [&](A::s64& a, A::s64& b) {
            View v{s, ix};
            a = v.acc(d.dst);
            switch (d.fam) {
            case F_ALM_MEMIMM8: case F_ALM_RN: case F_ALU_MEMIMM16: case F_ALU_MEMR7IMM16: case F_ALU_MEMR7IMM7S:
                b = extend16(d.op, memval);
                break;
            case F_ALU_IMM16:
                b = extend16(d.op, exp);
                break;
            case F_ALU_IMM8:
                b = extend16(d.op, (u16)(d.x & 0xFF));
                break;
            case F_ALM_R6:
                b = extend16(d.op, v.f(ix.r[6]));
                break;
            case F_ALM_REG:
                if (d.x == R_a0 || d.x == R_a1)
                    b = v.acc(d.x == R_a0 ? A0 : A1);
                else if (d.x == R_p)
                    b = v.product(0);
                else
                    b = extend16(d.op, v.reg16(d.x));
                break;
            case F_MODA4: case F_MODA3:
                switch (d.op) {
                case O_inc: case O_dec: b = 1; break;
                case O_rnd: b = 0x8000; break;
                case O_neg: b = a; a = 0; break; // 0 - a
                case O_not: b = -1; break;        // a xor all-ones
                case O_copy: b = v.acc(d.dst == A0 ? A1 : A0); break;
                case O_clr: b = 0; break;
                default: b = 0x8000; break; // clrr
                }
                break;
            case F_ADD_AB_BX: case F_ADD_BX_AX: case F_SUB_AB_BX: case F_SUB_BX_AX:
            case F_CMP_AX_BX: case F_CMP_BX_AX: case F_CMP_B0_B1: case F_CMP_B1_B0:
                b = v.acc((Acc)d.x);
                break;
            case F_ADD_P1: case F_SUB_P1: case F_CMP_P1_TO: case F_ADD_PX_BX: case F_SUB_PX_BX:
                b = v.product(d.x);
                break;
            case F_OR_AB_AX_AX: case F_OR_AX_BX_AX: case F_OR_BX_BX_AX: case F_AND_AB_AB_AX:
                a = v.acc((Acc)d.x);
                b = v.acc((Acc)d.y);
                break;
            default:
                b = 0;
            }
        };

        // bias the accumulator operand towards carry / overflow / saturation / zero boundaries
        const A::Kind kind = kind_of(d.op);
        {
            A::s64 a, b;
            operand(a, b);
            unsigned sel = (unsigned)g.below(8);
            bool three = d.fam >= F_OR_AB_AX_AX;
            Acc target = three ? (Acc)d.x : d.dst;
            if (sel < 4 && (kind == A::Kind::Add || kind == A::Kind::Sub || kind == A::Kind::Cmp) && d.op != O_neg) {
                A::s64 B = g.pick(kBoundary), delta = (A::s64)g.below(5) - 2;
                A::s64 na = kind == A::Kind::Add ? A::wrap40((A::i128)B - b + delta) : A::wrap40((A::i128)B + b + delta);
                s.v[ix.acc[target]] = (u64)na;
            } else if (sel < 2 && d.op == O_neg) {
                static const A::s64 ne[] = {0, 1, -1, A::kMin40, A::kMin40 + 1, A::kMax40, A::kMin32, A::kMin32 + 1,
                                            A::kMin32 - 1, A::kMax32, A::kMax32 + 1, A::kMax32 + 2};
                s.v[ix.acc[target]] = (u64)g.pick(ne);
            } else if (sel < 2 && (kind == A::Kind::Or || kind == A::Kind::And || kind == A::Kind::Xor)) {
                A::s64 na = sel == 0 ? b : A::wrap40(A::kTwo40 - 1 - A::unsigned40(b)); // equal / complement
                if (g.chance(1, 3))
                    na = A::wrap40((A::i128)na ^ ((A::i128)1 << g.below(40)));
                s.v[ix.acc[target]] = (u64)na;
            }
        }
        s.v[ix.sat] = g.bits(1);
        s.v[ix.sata] = g.bits(1);

        // ---------------------------------------------------------- model
        A::s64 a, b;
        operand(a, b);
        View pre{s, ix};
        A::Flags pf;
        pf.fz = pre.f(ix.fl[FZ]); pf.fm = pre.f(ix.fl[FM]); pf.fe = pre.f(ix.fl[FE]); pf.fn = pre.f(ix.fl[FN]);
        pf.fc0 = pre.f(ix.fl[FC0]); pf.fv = pre.f(ix.fl[FV]); pf.fvl = pre.f(ix.fl[FVL]); pf.flm = pre.f(ix.fl[FLM]);
        const bool is_moda = d.fam == F_MODA4 || d.fam == F_MODA3;
        const bool active = !is_moda || cond_holds(d.y, pre);
        e.v = s.v;
        A::Out o;
        if (active) {
            o = A::eval(kind, a, b, pf, s.v[ix.sata] != 0);
            if (o.writes) {
                A::s64 stored = o.stored;
                if (d.fam == F_ALU_IMM8 && d.op == O_and) // bits 8-15 of the accumulator are kept
                    stored = A::wrap40((A::unsigned40(o.r) & ~(A::i128)0xFF00) | (A::unsigned40(pre.acc(d.dst)) & 0xFF00));
                e.v[ix.acc[d.dst]] = (u64)stored;
            }
            const unsigned fl[8] = {o.f.fz, o.f.fm, o.f.fe, o.f.fn, o.f.fc0, o.f.fv, o.f.fvl, o.f.flm};
            for (int i = 0; i < 8; ++i)
                e.v[ix.fl[i]] = fl[i];
        }
        bool ignore_rn = false;
        if (rn_unit >= 0) {
            bool zeroing = (rn_unit == 3 && s.v[ix.epi]) || (rn_unit == 7 && s.v[ix.epj]);
            unsigned step = d.y & 3; // StepZIDS: Zero, Increase, Decrease, PlusStep
            if (zeroing || step == 3)
                ignore_rn = true; // post-modify under epi/epj and +s is C10's subject
            else
                e.v[ix.r[rn_unit]] = (u16)(s.v[ix.r[rn_unit]] + (step == 1 ? 1 : step == 2 ? 0xFFFF : 0));
        }

        // ---------------------------------------------------------- real step
        m.clean();
        m.load(s);
        m.prog(0, d.opcode);
        if (d.expanded)
            m.prog(1, exp);
        if (has_mem)
            m.data(ea, memval);
        RunResult rr = m.run(1);
        if (rr.outcome != OK) {
            ++n_skip[rr.outcome];
            if (ctx.verbose)
                std::fprintf(stderr, "case %" PRIu64 " %s: outcome %s (%s) -> skipped\n", c, d.text.c_str(),
                             outcome_name(rr.outcome), rr.what.c_str());
            continue;
        }
        CaseState act = m.capture();

        // ---------------------------------------------------------- compare
        e.v[ix.pc] = act.v[ix.pc];
        if (ignore_rn)
            e.v[ix.r[rn_unit]] = act.v[ix.r[rn_unit]];
        int bad_field = -1;
        const char* bad_what = nullptr;
        if (e.v[ix.acc[d.dst]] != act.v[ix.acc[d.dst]]) {
            bad_field = ix.acc[d.dst];
            bad_what = "acc";
        }
        for (int i = 0; i < 8 && bad_field < 0; ++i)
            if (e.v[ix.fl[i]] != act.v[ix.fl[i]]) {
                bad_field = ix.fl[i];
                bad_what = kFlag[i];
            }
        bool frame_bad = false;
        if (bad_field < 0)
            for (size_t i = 0; i < NF; ++i)
                if (e.v[i] != act.v[i]) {
                    bad_field = (int)i;
                    frame_bad = true;
                    break;
                }
        bool mem_written = false;
        u32 mem_waddr = 0;
        for (auto& ac : m.log())
            if (ac.write) {
                mem_written = true;
                mem_waddr = ac.addr;
            }

        // statistics of what was exercised
        ++n_cases;
        ++n_fam[d.fam];
        ++n_op[d.op];
        enc_seen[d.opcode] = 1;
        ++n_satcfg[(s.v[ix.sat] << 1 | s.v[ix.sata]) & 3];
        n_memop += has_mem;
        const unsigned cg = coarse_id(d.fam);
        if (is_moda)
            ++(active ? n_cond_true : n_cond_false);
        if (!active) {
            nt[d.op][d.fam][EV_CONDFALSE] = true;
            ++n_ev[EV_CONDFALSE];
        } else {
            bool any = false;
            auto ev = [&](Ev x) {
                nt[d.op][d.fam][x] = true;
                ++n_ev[x];
                any = true;
            };
            if (o.carry) { ev(EV_CARRY); ++n_carry[cg]; }
            if (o.overflow) { ev(EV_OVERFLOW); ++n_ovf[cg]; }
            if (o.saturated > 0) { ev(EV_SATPOS); ++n_sat[cg]; }
            if (o.saturated < 0) { ev(EV_SATNEG); ++n_sat[cg]; }
            if (o.r == 0) ev(EV_ZERO);
            if (!any) ev(EV_NONE);
            const unsigned was[8] = {pf.fz, pf.fm, pf.fe, pf.fn, pf.fc0, pf.fv, pf.fvl, pf.flm};
            const unsigned now[8] = {o.f.fz, o.f.fm, o.f.fe, o.f.fn, o.f.fc0, o.f.fv, o.f.fvl, o.f.flm};
            for (int i = 0; i < 8; ++i) {
                n_rise[i] += !was[i] && now[i];
                n_fall[i] += was[i] && !now[i];
            }
            if (d.fam == F_ALU_IMM8 && d.op == O_and && (A::unsigned40(pre.acc(d.dst)) & 0xFF00) != 0)
                ++n_and8_kept;
            if (pf.fvl && !o.overflow && (kind == A::Kind::Add || kind == A::Kind::Sub || kind == A::Kind::Cmp))
                ++n_fvl_latched; // latch observed holding
            if (pf.flm && !o.saturated)
                ++n_flm_kept;
            if ((d.fam == F_ALM_REG && d.oc != C_PROD &&
                 ((d.dst == A0 && (d.x == R_a0 || d.x == R_a0l || d.x == R_a0h || d.x == R_st0)) ||
                  (d.dst == A1 && (d.x == R_a1 || d.x == R_a1l || d.x == R_a1h || d.x == R_st1)))))
                ++n_alias;
        }

        auto report = [&](const std::string& key, const std::string& what) {
            JObj j;
            j.str("instruction", d.text).hexs("opcode", d.opcode).hexs("expansion", exp).str("family", fam_name(d.fam));
            j.str("form", enc.decode(d.opcode, exp).str());
            j.str("acc_operand", fmt("%" PRIx64, (u64)a)).str("other_operand", fmt("%" PRIx64, (u64)b));
            j.num("active", active).num("sat", (s64)s.v[ix.sat]).num("sata", (s64)s.v[ix.sata]);
            if (has_mem)
                j.hexs("mem_address", ea).hexs("mem_value", memval);
            j.str("model_result40", fmt("%" PRIx64, (u64)o.r)).num("model_carry", o.carry).num("model_overflow", o.overflow)
                .num("model_saturated", o.saturated);
            j.str("expected_vs_actual", Diff(e, act));
            j.raw("pre_state", StateJson(s));
            ctx.violation(key, what, c, j.done());
        };
        const std::string site = fmt("%s:%s", op_name(d.op), opnd_class_name(d.oc));
        if (bad_field >= 0 && !frame_bad) {
            // key = operation : operand class : first differing item (event class only in the summary, so
            // that one defect maps to a handful of keys)
            const char* evc = !active ? "cond-false" : o.saturated ? "saturating" : o.overflow ? "overflow" : o.carry ? "carry" : "plain";
            report(fmt("%s:%s%s", site.c_str(), bad_what, active ? "" : ":cond-false"),
                   fmt("%s (%s, %s case): %s expected %" PRIx64 " got %" PRIx64, d.text.c_str(), fam_name(d.fam), evc,
                       bad_what, e.v[bad_field], act.v[bad_field]));
        } else if (frame_bad) {
            report(fmt("frame:%s:%s:%s", site.c_str(), Fields()[bad_field].name, active ? "active" : "cond-false"),
                   fmt("%s (%s): register %s outside the write-set changed: expected %" PRIx64 " got %" PRIx64,
                       d.text.c_str(), fam_name(d.fam), Fields()[bad_field].name, e.v[bad_field], act.v[bad_field]));
        } else if (mem_written) {
            report(fmt("frame:%s:memory-write", site.c_str()),
                   fmt("%s (%s): data/program memory written at word %x", d.text.c_str(), fam_name(d.fam), mem_waddr));
        }

        if (ctx.verbose)
            std::fprintf(stderr, "case %" PRIu64 " %s [%s] a=%" PRIx64 " b=%" PRIx64 " sata=%d -> r=%" PRIx64 " stored=%" PRIx64
                                 " c=%d v=%d sat=%d active=%d diff{%s}\n",
                         c, d.text.c_str(), fam_name(d.fam), (u64)a, (u64)b, (int)s.v[ix.sata], (u64)o.r, (u64)o.stored,
                         o.carry, o.overflow, o.saturated, active, Diff(e, act).c_str());
        if (c < 2)
            ctx.sample(JObj().num("case", (s64)c).str("instruction", d.text).hexs("opcode", d.opcode).hexs("expansion", exp)
                           .str("acc_operand", fmt("%" PRIx64, (u64)a)).str("other_operand", fmt("%" PRIx64, (u64)b))
                           .num("sata", (s64)s.v[ix.sata]).str("result40", fmt("%" PRIx64, (u64)o.r))
                           .str("stored", fmt("%" PRIx64, act.v[ix.acc[d.dst]]))
                           .str("flags_zmenc_v_vl_lm", fmt("%u%u%u%u%u%u%u%u", (unsigned)act.v[ix.fl[0]], (unsigned)act.v[ix.fl[1]],
                                                          (unsigned)act.v[ix.fl[2]], (unsigned)act.v[ix.fl[3]], (unsigned)act.v[ix.fl[4]],
                                                          (unsigned)act.v[ix.fl[5]], (unsigned)act.v[ix.fl[6]], (unsigned)act.v[ix.fl[7]]))
                           .done());
    }

    // -------------------------------------------------------------- flush
    ctx.count("cases", n_cases);
    for (unsigned f = 0; f < F_COUNT; ++f)
        ctx.count(std::string("fam_") + fam_name(f), n_fam[f]);
    for (unsigned o2 = 0; o2 < O_COUNT; ++o2)
        ctx.count(std::string("op_") + op_name(o2), n_op[o2]);
    for (unsigned x = 0; x < EV_COUNT; ++x)
        ctx.count(std::string("ev_") + kEv[x], n_ev[x]);
    for (unsigned k = 0; k < 4; ++k) {
        ctx.count(std::string("carry_") + kCoarse[k], n_carry[k]);
        ctx.count(std::string("overflow_") + kCoarse[k], n_ovf[k]);
        ctx.count(std::string("saturated_") + kCoarse[k], n_sat[k]);
        ctx.count(fmt("satcfg_sat%u_sata%u", k >> 1, k & 1), n_satcfg[k]);
    }
    for (int i = 0; i < 8; ++i) {
        ctx.count(std::string(kFlag[i]) + "_0to1", n_rise[i]);
        ctx.count(std::string(kFlag[i]) + "_1to0", n_fall[i]);
    }
    ctx.count("cond_true", n_cond_true);
    ctx.count("cond_false", n_cond_false);
    ctx.count("memory_operand_cases", n_memop);
    ctx.count("and_imm8_kept_bits_nonzero", n_and8_kept);
    ctx.count("fvl_stays_latched", n_fvl_latched);
    ctx.count("flm_stays_set", n_flm_kept);
    ctx.count("source_aliases_destination", n_alias);
    ctx.count("skipped_unimplemented", n_skip[UNIMPL]);
    ctx.count("skipped_assert", n_skip[ASSERT_]);
    ctx.count("skipped_other", n_skip[OOB] + n_skip[OTHER_EXC]);
    ctx.maxv("encodings_listed", enc_total);
    ctx.maxv("encodings_excluded_other_operation", excluded_op);
    ctx.maxv("encodings_excluded_unimplemented_40bit_operand", excluded_unimpl40);
    ctx.maxv("encodings_excluded_pc_operand", excluded_pc);
    for (u32 op = 0; op < 0x10000; ++op)
        if (enc_seen[op])
            ctx.seen("enc", fmt("%04x", op));
    for (unsigned o2 = 0; o2 < O_COUNT; ++o2)
        for (unsigned f = 0; f < F_COUNT; ++f)
            for (unsigned x = 0; x < EV_COUNT; ++x)
                if (nt[o2][f][x])
                    ctx.seen("nt", fmt("%s/%s/%s", fam_name(f), op_name(o2), kEv[x]));
    return ctx.finish();
}
