// C09 — hardware loops execute their body exactly count+1 times.
//
// Oracle: TWIN. Machine A runs the loop program (rep / bkrep, nested up to four deep) on the real
// interpreter, single-stepped until the end marker. Machine B runs the SAME body instructions, but
// no loop instruction at all: the harness executes every body segment count+1 times by pointing pc
// at it ("unrolled by the harness"; bodies are position independent). Machine C (when the unrolled
// image is small) runs a literally unrolled flat image. Final registers and data memory must agree.
// The loop counter clause: a body may log the counter it sees (mov lc,[r2]+ at any position of a
// block, mov repc,[arRn]+ as the repeated instruction) into a region nothing reads back. B tells
// which loop instance / iteration each log word belongs to; A's values are judged PHASE-FREE per
// loop instance: consecutive iterations differ by 0 or 1, the first sees N or N-1, the final one 0,
// no value more than twice, counter 0 after exit. (The statement gives N decrements over N+1
// iterations and does not fix whether the observing instruction runs before or after the step; the
// pinned interpreter steps at the fetch of the repeated / last instruction. Framework decision:
// Interpretation, not a finding.)
// Loop-frame save/restore: (a) bkrepsto;bkreprst pairs inside running loops (A only; B skips them):
// the loop must still run the right number of remaining iterations, the frame fields / lp / bcn /
// address register are compared around the pair; (b) stand-alone pairs from random loop states with
// the stale frame clobbered in between.
//
// Opcode words come from vf::Encodings (the tree's decode table) by handler name + operand values,
// restricted by the documented base constants of decoder.h where operand shapes coincide; the tree's
// assembler is never used. Interrupts are off (ie = 0).
#include <algorithm>
#include <functional>
#include <map>
#include <set>
#include "exec.h"

using namespace vf;

namespace {

// ------------------------------------------------------------------ encoding lookup
struct Pat {
    u32 tag;
    s64 val; // < 0: any
};
template <class T>
u32 TagOf() {
    Rec r;
    r.one(T{});
    return r.form.ops.at(0).first;
}
template <class T>
Pat P(s64 v = -1) {
    return Pat{TagOf<T>(), v};
}
const Encodings* ENC = nullptr;

std::vector<u16> FindAll(const char* name, std::initializer_list<Pat> pats, int expanded = -1) {
    std::vector<u16> out;
    for (u16 op : ENC->of(name)) {
        const Encoding& e = ENC->all[op];
        if (expanded >= 0 && (int)e.expanded != expanded)
            continue;
        if (e.form.ops.size() != pats.size())
            continue;
        size_t i = 0;
        bool ok = true;
        for (auto& p : pats) {
            if (e.form.ops[i].first != p.tag || (p.val >= 0 && e.form.ops[i].second != (u64)p.val)) {
                ok = false;
                break;
            }
            ++i;
        }
        if (ok)
            out.push_back(op);
    }
    return out;
}
[[noreturn]] void Die(const std::string& what) {
    std::fprintf(stderr, "C09 harness: %s\n", what.c_str());
    std::exit(3);
}
std::vector<u16> Need(const char* name, std::initializer_list<Pat> pats, int expanded = -1) {
    auto v = FindAll(name, pats, expanded);
    if (v.empty())
        Die(std::string("no encoding found for handler ") + name);
    return v;
}
std::vector<u16> Masked(const std::vector<u16>& v, u16 mask, u16 base) {
    std::vector<u16> o;
    for (u16 x : v)
        if ((x & mask) == base)
            o.push_back(x);
    if (o.empty())
        Die(fmt("no encoding with base %04x", base));
    return o;
}
RegName RegisterName(unsigned raw) { return At<Register, 0>::Extract((u16)raw, 0).GetName(); }
unsigned RegisterRaw(RegName n) {
    for (unsigned raw = 0; raw < 32; ++raw)
        if (RegisterName(raw) == n)
            return raw;
    Die("register name not in the Register operand");
}
const char* RegStr(RegName r) {
    static const char* n[] = {"a0",   "a0l",  "a0h",  "a0e",  "a1",   "a1l",  "a1h",  "a1e",  "b0",   "b0l",  "b0h",
                              "b0e",  "b1",   "b1l",  "b1h",  "b1e",  "r0",   "r1",   "r2",   "r3",   "r4",   "r5",
                              "r6",   "r7",   "y0",   "p",    "pc",   "sp",   "sv",   "lc",   "ar0",  "ar1",  "arp0",
                              "arp1", "arp2", "arp3", "ext0", "ext1", "ext2", "ext3", "stt0", "stt1", "stt2", "st0",
                              "st1",  "st2",  "cfgi", "cfgj", "mod0", "mod1", "mod2", "mod3", "undefine"};
    return n[(int)r];
}

// ------------------------------------------------------------------ field indices
struct IX {
    int pc, sp, lp, bcn, rep, repc, ie, sv, y0;
    int a[2], b[2], r[8], ext[4], m[8], br[8], arrn[4], arstep[4];
    int bk_start[4], bk_end[4], bk_lc[4];
    IX() {
        pc = FieldIndex("pc"), sp = FieldIndex("sp"), lp = FieldIndex("lp"), bcn = FieldIndex("bcn");
        rep = FieldIndex("rep"), repc = FieldIndex("repc"), ie = FieldIndex("ie"), sv = FieldIndex("sv");
        y0 = FieldIndex("y[0]");
        for (int i = 0; i < 2; ++i)
            a[i] = FieldIndex(fmt("a[%d]", i)), b[i] = FieldIndex(fmt("b[%d]", i));
        for (int i = 0; i < 8; ++i)
            r[i] = FieldIndex(fmt("r[%d]", i)), m[i] = FieldIndex(fmt("m[%d]", i)), br[i] = FieldIndex(fmt("br[%d]", i));
        for (int i = 0; i < 4; ++i) {
            ext[i] = FieldIndex(fmt("ext[%d]", i)), arrn[i] = FieldIndex(fmt("arrn[%d]", i));
            arstep[i] = FieldIndex(fmt("arstep[%d]", i));
            bk_start[i] = FieldIndex(fmt("bkrep_stack[%d].start", i));
            bk_end[i] = FieldIndex(fmt("bkrep_stack[%d].end", i));
            bk_lc[i] = FieldIndex(fmt("bkrep_stack[%d].lc", i));
        }
    }
};
const IX* X = nullptr;

// write a 16-bit value into the field a plain register name denotes (used for loop counts in registers)
bool PlainSet(RegName r, CaseState& s, u16 v) {
    auto part = [&](int idx, int shift) {
        s.v[idx] = sext((s.v[idx] & ~(0xFFFFull << shift)) | ((u64)v << shift), 40);
        return true;
    };
    switch (r) {
    case RegName::a0l: return part(X->a[0], 0);
    case RegName::a0h: return part(X->a[0], 16);
    case RegName::a1l: return part(X->a[1], 0);
    case RegName::a1h: return part(X->a[1], 16);
    case RegName::b0l: return part(X->b[0], 0);
    case RegName::b0h: return part(X->b[0], 16);
    case RegName::b1l: return part(X->b[1], 0);
    case RegName::b1h: return part(X->b[1], 16);
    case RegName::a0: return part(X->a[0], 0); // as a Register source operand a0/a1 read their low word
    case RegName::a1: return part(X->a[1], 0);
    case RegName::r0: case RegName::r1: case RegName::r2: case RegName::r3:
    case RegName::r4: case RegName::r5: case RegName::r6: case RegName::r7:
        s.v[X->r[(int)r - (int)RegName::r0]] = v;
        return true;
    case RegName::y0: s.v[X->y0] = v; return true;
    case RegName::sv: s.v[X->sv] = v; return true;
    case RegName::ext0: case RegName::ext1: case RegName::ext2: case RegName::ext3:
        s.v[X->ext[(int)r - (int)RegName::ext0]] = v;
        return true;
    default: return false;
    }
}

// ------------------------------------------------------------------ register roles inside loop bodies
// r0 r1         address registers of body loads/stores (linear stepping: m = br = 0)
// r2            pointer of the counter log: only mov lc,[r2]+ / mov repc,[arRn]+ use it, nothing reads the log back
// r3 / sp       loop-frame save area pointer (never touched by body instructions)
// r4 r5 r7 ext0..3 r6   loop counts (never written by body instructions)
// y0 sv a0 a1 b0 b1     data registers written by body instructions
bool IsData(RegName r) {
    switch (r) {
    case RegName::y0: case RegName::sv: case RegName::a0l: case RegName::a1l: case RegName::a0h: case RegName::a1h:
    case RegName::b0l: case RegName::b1l: case RegName::b0h: case RegName::b1h:
        return true;
    default: return false;
    }
}
bool IsCount(RegName r) {
    switch (r) {
    case RegName::r4: case RegName::r5: case RegName::r7: case RegName::ext0: case RegName::ext1:
    case RegName::ext2: case RegName::ext3:
        return true;
    default: return false;
    }
}
bool IsAddr(RegName r) { return r == RegName::r0 || r == RegName::r1; }
bool BodySrc(RegName r) { return IsData(r) || IsCount(r) || IsAddr(r) || r == RegName::cfgi || r == RegName::cfgj; }
bool BodyDst(RegName r) { return IsData(r); }

enum Kind : u8 { K_NORMAL, K_LC_STORE, K_REPC_STORE, K_STO, K_RST, K_REP };
struct Ins {
    u16 w[2] = {0, 0};
    u8 n = 1;
    u8 kind = K_NORMAL;
    bool mem_step = false; // modifies an address register
    bool imm_mem = false;  // second word is a data address (filled per use)
    u16 rep_count = 0;     // K_REP
    u32 addr = 0;
};

struct Pool {
    std::vector<Ins> one, one_nostep, two; // one-word (all / without address stepping), two-word
    std::vector<u16> lc_store;             // mov lc, [r2]+
    std::vector<u16> repc_store;           // mov repc, [arRn1]+arstep1
    std::vector<u16> repc_to_acc;          // mov repc, b0/b1/a0/a1 ; mov repc, b0l..a1l
    u16 nop;
    u16 sto_sp, rst_sp;
    u16 sto_ar[4], rst_ar[4];
    void add1(u16 op, bool step) {
        Ins i;
        i.w[0] = op;
        i.mem_step = step;
        one.push_back(i);
        if (!step)
            one_nostep.push_back(i);
    }
    void add2(u16 op, bool imm_mem) {
        Ins i;
        i.w[0] = op;
        i.n = 2;
        i.imm_mem = imm_mem;
        two.push_back(i);
    }
    Pool() {
        nop = Need("nop", {})[0]; // 0x0000
        // moda4 / moda3: shr shr4 shl shl4 ror rol clr not neg rnd pacr clrr inc dec copy, any condition
        for (u16 op : ENC->of("moda4"))
            add1(op, false);
        for (u16 op : ENC->of("moda3"))
            add1(op, false);
        // alu #imm8, aX = 0xC000 | alu<<9 | ax<<8 | imm8 (or and xor add cmp sub)
        for (u16 op : Masked(Need("alu", {P<Alu>(), P<Imm8>(), P<Ax>()}, 0), 0xF000, 0xC000))
            add1(op, false);
        // alm op reg, aX = 0x80A0 | alm<<9 | ax<<8 | reg
        for (u16 op : Masked(Need("alm", {P<Alm>(), P<Register>(), P<Ax>()}, 0), 0xE0E0, 0x80A0)) {
            const Form& f = ENC->all[op].form;
            u64 alm = f.ops[0].second;
            if (alm == 8 || alm == 13 || alm == 14) // msu sqr sqra
                continue;
            if (BodySrc(RegisterName((unsigned)f.ops[1].second)))
                add1(op, false);
        }
        // mov reg, reg = 0x5800 | dst<<5 | src
        for (u16 op : Masked(Need("mov", {P<Register>(), P<Register>()}, 0), 0xFC00, 0x5800)) {
            const Form& f = ENC->all[op].form;
            if (BodySrc(RegisterName((unsigned)f.ops[0].second)) && BodyDst(RegisterName((unsigned)f.ops[1].second)))
                add1(op, false);
        }
        // mov [rN]step, reg = 0x1C00 | reg<<5 | step<<3 | rn     (load; step: 0 none 1 +1 2 -1)
        for (u16 op : Masked(Need("mov", {P<Rn>(), P<StepZIDS>(), P<Register>()}, 0), 0xFC00, 0x1C00)) {
            const Form& f = ENC->all[op].form;
            if (f.ops[0].second <= 1 && f.ops[1].second <= 2 && BodyDst(RegisterName((unsigned)f.ops[2].second)))
                add1(op, f.ops[1].second != 0);
        }
        // mov reg, [rN]step = 0x1800 | reg<<5 | step<<3 | rn     (store)
        for (u16 op : Masked(Need("mov", {P<Register>(), P<Rn>(), P<StepZIDS>()}, 0), 0xFC00, 0x1800)) {
            const Form& f = ENC->all[op].form;
            RegName src = RegisterName((unsigned)f.ops[0].second);
            if (f.ops[1].second <= 1 && f.ops[2].second <= 2 && BodySrc(src))
                add1(op, f.ops[2].second != 0);
            else if (src == RegName::lc && f.ops[1].second == 2 && f.ops[2].second == 1)
                lc_store.push_back(op); // mov lc, [r2]+
        }
        // alm op [rN]step, aX = 0x8080 | alm<<9 | ax<<8 | step<<3 | rn
        for (u16 op : Masked(Need("alm", {P<Alm>(), P<Rn>(), P<StepZIDS>(), P<Ax>()}, 0), 0xE0E0, 0x8080)) {
            const Form& f = ENC->all[op].form;
            u64 alm = f.ops[0].second;
            if (alm == 8 || alm == 13 || alm == 14)
                continue;
            if (f.ops[1].second <= 1 && f.ops[2].second <= 2)
                add1(op, f.ops[2].second != 0);
        }
        // two-word: alu ##imm16, aX = 0x80C0 | alu<<9 | ax<<8
        for (u16 op : Masked(Need("alu", {P<Alu>(), P<Imm16>(), P<Ax>()}, 1), 0xF0FF, 0x80C0))
            add2(op, false);
        // mov ##imm16, reg = 0x5E00 | reg
        for (u16 op : Masked(Need("mov", {P<Imm16>(), P<Register>()}, 1), 0xFFE0, 0x5E00))
            if (BodyDst(RegisterName((unsigned)ENC->all[op].form.ops[1].second)))
                add2(op, false);
        // mov ##imm16, b0/b1 = 0x5E20 | x<<8
        for (u16 op : Masked(Need("mov", {P<Imm16>(), P<Bx>()}, 1), 0xFEFF, 0x5E20))
            add2(op, false);
        // mov a0l/a1l, [##addr16] = 0xD4BC | x<<8 ; mov [##addr16], a0/a1 = 0xD4B8 | x<<8 ;
        // alu op [##addr16], aX = 0xD4F8 | ax<<8 | alu
        for (u16 op : Masked(Need("mov", {P<Axl>(), P<MemImm16>()}, 1), 0xFEFF, 0xD4BC))
            add2(op, true);
        for (u16 op : Masked(Need("mov", {P<MemImm16>(), P<Ax>()}, 1), 0xFEFF, 0xD4B8))
            add2(op, true);
        for (u16 op : Masked(Need("alu", {P<Alu>(), P<MemImm16>(), P<Ax>()}, 1), 0xFEF8, 0xD4F8))
            add2(op, true);
        // mov repc, [arRn1]arstep1 = 0xD7D0 | rn<<1 | step
        repc_store = Masked(Need("mov_repc_to", {P<ArRn1>(), P<ArStep1>()}, 0), 0xFFFC, 0xD7D0);
        // mov repc, b0/b1/a0/a1 = 0xD490 | ab<<5 ; mov repc, b0l/b1l/a0l/a1l = 0xD2D9 | abl<<10
        repc_to_acc = Masked(Need("mov_repc_to", {P<Ab>()}, 0), 0xFF9F, 0xD490);
        for (u16 op : Masked(Need("mov_repc_to", {P<Abl>()}, 0), 0xF3FF, 0xD2D9))
            repc_to_acc.push_back(op);
        if (lc_store.size() != 1)
            Die("expected one encoding of mov lc, [r2]+");
        sto_sp = Need("bkrepsto_memsp", {})[0]; // 0x9468 bkrepsto [sp]
        rst_sp = Need("bkreprst_memsp", {})[0]; // 0x5F48 bkreprst [sp]
        for (int i = 0; i < 4; ++i) {
            sto_ar[i] = Need("bkrepsto", {P<ArRn2>(i)})[0]; // 0xDADC | i  bkrepsto [arRn2]
            rst_ar[i] = Need("bkreprst", {P<ArRn2>(i)})[0]; // 0xDA9C | i  bkreprst [arRn2]
        }
    }
};

// ------------------------------------------------------------------ programs
struct Seg {
    std::vector<Ins> ins;
};
struct Loop {
    int form = 0; // 0: bkrep #imm8  1: bkrep reg  2: bkrep r6
    RegName creg = RegName::undefine;
    u32 count = 0;
    u32 bk_addr = 0, end = 0;
    Seg pre, post;
    bool has_inner = false;
};
struct Program {
    bool is_rep = false;
    // rep programs
    int rep_form = 0;
    RegName rep_reg = RegName::undefine;
    u32 rep_count = 0;
    Ins rep_x;
    u32 rep_addr = 0;
    // bkrep programs: loops[0] outermost
    std::vector<Loop> loops;
    Seg prefix, suffix;
    u32 pc0 = 0, end_marker = 0;
    std::vector<u16> image;
    bool has_counter_store = false, has_sto_rst = false, has_rep_inside = false, rep_at_block_end = false;
};

const char* CountClass(u32 n) {
    return n == 0 ? "0" : n == 1 ? "1" : n == 2 ? "2" : n <= 8 ? "3-8" : n <= 40 ? "9-40" : n < 255 ? "41-254"
         : n == 255 ? "255" : n == 256 ? "256" : n < 65535 ? "257-65534" : "65535";
}

struct Rig {
    Machine m;
    void begin(const CaseState& s, const std::vector<u16>& image, u32 pc0) {
        m.clean();
        m.load(s);
        for (size_t i = 0; i < image.size(); ++i)
            m.prog(pc0 + (u32)i, image[i]);
    }
    u64 reg(int idx) { return Fields()[idx].get(m.core.regs); }
};

std::string Hex(const std::vector<u16>& w, size_t lim = 80) {
    std::string s;
    for (size_t i = 0; i < w.size() && i < lim; ++i)
        s += fmt("%04x ", w[i]);
    if (w.size() > lim)
        s += "...";
    return s;
}

struct Ignore {
    std::vector<char> m;
    Ignore() : m(Fields().size(), 0) {}
    Ignore& operator()(int idx) {
        m[idx] = 1;
        return *this;
    }
};
std::string DiffX(const CaseState& a, const CaseState& b, const Ignore& ig, std::string* text = nullptr) {
    std::string first;
    auto& f = Fields();
    int n = 0;
    for (size_t i = 0; i < f.size(); ++i)
        if (!ig.m[i] && a.v[i] != b.v[i]) {
            if (first.empty())
                first = f[i].name;
            if (text && n++ < 10)
                *text += fmt("%s:%" PRIx64 "!=%" PRIx64 " ", f[i].name, a.v[i], b.v[i]);
        }
    return first;
}
std::string KeyField(std::string f) {
    size_t p = f.find('[');
    if (p != std::string::npos) {
        size_t q = f.find(']', p);
        f = f.substr(0, p + 1) + f.substr(q);
    }
    return f;
}

constexpr u16 kFrameLo = 0x4000, kFrameHi = 0x5000; // loop-frame save area (A only writes there)
constexpr u16 kImmMemLo = 0x6000;                   // fixed-address operands of two-word body instructions
constexpr u16 kCtrLo = 0xC000, kCtrHi = 0xD000;     // counter log written through r2 (never read by a body)

} // namespace

int main(int argc, char** argv) {
    Ctx ctx;
    ctx.parse(argc, argv, "C09");
    Encodings enc;
    ENC = &enc;
    IX ix;
    X = &ix;
    Pool pool;
    Rig A, B, C;

    enum { S_REP, S_BK, S_FRAME };
    // (section, nesting depth)
    static const int kSchedule[][2] = {{S_REP, 0}, {S_BK, 1}, {S_BK, 2}, {S_BK, 3}, {S_BK, 4}, {S_FRAME, 0},
                                       {S_BK, 1},  {S_REP, 0}, {S_BK, 2}, {S_BK, 4}, {S_BK, 3}, {S_BK, 1}};
    const unsigned kSched = sizeof kSchedule / sizeof kSchedule[0];
    static const u32 kSweep[] = {0,  1,  2,  3,  4,  5,  6,  7,  8,  9,  10, 11, 12, 13, 14,  15,  16,   17, 18, 19, 20, 21,
                                 22, 23, 24, 25, 26, 27, 28, 29, 30, 31, 32, 33, 34, 35, 36,  37,  38,   39, 40, 255, 256, 65535};
    const unsigned kSweepN = sizeof kSweep / sizeof kSweep[0];
    const RegName kCountRegs[] = {RegName::r4, RegName::r5, RegName::r7, RegName::ext0, RegName::ext1, RegName::ext2, RegName::ext3};
    const RegName kOuterOnlyRegs[] = {RegName::a0l, RegName::a1l, RegName::a0h, RegName::a1h, RegName::b0l, RegName::b1l,
                                      RegName::b0h, RegName::b1h, RegName::y0,  RegName::sv,  RegName::r0,  RegName::r1,
                                      RegName::a0,  RegName::a1};

    for (u64 c = 0; c < ctx.cases; ++c) {
        if (!ctx.selected(c))
            continue;
        Rng g = ctx.case_rng(c);
        const int section = kSchedule[c % kSched][0];
        const unsigned depth = (unsigned)kSchedule[c % kSched][1];
        const u64 fi = c / kSched + (u64)ctx.shard * 7919u; // every shard sweeps all forms from its own offset
        ctx.count("cases");
        bool bad = false;
        std::string progtxt;
        CaseState s0;
        auto fail = [&](const std::string& key, const std::string& what, const std::string& extra = "") {
            if (bad)
                return;
            bad = true;
            JObj j;
            j.str("what", what).str("program", progtxt).str("extra", extra).raw("state", StateJson(s0));
            ctx.violation(key, what, c, j.done());
        };

        // ------------------------------------------------------------ common well-formed state
        CaseState s = RandomState(g);
        for (int i = 0; i < 8; ++i)
            s.v[X->m[i]] = 0, s.v[X->br[i]] = 0; // linear address stepping
        for (int i = 0; i < 2; ++i)
            s.v[X->r[i]] = g.chance(1, 2) ? g.range(0x1000, 0x2FFF) : g.range(0x5800, 0x5FFF);
        s.v[X->r[2]] = g.range(kCtrLo, kCtrLo + 0x3FF); // counter log, far from everything the body addresses
        s.v[X->r[3]] = g.range(kFrameLo + 0x100, kFrameHi - 0x100);
        s.v[X->sp] = g.range(kFrameLo + 0x100, kFrameHi - 0x100);
        for (int i = 0; i < 4; ++i) {
            s.v[X->arrn[i]] = 2;            // arRn -> r2 (only mov repc,[arRn] uses it)
            s.v[X->arstep[i]] = g.below(3); // 0: +0  1: +1  2: -1
        }

        if (section == S_FRAME) {
            // -------------------------------------------------------- stand-alone bkrepsto ; bkreprst
            unsigned bcn = (unsigned)(fi % 5);
            unsigned form = (unsigned)((fi / 5) % 5); // 0..3: [arRn2 i], 4: [sp]
            u32 pc0 = g.chance(1, 2) ? (u32)g.range(0x100, 0xFE00) : (u32)g.range(0x10000, 0x1FE00);
            s.v[X->bcn] = bcn;
            s.v[X->lp] = bcn != 0;
            for (int i = 0; i < 4; ++i) {
                // frames inside program memory; ends away from this code so that no loop-back happens here
                u32 st = (u32)g.below(0x3FFFF), en = (u32)g.below(0x3FFFF);
                if (en + 8 >= pc0 && en <= pc0 + 8)
                    en = pc0 + 0x40;
                s.v[X->bk_start[i]] = st, s.v[X->bk_end[i]] = en;
            }
            if (form < 4)
                s.v[X->arrn[form]] = 3; // arRn -> r3
            s.v[X->pc] = pc0;
            s0 = s;
            u16 sto = form < 4 ? pool.sto_ar[form] : pool.sto_sp, rst = form < 4 ? pool.rst_ar[form] : pool.rst_sp;
            A.begin(s, {sto, rst}, pc0);
            progtxt = fmt("@%05x: %04x %04x (bkrepsto;bkreprst %s) bcn=%u", pc0, sto, rst, form < 4 ? "[arRn2]" : "[sp]", bcn);
            std::string kb = fmt("frame:%s:%s", form < 4 ? "ar" : "sp", bcn ? "in-loop" : "no-loop");
            RunResult rr = A.m.run(1);
            if (rr.outcome != OK) {
                fail(kb + ":outcome:" + outcome_name(rr.outcome), "bkrepsto ended in " + rr.what);
                continue;
            }
            int ptr = form < 4 ? X->r[3] : X->sp;
            if (A.reg(ptr) != (u16)(s.v[ptr] - 4))
                fail(kb + ":store-pointer", "bkrepsto did not move the pointer down by four words");
            if (bcn && A.reg(X->bcn) != bcn - 1)
                fail(kb + ":store-bcn", "bkrepsto inside a loop did not pop one nesting level");
            // clobber what the restore must rewrite: the stale top frame (and frame 0 outside a loop)
            unsigned stale = bcn ? bcn - 1 : 0;
            A.m.core.regs.bkrep_stack[stale].start = (u32)g.below(0x3FFFF);
            A.m.core.regs.bkrep_stack[stale].end = pc0 + 0x80;
            A.m.core.regs.bkrep_stack[stale].lc = (u16)g.bits(16);
            if (bcn <= 1) {
                A.m.core.regs.bkrep_stack[0].start = (u32)g.below(0x3FFFF);
                A.m.core.regs.bkrep_stack[0].end = pc0 + 0x80;
                A.m.core.regs.bkrep_stack[0].lc = (u16)g.bits(16);
            }
            if (bad)
                continue;
            rr = A.m.run(1);
            if (rr.outcome != OK) {
                fail(kb + ":outcome:" + outcome_name(rr.outcome), "bkreprst ended in " + rr.what);
                continue;
            }
            CaseState a2 = A.m.capture();
            CaseState e = s;
            e.v[X->pc] = pc0 + 2;
            std::string txt, f = DiffX(a2, e, Ignore(), &txt);
            if (!f.empty())
                fail(kb + ":roundtrip:" + KeyField(f), "bkrepsto;bkreprst did not round-trip the loop state", txt);
            if (!bad) {
                ctx.count("frame_roundtrips");
                ctx.seen("nt", fmt("frame:%s:bcn=%u:page=%u", form < 4 ? fmt("ar%u", form).c_str() : "sp", bcn, pc0 >> 16));
            }
            continue;
        }

        // ------------------------------------------------------------ build a loop program
        Program pr;
        pr.is_rep = section == S_REP;
        auto pick_count = [&](bool small_only, u32 cap) -> u32 {
            u32 n;
            if (small_only)
                n = g.chance(1, 4) ? 0 : (u32)g.below(5);
            else {
                unsigned k = (unsigned)g.below(10);
                n = k < 6 ? kSweep[(fi + g.below(3)) % kSweepN] : k < 8 ? (u32)g.below(41) : k == 8 ? (u32)g.range(41, 600) : (u32)g.bits(16);
            }
            return std::min(n, cap);
        };
        auto rand_ins = [&](bool allow_two, bool allow_step, bool force_two = false) -> Ins {
            Ins i;
            if (force_two || (allow_two && g.chance(1, 4))) {
                i = g.pick(pool.two);
                i.w[1] = i.imm_mem ? (u16)(kImmMemLo + g.below(0x40)) : g.edge16();
            } else
                i = allow_step ? g.pick(pool.one) : g.pick(pool.one_nostep);
            return i;
        };
        u64 iterations_total = 0; // planned body executions (all levels)

        if (pr.is_rep) {
            pr.rep_form = (int)(fi % 3);
            pr.rep_count = kSweep[(fi / 3) % kSweepN];
            if (g.chance(1, 4))
                pr.rep_count = g.chance(1, 2) ? (u32)g.below(300) : (u32)g.bits(16);
            if (pr.rep_form == 0 && pr.rep_count > 255)
                pr.rep_count = g.chance(1, 2) ? 255 : (u32)g.below(256);
            bool big = pr.rep_count > 0x600;
            unsigned xk = (unsigned)g.below(8);
            if (xk == 0) { // mov repc, [arRn1]arstep1 : the counter visible to the repeated instruction
                pr.rep_x.w[0] = g.pick(pool.repc_store);
                pr.rep_x.kind = K_REPC_STORE;
                pr.rep_x.mem_step = !big;
                pr.has_counter_store = true;
                if (big)
                    for (int i = 0; i < 4; ++i)
                        s.v[X->arstep[i]] = 0;
                else
                    for (int i = 0; i < 4; ++i)
                        s.v[X->arstep[i]] = 1; // post-increment: one word per iteration
            } else if (xk == 1) {
                pr.rep_x.w[0] = g.pick(pool.repc_to_acc);
                pr.rep_x.kind = K_REPC_STORE;
                pr.has_counter_store = true;
            } else
                pr.rep_x = rand_ins(false, !big);
            unsigned npre = (unsigned)g.below(3), nsuf = (unsigned)g.below(3);
            for (unsigned i = 0; i < npre; ++i)
                pr.prefix.ins.push_back(rand_ins(true, true));
            for (unsigned i = 0; i < nsuf; ++i)
                pr.suffix.ins.push_back(rand_ins(true, true));
            if (pr.rep_form == 1)
                pr.rep_reg = (npre == 0 && g.chance(1, 2)) ? g.pick(kOuterOnlyRegs) : g.pick(kCountRegs);
            iterations_total = (u64)pr.rep_count + 1;
        } else {
            // counts: product of (N+1) bounded so that a case stays below ~150k executed instructions
            pr.loops.resize(depth);
            u64 budget = 70000;
            unsigned big_level = (unsigned)g.below(depth); // the level that may take a large count
            std::vector<RegName> cregs(std::begin(kCountRegs), std::end(kCountRegs));
            for (size_t i = cregs.size(); i > 1; --i)
                std::swap(cregs[i - 1], cregs[g.below(i)]);
            bool used_r6 = false;
            u64 prod = 1;
            for (unsigned d = 0; d < depth; ++d) {
                Loop& L = pr.loops[d];
                L.has_inner = d + 1 < depth;
                L.form = (int)g.below(3);
                if (L.form == 2 && used_r6)
                    L.form = 1;
                if (L.form == 2)
                    used_r6 = true;
                u32 cap = (u32)std::min<u64>(65535, budget / prod > 0 ? budget / prod - 1 : 0);
                if (depth > 1 && d != big_level)
                    cap = std::min<u32>(cap, 6);
                if (depth > 2)
                    cap = std::min<u32>(cap, d == big_level ? 40 : 3);
                L.count = pick_count(depth > 1 && d != big_level, cap);
                if (L.form == 0 && L.count > 255)
                    L.form = 1;
                if (L.form == 1)
                    L.creg = cregs[d];
                prod *= (u64)L.count + 1;
            }
            if (depth == 1 && pr.loops[0].form == 1 && g.chance(1, 3))
                pr.loops[0].creg = g.pick(kOuterOnlyRegs); // outermost bkrep is the first instruction: any register
            bool big = prod > 0x200; // bounds the distance address registers can travel (MMIO window at 0x8000)
            u64 mult = 1;
            for (unsigned d = 0; d < depth; ++d) {
                Loop& L = pr.loops[d];
                mult *= (u64)L.count + 1;
                iterations_total += mult;
                unsigned maxlen = big ? 2 : 4;
                unsigned npre = (unsigned)g.below(maxlen + 1);
                unsigned npost = 1 + (unsigned)g.below(maxlen);
                if (!L.has_inner && npre + npost > maxlen)
                    npre = maxlen - std::min(maxlen, npost);
                for (unsigned i = 0; i < npre; ++i)
                    L.pre.ins.push_back(rand_ins(true, !big));
                for (unsigned i = 0; i < npost; ++i) {
                    bool last = i + 1 == npost;
                    // last instruction of a block: one- or two-word, both
                    L.post.ins.push_back(last ? rand_ins(false, !big, g.chance(1, 2)) : rand_ins(true, !big));
                }
                // counter log: mov lc, [r2]+ anywhere in the block, also as its last instruction
                if (!big && g.chance(1, 3)) {
                    Ins st;
                    st.w[0] = g.pick(pool.lc_store);
                    st.kind = K_LC_STORE;
                    st.mem_step = true;
                    unsigned where = (unsigned)g.below(4);
                    if (where == 0)
                        L.post.ins.push_back(st); // becomes the last instruction of the block
                    else if (where == 1)
                        L.post.ins.insert(L.post.ins.begin() + g.below(L.post.ins.size()), st);
                    else
                        L.pre.ins.insert(L.pre.ins.begin() + g.below(L.pre.ins.size() + 1), st);
                    pr.has_counter_store = true;
                }
                // rep inside a block, also with its target as the last instruction of the block
                if (!big && g.chance(1, 6)) {
                    Ins rp, x = rand_ins(false, true);
                    rp.kind = K_REP;
                    rp.rep_count = (u16)g.below(5);
                    rp.w[0] = Need("rep", {P<Imm8>(rp.rep_count)}, 0)[0]; // rep #imm8 = 0x0C00 | imm8
                    if (g.chance(1, 3)) {
                        // the repeated instruction is the LAST instruction of the block: the block-end test must
                        // still be made when its final repetition has been fetched
                        L.post.ins.push_back(rp);
                        L.post.ins.push_back(x);
                        pr.rep_at_block_end = true;
                    } else {
                        size_t at = g.below(L.pre.ins.size() + 1);
                        L.pre.ins.insert(L.pre.ins.begin() + at, x);
                        L.pre.ins.insert(L.pre.ins.begin() + at, rp);
                    }
                    pr.has_rep_inside = true;
                }
                // loop-frame save/restore pair inside the running loop, followed by at least one more
                // instruction of the same block
                if (mult <= 64 && g.chance(1, 4)) {
                    unsigned form = (unsigned)g.below(5);
                    Ins a, b;
                    a.kind = K_STO, b.kind = K_RST;
                    a.w[0] = form < 4 ? pool.sto_ar[form] : pool.sto_sp;
                    b.w[0] = form < 4 ? pool.rst_ar[form] : pool.rst_sp;
                    if (form < 4)
                        s.v[X->arrn[form]] = 3; // arRn -> r3 (repc stores through this arRn are not generated in blocks)
                    bool in_pre = g.chance(1, 2);
                    Seg& sg = in_pre ? L.pre : L.post;
                    size_t at = in_pre ? g.below(sg.ins.size() + 1) : g.below(sg.ins.size());
                    // keep a rep and its target adjacent
                    while (at > 0 && sg.ins[at - 1].kind == K_REP)
                        --at;
                    sg.ins.insert(sg.ins.begin() + at, b);
                    sg.ins.insert(sg.ins.begin() + at, a);
                    pr.has_sto_rst = true;
                }
            }
            unsigned npre = (unsigned)g.below(3), nsuf = (unsigned)g.below(3);
            if (IsCount(pr.loops[0].creg) || pr.loops[0].form != 1)
                for (unsigned i = 0; i < npre; ++i)
                    pr.prefix.ins.push_back(rand_ins(true, true));
            for (unsigned i = 0; i < nsuf; ++i)
                pr.suffix.ins.push_back(rand_ins(true, true));
        }

        // ------------------------------------------------------------ lay the program out
        {
            std::vector<u16>& im = pr.image;
            u32 base = 0; // relative
            auto emit = [&](Ins& i) {
                i.addr = base + (u32)im.size();
                im.push_back(i.w[0]);
                if (i.n == 2)
                    im.push_back(i.w[1]);
            };
            for (auto& i : pr.prefix.ins)
                emit(i);
            std::vector<size_t> bk_pos;
            if (pr.is_rep) {
                pr.rep_addr = (u32)im.size();
                im.push_back(0); // patched below
                emit(pr.rep_x);
            } else {
                for (unsigned d = 0; d < depth; ++d) {
                    pr.loops[d].bk_addr = (u32)im.size();
                    im.push_back(0), im.push_back(0);
                    for (auto& i : pr.loops[d].pre.ins)
                        emit(i);
                }
                for (int d = (int)depth - 1; d >= 0; --d) {
                    for (auto& i : pr.loops[d].post.ins)
                        emit(i);
                    pr.loops[d].end = (u32)im.size() - 1; // address of the last word of the block
                }
            }
            for (auto& i : pr.suffix.ins)
                emit(i);
            u32 len = (u32)im.size();
            // whole program inside one 64K page (bkrep #imm8 takes the page of the end address from pc)
            bool page1 = g.chance(1, 2);
            u32 pc0 = page1 ? (u32)g.range(0x10000, 0x1FE00 - len) : (u32)g.range(0x100, 0xFE00 - len);
            if (g.chance(1, 8)) {
                // the loop instruction of the outermost loop ends on (or straddles) the 64K page boundary: everything it
                // repeats lies in page 1, the prefix in page 0 (still valid for bkrep #imm8: the page of the block end is
                // that of the first body word)
                u32 rel = pr.is_rep ? (u32)pr.rep_addr + 1 : pr.loops[0].bk_addr + 2;
                pc0 = 0x10000 - rel + (pr.is_rep ? 0 : (u32)g.below(2));
                ctx.count("programs_with_loop_at_page_boundary");
            }
            pr.pc0 = pc0;
            pr.end_marker = pc0 + len;
            auto rebase = [&](Seg& sg) {
                for (auto& i : sg.ins)
                    i.addr += pc0;
            };
            rebase(pr.prefix), rebase(pr.suffix);
            if (pr.is_rep) {
                pr.rep_x.addr += pc0;
                u16 w;
                if (pr.rep_form == 0)
                    w = Need("rep", {P<Imm8>(pr.rep_count)}, 0)[0]; // rep #imm8 = 0x0C00 | imm8
                else if (pr.rep_form == 1)
                    w = Need("rep", {P<Register>(RegisterRaw(pr.rep_reg))}, 0)[0]; // rep reg = 0x0D00 | reg
                else
                    w = g.pick(Need("rep_r6", {}, 0)); // rep r6 = 0x0002 (bit 0 unused)
                im[pr.rep_addr] = w;
                pr.rep_addr += pc0;
            } else {
                for (unsigned d = 0; d < depth; ++d) {
                    Loop& L = pr.loops[d];
                    rebase(L.pre), rebase(L.post);
                    u32 rel = L.bk_addr;
                    L.bk_addr += pc0, L.end += pc0;
                    u16 w;
                    if (L.form == 0) // bkrep #imm8, addr16 = 0x5C00 | imm8 ; second word = end & 0xFFFF (page from pc)
                        w = Need("bkrep", {P<Imm8>(L.count), P<Address16>()}, 1)[0];
                    else if (L.form == 1) // bkrep reg, addr18 = 0x5D00 | (end>>16)<<5 | reg
                        w = Need("bkrep", {P<Register>(RegisterRaw(L.creg)), P<Address18_16>(), P<Address18_2>(L.end >> 16)}, 1)[0];
                    else // bkrep r6, addr18 = 0x8FDC | end>>16
                        w = Need("bkrep_r6", {P<Address18_16>(), P<Address18_2>(L.end >> 16)}, 1)[0];
                    im[rel] = w;
                    im[rel + 1] = (u16)(L.end & 0xFFFF);
                }
            }
        }
        // counts held in registers
        if (pr.is_rep) {
            if (pr.rep_form == 1)
                PlainSet(pr.rep_reg, s, (u16)pr.rep_count);
            else if (pr.rep_form == 2)
                s.v[X->r[6]] = pr.rep_count;
        } else
            for (auto& L : pr.loops) {
                if (L.form == 1)
                    PlainSet(L.creg, s, (u16)L.count);
                else if (L.form == 2)
                    s.v[X->r[6]] = L.count;
            }
        s.v[X->pc] = pr.pc0;
        s0 = s;
        {
            std::string d;
            if (pr.is_rep)
                d = fmt("rep form=%d count=%u", pr.rep_form, pr.rep_count);
            else
                for (auto& L : pr.loops)
                    d += fmt("[bkrep form=%d count=%u %s end=%05x]", L.form, L.count, L.form == 1 ? RegStr(L.creg) : "", L.end);
            progtxt = fmt("@%05x: %s; %s", pr.pc0, Hex(pr.image).c_str(), d.c_str());
        }
        std::string kb = pr.is_rep ? fmt("rep:%s", pr.rep_form == 0 ? "imm8" : pr.rep_form == 1 ? "reg" : "r6")
                                   : fmt("bkrep:depth=%u", depth);

        // ------------------------------------------------------------ B: the unrolled execution driven by the harness
        B.begin(s, pr.image, pr.pc0);
        u64 bsteps = 0, loop_instr_execs = 0;
        // counter log: the k-th executed counter store (through r2, post-increment) writes word r2_0 + k.
        // B only supplies WHICH loop instance / iteration each log word belongs to; the values are A's.
        struct CtrRec {
            u32 group;   // (loop instance, store instruction)
            u32 n, it;   // count of that loop, iteration index 0..n
            bool last;   // the store is the last instruction of its block
            bool nested; // the loop has an enclosing loop
            u32 encl;    // counter value the enclosing loop shows during this iteration (n_outer - it_outer)
            bool repc;
        };
        std::vector<CtrRec> recs;
        const u16 ctr_base = (u16)s.v[X->r[2]];
        bool ctr_stepping = true; // false: all stores hit one word (large rep counts), only the last value remains
        u32 next_group = 0;
        bool bok = true;
        auto exec_ins = [&](const Ins& i) {
            if (!bok || i.kind == K_STO || i.kind == K_RST || i.kind == K_REP)
                return;
            B.m.core.regs.pc = i.addr;
            RunResult rr = B.m.run(1);
            ++bsteps;
            if (rr.outcome != OK) {
                // an unexpected ending of a body instruction on the reference side: the case proves nothing
                bok = false;
                ctx.count("twin_body_outcome_not_ok");
            }
        };
        struct LoopCtx {
            u32 group0, n, it, encl;
            bool nested;
            const Ins* last;
        };
        auto exec_seg = [&](const Seg& sg, const LoopCtx* lc) {
            for (size_t k = 0; k < sg.ins.size() && bok; ++k) {
                const Ins& i = sg.ins[k];
                if (i.kind == K_REP) {
                    const Ins& x = sg.ins[k + 1];
                    ++loop_instr_execs;
                    for (u32 q = 0; q <= i.rep_count; ++q)
                        exec_ins(x);
                    B.m.core.regs.repc = 0; // rep leaves its counter at 0 (checked on A below)
                    ++k;
                    continue;
                }
                if (i.kind == K_LC_STORE && lc)
                    recs.push_back({lc->group0 + (u32)k, lc->n, lc->it, &i == lc->last, lc->nested, lc->encl, false});
                exec_ins(i);
            }
        };
        std::function<void(unsigned, u32)> exec_loop = [&](unsigned d, u32 encl) {
            const Loop& L = pr.loops[d];
            ++loop_instr_execs;
            const u32 g0 = next_group;
            next_group += 64; // one group id per (instance, store instruction): pre uses +index, post uses +32+index
            for (u32 it = 0; it <= L.count && bok; ++it) {
                LoopCtx a{g0, L.count, it, encl, d > 0, &L.post.ins.back()};
                exec_seg(L.pre, &a);
                if (L.has_inner)
                    exec_loop(d + 1, L.count - it);
                LoopCtx b{g0 + 32, L.count, it, encl, d > 0, &L.post.ins.back()};
                exec_seg(L.post, &b);
            }
        };
        exec_seg(pr.prefix, nullptr);
        if (pr.is_rep) {
            ++loop_instr_execs;
            ctr_stepping = pr.rep_count <= 0x600;
            bool logs = pr.rep_x.kind == K_REPC_STORE && pr.rep_x.mem_step;
            for (u32 it = 0; it <= pr.rep_count && bok; ++it) {
                // only the value of the final execution matters to the registers (mov repc, aX): it is 0 in any phase
                B.m.core.regs.repc = (u16)(pr.rep_count - it);
                if (logs && ctr_stepping)
                    recs.push_back({0, pr.rep_count, it, true, false, 0, true});
                exec_ins(pr.rep_x);
            }
        } else
            exec_loop(0, 0);
        exec_seg(pr.suffix, nullptr);
        if (!bok)
            continue;
        CaseState Bend = B.m.capture();

        // ------------------------------------------------------------ A: the real loop, single-stepped to the end marker
        A.begin(s, pr.image, pr.pc0);
        const u64 expected_steps = bsteps + loop_instr_execs + (pr.has_sto_rst ? 2 * iterations_total : 0);
        const u64 limit = 3 * expected_steps + 64;
        u64 asteps = 0;
        bool aok = true;
        std::set<u32> sto_addrs;
        if (pr.has_sto_rst)
            for (auto& L : pr.loops)
                for (const Seg* sg : {&L.pre, &L.post})
                    for (auto& i : sg->ins)
                        if (i.kind == K_STO)
                            sto_addrs.insert(i.addr);
        u64 sto_pairs = 0;
        while (aok && A.m.core.regs.pc != pr.end_marker) {
            if (asteps >= limit) {
                fail(kb + ":not-terminated", "loop program did not reach its end marker although the unrolled reference terminates",
                     fmt("steps=%" PRIu64 " expected=%" PRIu64 " pc=%05x lp=%u bcn=%u rep=%d repc=%u", asteps, expected_steps,
                         A.m.core.regs.pc, A.m.core.regs.lp, A.m.core.regs.bcn, (int)A.m.core.regs.rep, A.m.core.regs.repc));
                aok = false;
                break;
            }
            bool at_sto = pr.has_sto_rst && sto_addrs.count(A.m.core.regs.pc);
            CaseState before;
            if (at_sto)
                before = A.m.capture();
            RunResult rr = A.m.run(1);
            ++asteps;
            if (rr.outcome != OK) {
                fail(kb + ":outcome:" + outcome_name(rr.outcome), "loop program ended in " + rr.what,
                     fmt("after %" PRIu64 " steps pc=%05x", asteps, A.m.core.regs.pc));
                aok = false;
                break;
            }
            if (at_sto) {
                rr = A.m.run(1); // the bkreprst
                ++asteps;
                if (rr.outcome != OK) {
                    fail(kb + ":sto-rst:outcome:" + outcome_name(rr.outcome), "bkreprst inside a loop ended in " + rr.what);
                    aok = false;
                    break;
                }
                CaseState after = A.m.capture();
                Ignore ig;
                ig(X->pc);
                std::string txt, f = DiffX(after, before, ig, &txt);
                if (!f.empty()) {
                    fail(kb + ":sto-rst:" + KeyField(f), "bkrepsto;bkreprst inside a running loop did not round-trip the loop state", txt);
                    aok = false;
                    break;
                }
                ++sto_pairs;
            }
        }
        if (!aok || bad)
            continue;
        CaseState Aend = A.m.capture();
        // in-loop state clears on exit
        if (Aend.v[X->lp] != 0 || Aend.v[X->bcn] != 0 || Aend.v[X->rep] != 0)
            fail(kb + ":exit-state", "in-loop state not cleared after the loop",
                 fmt("lp=%" PRIu64 " bcn=%" PRIu64 " rep=%" PRIu64, Aend.v[X->lp], Aend.v[X->bcn], Aend.v[X->rep]));
        // the counters have counted down to 0 by loop exit
        if ((pr.is_rep || pr.has_rep_inside) && Aend.v[X->repc] != 0)
            fail(kb + ":repc-final", "repeat counter did not count down to 0", fmt("repc=%" PRIu64, Aend.v[X->repc]));
        if (!pr.is_rep && Aend.v[X->bk_lc[0]] != 0)
            fail(kb + ":lc-final", "loop counter visible after the outermost block repeat is not 0",
                 fmt("lc=%" PRIu64, Aend.v[X->bk_lc[0]]));
        auto compare = [&](Rig& R, const CaseState& Rend, const char* which, bool ignore_repc) {
            Ignore ig;
            ig(X->pc);
            for (int i = 0; i < 4; ++i)
                ig(X->bk_start[i])(X->bk_end[i])(X->bk_lc[i]); // loop frames: only A ever had any
            if (ignore_repc)
                ig(X->repc);
            std::string txt, f = DiffX(Aend, Rend, ig, &txt);
            if (!f.empty()) {
                // which register differs first depends on the random body: it goes into the summary, not into the key
                fail(kb + ":" + which + ":registers",
                     fmt("registers after the loop differ from the %s execution (count+1 iterations), first: %s", which, KeyField(f).c_str()), txt);
                return;
            }
            std::vector<u32> addrs;
            for (u32 a : A.m.dirty)
                if (a >= kDataBase)
                    addrs.push_back(a);
            for (u32 a : R.m.dirty)
                if (a >= kDataBase)
                    addrs.push_back(a);
            std::sort(addrs.begin(), addrs.end());
            addrs.erase(std::unique(addrs.begin(), addrs.end()), addrs.end());
            for (u32 a : addrs) {
                u32 da = a - kDataBase;
                if (da >= kFrameLo && da < kFrameHi)
                    continue; // loop-frame save area: only A writes there
                if (da >= kCtrLo && da < kCtrHi && ctr_stepping)
                    continue; // counter log: judged by the sequence rules below
                u16 va = A.m.raw_read(a), vr = R.m.raw_read(a);
                if (va == vr)
                    continue;
                fail(kb + ":" + which + ":memory", fmt("data memory after the loop differs from the %s execution", which),
                     fmt("[%04x] loop=%04x reference=%04x", da, va, vr));
                return;
            }
        };
        if (!bad)
            compare(B, Bend, "unrolled", false);

        // ------------------------------------------------------------ the counter the program saw, per loop instance
        // Statement: "the loop counter visible to the program counts down once per iteration" = N decrements over
        // N+1 iterations; the phase (before or after the observing instruction) is not fixed by it. Demanded of the
        // values v[0..N] one store instruction logged during one run of its loop: consecutive values differ by 0 or 1,
        // v[0] is N or N-1, v[N] is 0, no value occurs more than twice. Only exemption: the LAST instruction of a
        // nested block executes, in the final iteration, after its loop has been left; it then sees the enclosing
        // loop's counter (or 0).
        u64 lc_groups = 0, repc_groups = 0, lc_last_groups = 0;
        if (!bad && !recs.empty()) {
            std::string ck = pr.is_rep ? std::string("rep:counter-sequence") : kb + ":counter-sequence";
            size_t k = 0;
            // records of one group are not contiguous (other stores interleave): collect per group
            std::map<u32, std::vector<std::pair<CtrRec, u16>>> groups;
            for (; k < recs.size(); ++k)
                groups[recs[k].group].push_back({recs[k], A.m.data((u16)(ctr_base + k))});
            for (auto& kv : groups) {
                if (bad)
                    break;
                // a store instruction runs once per iteration: split into runs of n+1 (one loop instance each)
                auto& v = kv.second;
                size_t pos = 0;
                while (pos < v.size() && !bad) {
                    const CtrRec& r0 = v[pos].first;
                    size_t len = (size_t)r0.n + 1;
                    if (pos + len > v.size())
                        break;
                    std::string seq;
                    for (size_t q = 0; q < len && q < 12; ++q)
                        seq += fmt("%u ", v[pos + q].second);
                    std::string info = fmt("N=%u %s%s seen: %s%s", r0.n, r0.repc ? "repc" : "lc", r0.last ? " (last instruction)" : "",
                                           seq.c_str(), len > 12 ? "..." : "");
                    size_t judged = len;
                    u16 fin = v[pos + len - 1].second;
                    if (r0.last && r0.nested && fin != 0) {
                        if (fin != v[pos + len - 1].first.encl)
                            fail(ck + ":after-exit", "last instruction of a nested block, final iteration: neither 0 nor the enclosing loop's counter",
                                 info + fmt(" enclosing=%u", v[pos + len - 1].first.encl));
                        judged = len - 1;
                    }
                    if (!bad && judged > 0) {
                        u16 first = v[pos].second, lastv = v[pos + judged - 1].second;
                        if (!(first == r0.n || (r0.n > 0 && first == r0.n - 1)))
                            fail(ck + ":start", "first iteration does not see N or N-1", info);
                        else if (judged == len ? lastv != 0 : lastv > 1)
                            fail(ck + ":end", "the counter seen in the final iteration is not 0", info);
                        unsigned run = 1;
                        for (size_t q = 1; q < judged && !bad; ++q) {
                            u16 a0 = v[pos + q - 1].second, a1 = v[pos + q].second;
                            if (!(a0 == a1 || a0 == (u16)(a1 + 1)))
                                fail(ck + ":step", "consecutive iterations see values that do not differ by 0 or 1", info);
                            run = a0 == a1 ? run + 1 : 1;
                            if (run > 2)
                                fail(ck + ":repeat", "the same counter value is seen in more than two iterations", info);
                        }
                    }
                    if (r0.repc)
                        ++repc_groups;
                    else
                        ++lc_groups, lc_last_groups += r0.last;
                    pos += len;
                }
            }
        }

        // ------------------------------------------------------------ C: literally unrolled flat image
        bool did_flat = false;
        if (!bad && !pr.has_counter_store && !pr.has_sto_rst) {
            std::vector<u16> flat;
            bool fits = true;
            auto put = [&](const Ins& i) {
                flat.push_back(i.w[0]);
                if (i.n == 2)
                    flat.push_back(i.w[1]);
            };
            auto put_seg = [&](const Seg& sg) {
                for (size_t k = 0; k < sg.ins.size(); ++k) {
                    if (sg.ins[k].kind == K_REP) {
                        for (u32 q = 0; q <= sg.ins[k].rep_count; ++q)
                            put(sg.ins[k + 1]);
                        ++k;
                    } else
                        put(sg.ins[k]);
                }
            };
            std::function<void(unsigned)> put_loop = [&](unsigned d) {
                const Loop& L = pr.loops[d];
                for (u32 it = 0; it <= L.count && fits; ++it) {
                    put_seg(L.pre);
                    if (L.has_inner)
                        put_loop(d + 1);
                    put_seg(L.post);
                    if (flat.size() > 3000)
                        fits = false;
                }
            };
            put_seg(pr.prefix);
            if (pr.is_rep) {
                if (pr.rep_count <= 1024)
                    for (u32 it = 0; it <= pr.rep_count; ++it)
                        put(pr.rep_x);
                else
                    fits = false;
            } else
                put_loop(0);
            put_seg(pr.suffix);
            if (fits && flat.size() <= 3000 && pr.pc0 + flat.size() < 0x1FFF0) {
                C.begin(s, flat, pr.pc0);
                const u32 cend = pr.pc0 + (u32)flat.size();
                u64 csteps = 0;
                bool cok = true;
                while (C.m.core.regs.pc != cend && csteps <= flat.size()) {
                    if (C.m.run(1).outcome != OK) {
                        cok = false;
                        break;
                    }
                    ++csteps;
                }
                if (cok && C.m.core.regs.pc == cend) {
                    compare(C, C.m.capture(), "flat", pr.is_rep || pr.has_rep_inside);
                    did_flat = true;
                }
            }
        }

        if (!bad) {
            ctx.count("iterations", iterations_total);
            ctx.count("loop_steps", asteps);
            if (lc_groups)
                ctx.count("lc_sequences_compared", lc_groups), ctx.count("lc_last_position_sequences", lc_last_groups);
            if (repc_groups)
                ctx.count("repc_sequences_compared", repc_groups);
            ctx.count("counter_values_compared", recs.size());
            if (did_flat)
                ctx.count("flat_unrolled_compared");
            if (sto_pairs)
                ctx.count("sto_rst_programs"), ctx.count("sto_rst_pairs_in_loop", sto_pairs);
            if (pr.is_rep) {
                ctx.count("rep_programs");
                ctx.count(fmt("rep_form_%s", pr.rep_form == 0 ? "imm8" : pr.rep_form == 1 ? "reg" : "r6"));
                ctx.seen("nt", fmt("%s:count=%s%s", kb.c_str(), CountClass(pr.rep_count), pr.rep_x.kind == K_REPC_STORE ? ":repc" : ""));
                ctx.seen("rep_counts", fmt("%u", pr.rep_count <= 40 || pr.rep_count == 255 || pr.rep_count == 256 || pr.rep_count == 65535 ? pr.rep_count : 99999));
                if (pr.rep_form == 1)
                    ctx.seen("count_registers", RegStr(pr.rep_reg));
            } else {
                ctx.count(fmt("bkrep_programs_depth%u", depth));
                if (pr.rep_at_block_end)
                    ctx.count("rep_target_is_last_block_instruction");
                for (unsigned d = 0; d < depth; ++d) {
                    const Loop& L = pr.loops[d];
                    ctx.count(fmt("bkrep_form_%s", L.form == 0 ? "imm8" : L.form == 1 ? "reg" : "r6"));
                    ctx.seen("nt", fmt("bkrep:depth=%u:level=%u:%s:count=%s:page=%u:last2w=%d", depth, d,
                                       L.form == 0 ? "imm8" : L.form == 1 ? "reg" : "r6", CountClass(L.count), pr.pc0 >> 16,
                                       (int)(L.post.ins.back().n == 2)));
                    ctx.seen("bkrep_counts", fmt("%u", L.count <= 40 || L.count == 255 || L.count == 256 || L.count == 65535 ? L.count : 99999));
                    if (L.form == 1)
                        ctx.seen("count_registers", RegStr(L.creg));
                    if (L.post.ins.back().n == 2)
                        ctx.count("two_word_last_instruction");
                }
            }
            if (c < 3)
                ctx.sample(JObj().str("program", progtxt).unum("loop_steps", asteps).unum("unrolled_steps", bsteps).done());
        }
    }
    return ctx.finish();
}
