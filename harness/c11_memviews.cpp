// C11 — DSP-side and host-side views of program and data memory are the same bytes; MMIO window.
// Oracle: a 0x80000-byte model array + (z_page, mmio_base) + the handful of MMIO registers used as probes.
// A seeded history interleaves every view of the memory on one real Teakra facade:
//   host:  ProgramRead/Write, DataRead/Write (with and without bypass_mmio), DataReadA32/WriteA32,
//          raw pointer (GetDspMemory) byte/word accesses
//   guest: loads and stores through every addressing form and instruction fetch, executed by the real
//          interpreter with Teakra::Run(1) on a one-instruction program laid down through a random view.
// After every operation the touched cell is read back through ALL views; every `full_every` operations
// the whole array is compared.
//
// Opcode constants (checked once against the tree's disassembler, fixed here on purpose):
//   0x6000|imm8          mov [page:imm8], r0        0x2200|imm8          mov r1, [page:imm8]
//   0xD4B8, imm16        mov [imm16], a0            0xD4BC, imm16        mov a0l, [imm16]
//   0xD498, imm16        mov [r7+imm16], a0         0xD49C, imm16        mov a0l, [r7+imm16]
//   0xD880|imm7s         mov [r7+imm7s], a0         0xDC80|imm7s         mov a0l, [r7+imm7s]
//   0x1C00|n|step<<3     mov [rN](++), r0           0x1820|n|step<<3     mov r1, [rN](++)
//   0x0040               movp [a0l] -> r0 (program read, pcmhi:a0l)
//   0x0D40               movp [a0]  -> r0 (program read, 18-bit a0)
//   0x0624               movp [r4] -> [r1]  (program read -> data store)
//   0x5F80               movd [r0] -> [r4]  (data load -> program write)
//   0x5E00|k, imm16      mov ##imm16, rK            (instruction-fetch probe, two words)
#include <deque>
#include <map>
#include "teakra/teakra.h"
#include "register.h"
#include "verif_hooks.h"
#include "core_shim.h"
#include "worker.h"

using namespace vf;

namespace {

constexpr u32 kMemBytes = 0x80000;
constexpr u32 kWords = 0x40000;
constexpr u32 kDataWord0 = 0x20000;
constexpr u16 kWindow = 0x800;
constexpr u16 REG_ZPAGE = 0x112, REG_MMIOBASE = 0x11E;
// registers reachable through the window in this harness: plain read/write registers without side effects
// (timer 0/1 start value low/high, ICU vector 0 low) and the unimplemented-register cells at the window edges
const u16 kProbeRegs[] = {0x000, 0x7FF, 0x024, 0x026, 0x034, 0x036, 0x214};

struct Model {
    std::vector<u8> mem;
    u16 z_page = 0;
    u16 mmio_base = 0x8000;
    std::map<u16, u16> reg; // probe register contents

    u16 word(u32 w) const { return (u16)(mem[2 * w] | (mem[2 * w + 1] << 8)); }
    void set_word(u32 w, u16 v) {
        mem[2 * w] = (u8)v;
        mem[2 * w + 1] = (u8)(v >> 8);
    }
    bool in_window(u16 a) const { return a >= mmio_base && (u32)a < (u32)mmio_base + kWindow; }
    // Addresses that would be inside the window only if it wrapped around 0xFFFF (base > 0xF800) are OUTSIDE it: the
    // statement defines the window as the 0x800 words "at its configured base", i.e. base <= a < base + 0x800, and a
    // 16-bit address below the base does not satisfy that; such addresses are ordinary memory cells and are accessed
    // and compared like any other (first version of this check skipped them; seed C11-a showed the gap).
    bool wrap_zone(u16) const { return false; }
    u32 data_word(u16 a) const { return kDataWord0 + 0x10000u * z_page + a; }
    u16 reg_value(u16 off) const {
        if (off == REG_ZPAGE)
            return z_page;
        if (off == REG_MMIOBASE)
            return mmio_base;
        auto it = reg.find(off);
        return it == reg.end() ? 0 : it->second;
    }
    void reg_write(u16 off, u16 v) {
        if (off == REG_ZPAGE)
            z_page = v;
        else if (off == REG_MMIOBASE)
            mmio_base = v;
        else
            reg[off] = v;
    }
};

// bounds observer: an access outside the 0x40000-word array is vetoed (outcome "oob") instead of corrupting the worker
void BoundsObserver(const Teakra::SharedMemory*, std::uint32_t word_address, bool is_write, std::uint16_t) {
    if (word_address >= kWords)
        throw OobVeto{word_address, is_write};
}

const char* Region(u32 w) { return w < kDataWord0 ? "prog" : w < kDataWord0 + 0x10000 ? "bank0" : "bank1"; }

} // namespace

int main(int argc, char** argv) {
    Ctx ctx;
    ctx.parse(argc, argv, "C11");
    Teakra::Verif::mem_observer = &BoundsObserver;
    const unsigned ops_per_case = (unsigned)ctx.opt_u64("ops", 20000);
    const unsigned full_every = (unsigned)ctx.opt_u64("full-every", 64);

    for (u64 cs = 0; cs < ctx.cases; ++cs) {
        if (!ctx.selected(cs))
            continue;
        Rng g = ctx.case_rng(cs);
        const bool user_memory = (cs & 1) != 0;
        std::vector<u8> user_buf;
        Teakra::UserConfig ucfg;
        if (user_memory) {
            user_buf.assign(kMemBytes, 0);
            ucfg.dsp_memory = user_buf.data();
        }
        Teakra::Teakra t(ucfg);
        Model M;
        M.mem.resize(kMemBytes);
        for (u32 i = 0; i < kMemBytes; i += 8) {
            u64 v = g.next();
            std::memcpy(&M.mem[i], &v, 8);
        }
        u8* raw = t.GetDspMemory();
        std::memcpy(raw, M.mem.data(), kMemBytes);
        for (u16 r : kProbeRegs) { // some of these are uninitialised before the first write
            u16 v = (u16)g.bits(16);
            t.MMIOWrite(r, v);
            M.reg[r] = v;
        }

        bool bad = false;
        std::deque<std::string> hist;
        std::string opname;
        auto log = [&](const std::string& s) {
            hist.push_back(s);
            if (hist.size() > 24)
                hist.pop_front();
        };
        auto fail = [&](const std::string& key, const std::string& what) {
            if (bad)
                return;
            bad = true;
            std::string h;
            for (auto& s : hist)
                h += s + "; ";
            JObj j;
            j.str("what", what).str("history_tail", h).num("user_memory", user_memory);
            j.hexs("z_page", M.z_page).hexs("mmio_base", M.mmio_base);
            ctx.violation(key, what, cs, j.done());
        };
        if (user_memory && raw != user_buf.data())
            fail("user-memory-not-used", "GetDspMemory() differs from UserConfig.dsp_memory");

        // ---- every view of one shared-memory word must show the model value
        auto verify_cell = [&](u32 w) {
            if (bad)
                return;
            const u16 exp = M.word(w);
            auto chk = [&](const char* view, u16 got) {
                ctx.count("view_reads");
                if (got != exp)
                    fail(fmt("view:%s:%s", view, Region(w)),
                         fmt("after %s: word 0x%05x reads %04x through %s, expected %04x", opname.c_str(), w, got, view, exp));
            };
            RunResult vr = Classify([&] {
                chk("raw", (u16)(raw[2 * w] | (raw[2 * w + 1] << 8)));
                if (user_memory)
                    chk("user-buffer", (u16)(user_buf[2 * w] | (user_buf[2 * w + 1] << 8)));
                chk("ProgramRead", t.ProgramRead(w));
                if (w >= kDataWord0) {
                    u32 d = w - kDataWord0;
                    chk("DataReadA32", t.DataReadA32(d));
                    if ((d >> 16) == M.z_page) {
                        u16 a = (u16)d;
                        chk("DataRead-bypass", t.DataRead(a, true));
                        if (!M.in_window(a) && !M.wrap_zone(a))
                            chk("DataRead", t.DataRead(a, false));
                        ctx.count("view_checks_with_data_view");
                    }
                }
            });
            if (vr.outcome != OK)
                fail(fmt("view:outcome:%s:%s", outcome_name(vr.outcome), Region(w)),
                     fmt("after %s: reading word 0x%05x back through the host views ended with %s %s", opname.c_str(), w,
                         outcome_name(vr.outcome), vr.what.c_str()));
        };
        auto verify_reg = [&](u16 off) {
            if (bad)
                return;
            u16 got = t.MMIORead(off), exp = M.reg_value(off);
            if (got != exp)
                fail("mmio:register-value", fmt("after %s: MMIO register 0x%03x reads %04x, expected %04x", opname.c_str(), off, got, exp));
        };

        // ---- address pickers
        auto pick_prog = [&]() -> u32 {
            static const u32 e[] = {0, 1, 0x1FFFF, 0x20000, 0x20001, 0x2FFFF, 0x30000, 0x3FFFE, 0x3FFFF, 0xFFFF, 0x10000};
            unsigned k = (unsigned)g.below(10);
            if (k == 0)
                return g.pick(e);
            if (k == 1)
                return kDataWord0 + 0x10000u * (u32)g.below(2) + (u16)(M.mmio_base + (s64)g.below(kWindow + 4) - 2);
            return (u32)g.below(kWords);
        };
        // a data address for an access that honours the MMIO window: window hits are steered to probe registers
        auto pick_data = [&](bool want_window) -> u16 {
            for (;;) {
                u16 a;
                unsigned k = (unsigned)g.below(16);
                if (want_window || k == 0) {
                    std::vector<u16> ok;
                    for (u16 r : kProbeRegs)
                        if ((u32)M.mmio_base + r <= 0xFFFF)
                            ok.push_back(r);
                    a = (u16)(M.mmio_base + g.pick(ok));
                } else if (k == 1)
                    a = (u16)(M.mmio_base - 1 - g.below(2));
                else if (k == 2)
                    a = (u16)(M.mmio_base + kWindow + g.below(2));
                else if (k == 3)
                    a = g.edge16();
                else
                    a = (u16)g.bits(16);
                if (M.wrap_zone(a))
                    continue;
                if (M.in_window(a)) {
                    u16 off = (u16)(a - M.mmio_base);
                    bool allowed = false;
                    for (u16 r : kProbeRegs)
                        allowed |= r == off;
                    if (!allowed)
                        continue;
                }
                return a;
            }
        };
        auto pick_data_any = [&]() -> u16 { // for bypassing accesses: everything is memory
            unsigned k = (unsigned)g.below(8);
            if (k == 0)
                return (u16)(M.mmio_base + (s64)g.below(kWindow + 4) - 2);
            if (k == 1)
                return g.edge16();
            return (u16)g.bits(16);
        };

        // ---- expectation of one data-space access that honours the window (host without bypass, or guest)
        struct DataExp {
            bool mmio = false, expect_assert = false;
            u16 off = 0;
            u32 w = 0;
        };
        auto classify = [&](u16 a, bool bypass) {
            DataExp e;
            if (!bypass && M.in_window(a)) {
                e.mmio = true;
                e.off = (u16)((a - M.mmio_base) & (kWindow - 1));
                e.expect_assert = M.z_page != 0;
            }
            e.w = M.data_word(a);
            return e;
        };
        // make an MMIO read distinguishable from a read of the memory underneath
        auto separate = [&](const DataExp& e) {
            if (!e.mmio || e.off == REG_ZPAGE || e.off == REG_MMIOBASE)
                return;
            if (M.reg_value(e.off) == M.word(e.w)) {
                u16 v = (u16)~M.word(e.w);
                t.MMIOWrite(e.off, v);
                M.reg_write(e.off, v);
            }
        };
        // after a write through the window: memory underneath unchanged, register holds the value
        auto after_data_write = [&](const DataExp& e, u16 v, const RunResult& rr, const char* who) {
            if (e.mmio) {
                ctx.count("mmio_window_writes");
                if (e.expect_assert) {
                    if (rr.outcome == ASSERT_) {
                        ctx.count("mmio_window_zpage1_assert");
                        verify_cell(e.w);
                        verify_reg(e.off);
                        return;
                    }
                    // no assertion: then it must have behaved as a register access
                }
                if (rr.outcome != OK) {
                    fail(fmt("mmio:outcome:%s", outcome_name(rr.outcome)), fmt("%s window write ended with %s %s", who, outcome_name(rr.outcome), rr.what.c_str()));
                    return;
                }
                M.reg_write(e.off, v);
                if (!bad && (u16)(raw[2 * e.w] | (raw[2 * e.w + 1] << 8)) != M.word(e.w))
                    fail(fmt("mmio:write-changed-memory:%s", who), fmt("%s write into the MMIO window modified the memory underneath (word 0x%05x)", who, e.w));
                verify_cell(e.w);
                if (!bad && t.MMIORead(e.off) != M.reg_value(e.off))
                    fail(fmt("mmio:write-missed-register:%s", who),
                         fmt("%s write of %04x to window offset 0x%03x: register reads %04x", who, v, e.off, t.MMIORead(e.off)));
                ctx.seen("nt", fmt("mmio-write:%s:off=%03x:bank%u", who, e.off, M.z_page));
                ctx.seen("mmio_bases_probed", fmt("%04x", M.mmio_base));
                if (M.mmio_base % 0x400 == 0)
                    ctx.seen("mmio_documented_positions_probed", fmt("%04x", M.mmio_base));
            } else {
                if (rr.outcome != OK) {
                    fail(fmt("outcome:%s:%s", who, outcome_name(rr.outcome)), fmt("%s ended with %s %s", opname.c_str(), outcome_name(rr.outcome), rr.what.c_str()));
                    return;
                }
                M.set_word(e.w, v);
                verify_cell(e.w);
            }
        };
        // value a read must deliver (call before executing); returns false if an assertion is the expected ending
        auto expected_read = [&](const DataExp& e) -> u16 { return e.mmio ? M.reg_value(e.off) : M.word(e.w); };
        auto after_data_read = [&](const DataExp& e, u16 exp, u16 got, const RunResult& rr, const char* who) {
            if (e.mmio) {
                ctx.count("mmio_window_reads");
                if (e.expect_assert && rr.outcome == ASSERT_) {
                    ctx.count("mmio_window_zpage1_assert");
                    verify_cell(e.w);
                    return;
                }
                if (rr.outcome != OK) {
                    fail(fmt("mmio:outcome:%s", outcome_name(rr.outcome)), fmt("%s window read ended with %s %s", who, outcome_name(rr.outcome), rr.what.c_str()));
                    return;
                }
                if (got != exp)
                    fail(fmt("mmio:read-not-register:%s", who),
                         fmt("%s read of window offset 0x%03x delivered %04x, register holds %04x, memory underneath %04x", who, e.off, got, exp, M.word(e.w)));
                verify_cell(e.w);
                ctx.seen("nt", fmt("mmio-read:%s:off=%03x:bank%u", who, e.off, M.z_page));
                ctx.seen("mmio_bases_probed", fmt("%04x", M.mmio_base));
                if (M.mmio_base % 0x400 == 0)
                    ctx.seen("mmio_documented_positions_probed", fmt("%04x", M.mmio_base));
            } else {
                if (rr.outcome != OK) {
                    fail(fmt("outcome:%s:%s", who, outcome_name(rr.outcome)), fmt("%s ended with %s %s", opname.c_str(), outcome_name(rr.outcome), rr.what.c_str()));
                    return;
                }
                if (got != exp)
                    fail(fmt("read:%s:%s", who, Region(e.w)), fmt("%s delivered %04x for word 0x%05x, expected %04x", opname.c_str(), got, e.w, exp));
                verify_cell(e.w);
            }
        };

        // ---- write one shared-memory word through a random host view (used to lay down guest code)
        auto poke = [&](u32 w, u16 v) {
            unsigned k = (unsigned)g.below(4);
            const char* view = "ProgramWrite";
            RunResult pr = Classify([&] {
                if (k == 1) {
                    view = "raw";
                    raw[2 * w] = (u8)v;
                    raw[2 * w + 1] = (u8)(v >> 8);
                } else if (k == 2 && w >= kDataWord0) {
                    view = "DataWriteA32";
                    t.DataWriteA32(w - kDataWord0, v);
                } else if (k == 3 && w >= kDataWord0 && ((w - kDataWord0) >> 16) == M.z_page) {
                    view = "DataWrite-bypass";
                    t.DataWrite((u16)(w - kDataWord0), v, true);
                } else
                    t.ProgramWrite(w, v);
            });
            M.set_word(w, v);
            if (pr.outcome != OK)
                fail(fmt("poke:%s:outcome:%s", view, outcome_name(pr.outcome)),
                     fmt("writing guest code word 0x%05x through %s ended with %s %s", w, view, outcome_name(pr.outcome), pr.what.c_str()));
            else if ((u16)(raw[2 * w] | (raw[2 * w + 1] << 8)) != v)
                fail(fmt("poke:%s:%s", view, Region(w)),
                     fmt("guest code word %04x written to 0x%05x through %s is %04x in the raw memory", v, w, view,
                         raw[2 * w] | (raw[2 * w + 1] << 8)));
        };
        // ---- run a one-instruction guest program; `setup` prepares registers
        u32 gpc = 0;
        unsigned glen = 0;
        auto place = [&](u16 op, bool two, u16 second) {
            static const u32 e[] = {0, 1, 0x1FFFD, 0x1FFFE, 0x1FFFF, 0x20000, 0x2FFFE, 0x2FFFF, 0x30000, 0x3FFFC, 0x3FFFD};
            gpc = g.chance(1, 6) ? g.pick(e) : (u32)g.below(0x3FFFE);
            glen = two ? 2 : 1;
            poke(gpc, op);
            if (two)
                poke(gpc + 1, second);
        };
        auto run_guest = [&](const std::function<void(Teakra::RegisterState&)>& setup) -> RunResult {
            if (bad)
                return RunResult();
            Teakra::RegisterState& r = t.GetRegisterState();
            r = Teakra::RegisterState();
            r.pc = gpc;
            setup(r);
            RunResult rr = Classify([&] { t.Run(1); });
            ctx.count("guest_instructions");
            if (rr.outcome == OK && r.pc != gpc + glen)
                fail("fetch:pc", fmt("after %s at pc 0x%05x: pc is 0x%05x, expected 0x%05x", opname.c_str(), gpc, r.pc, gpc + glen));
            return rr;
        };
        // split a data address into the registers/immediates of one of the addressing forms
        struct Form {
            int kind;      // 0 imm8, 1 imm16, 2 r7+imm16, 3 r7+imm7s, 4 [rN]
            u16 imm = 0;   // immediate part
            u16 r7 = 0;    // r7 / page / rN value
            unsigned n = 2, step = 0;
        };
        auto make_form = [&](u16 a) {
            Form f;
            f.kind = (int)g.below(5);
            switch (f.kind) {
            case 0:
                f.imm = a & 0xFF;
                f.r7 = a >> 8; // page
                break;
            case 1:
                f.imm = a;
                break;
            case 2:
                f.imm = g.edge16();
                f.r7 = (u16)(a - f.imm);
                break;
            case 3:
                f.imm = (u16)g.below(128);
                f.r7 = (u16)(a - (u16)sext(f.imm, 7));
                break;
            default:
                f.n = (unsigned)g.range(2, 7);
                f.step = (unsigned)g.below(2); // 0 none, 1 post-increment
                f.r7 = a;
                break;
            }
            return f;
        };
        static const char* form_name[] = {"imm8", "imm16", "r7+imm16", "r7+imm7s", "rN"};

        for (unsigned op = 0; op < ops_per_case && !bad; ++op) {
            unsigned kind = (unsigned)g.below(100);
            RunResult rr;
            if (kind < 8) { // ---------------- ProgramWrite
                u32 w = pick_prog();
                u16 v = (u16)g.bits(16);
                opname = "ProgramWrite";
                log(fmt("ProgramWrite(%05x,%04x)", w, v));
                rr = Classify([&] { t.ProgramWrite(w, v); });
                if (rr.outcome != OK)
                    fail("outcome:ProgramWrite", rr.what);
                M.set_word(w, v);
                verify_cell(w);
                ctx.seen("nt", fmt("ProgramWrite:%s", Region(w)));
            } else if (kind < 14) { // ---------------- ProgramRead
                u32 w = pick_prog();
                opname = "ProgramRead";
                log(fmt("ProgramRead(%05x)", w));
                u16 got = 0;
                rr = Classify([&] { got = t.ProgramRead(w); });
                if (rr.outcome != OK)
                    fail("outcome:ProgramRead", rr.what);
                else if (got != M.word(w))
                    fail(fmt("read:ProgramRead:%s", Region(w)), fmt("ProgramRead(%05x) = %04x, expected %04x", w, got, M.word(w)));
                verify_cell(w);
                ctx.seen("nt", fmt("ProgramRead:%s", Region(w)));
            } else if (kind < 26) { // ---------------- host DataWrite
                bool bypass = g.chance(1, 2);
                u16 a = bypass ? pick_data_any() : pick_data(g.chance(1, 6));
                u16 v = (u16)g.bits(16);
                DataExp e = classify(a, bypass);
                if (e.mmio) {
                    if (e.off == REG_ZPAGE)
                        v &= 1;
                    else if (v == M.word(e.w))
                        v ^= 0x8001;
                }
                opname = bypass ? "DataWrite-bypass" : "DataWrite";
                log(fmt("%s(%04x,%04x)%s", opname.c_str(), a, v, e.mmio ? " [window]" : ""));
                rr = Classify([&] { t.DataWrite(a, v, bypass); });
                after_data_write(e, v, rr, bypass ? "host-bypass" : "host");
                ctx.seen("nt", fmt("%s:%s:%s", opname.c_str(), Region(e.w), e.mmio ? "window" : M.in_window(a) ? "window-bypassed" : "memory"));
                ctx.count(bypass && M.in_window(a) ? "bypass_writes_inside_window" : "data_writes_other");
            } else if (kind < 36) { // ---------------- host DataRead
                bool bypass = g.chance(1, 2);
                u16 a = bypass ? pick_data_any() : pick_data(g.chance(1, 6));
                DataExp e = classify(a, bypass);
                separate(e);
                u16 exp = expected_read(e), got = 0;
                opname = bypass ? "DataRead-bypass" : "DataRead";
                log(fmt("%s(%04x)%s", opname.c_str(), a, e.mmio ? " [window]" : ""));
                rr = Classify([&] { got = t.DataRead(a, bypass); });
                after_data_read(e, exp, got, rr, bypass ? "host-bypass" : "host");
                ctx.seen("nt", fmt("%s:%s:%s", opname.c_str(), Region(e.w), e.mmio ? "window" : M.in_window(a) ? "window-bypassed" : "memory"));
                ctx.count(bypass && M.in_window(a) ? "bypass_reads_inside_window" : "data_reads_other");
            } else if (kind < 42) { // ---------------- DataWriteA32
                static const u32 e32[] = {0, 0xFFFF, 0x10000, 0x1FFFF, 0x8000, 0x18000};
                u32 d = g.chance(1, 8) ? g.pick(e32) : (u32)g.below(0x20000);
                u16 v = (u16)g.bits(16);
                opname = "DataWriteA32";
                log(fmt("DataWriteA32(%05x,%04x)", d, v));
                rr = Classify([&] { t.DataWriteA32(d, v); });
                if (rr.outcome != OK)
                    fail("outcome:DataWriteA32", rr.what);
                M.set_word(kDataWord0 + d, v);
                verify_cell(kDataWord0 + d);
                ctx.seen("nt", fmt("DataWriteA32:%s:%s", Region(kDataWord0 + d), M.in_window((u16)d) ? "window-address" : "plain"));
            } else if (kind < 47) { // ---------------- DataReadA32
                u32 d = (u32)g.below(0x20000);
                opname = "DataReadA32";
                log(fmt("DataReadA32(%05x)", d));
                u16 got = 0;
                rr = Classify([&] { got = t.DataReadA32(d); });
                if (rr.outcome != OK)
                    fail("outcome:DataReadA32", rr.what);
                else if (got != M.word(kDataWord0 + d))
                    fail(fmt("read:DataReadA32:%s", Region(kDataWord0 + d)), fmt("DataReadA32(%05x) = %04x, expected %04x", d, got, M.word(kDataWord0 + d)));
                verify_cell(kDataWord0 + d);
                ctx.seen("nt", fmt("DataReadA32:%s", Region(kDataWord0 + d)));
            } else if (kind < 55) { // ---------------- raw pointer write: one byte or one word
                u32 b = (u32)g.below(kMemBytes);
                opname = "raw-write";
                if (g.chance(1, 2)) {
                    u8 v = (u8)g.bits(8);
                    log(fmt("raw[%05x]=%02x", b, v));
                    raw[b] = v;
                    M.mem[b] = v;
                } else {
                    b &= ~1u;
                    u16 v = (u16)g.bits(16);
                    log(fmt("raw[%05x..]=%04x", b, v));
                    raw[b] = (u8)v;
                    raw[b + 1] = (u8)(v >> 8);
                    M.set_word(b / 2, v);
                }
                verify_cell(b / 2);
                ctx.seen("nt", fmt("raw-write:%s:%s", Region(b / 2), (b & 1) ? "high-byte" : "low-or-word"));
            } else if (kind < 58) { // ---------------- z_page
                u16 z = (u16)g.below(2);
                opname = "set-z_page";
                log(fmt("z_page=%u", z));
                t.MMIOWrite(REG_ZPAGE, z);
                M.z_page = z;
                verify_reg(REG_ZPAGE);
                ctx.count("z_page_switches");
            } else if (kind < 62) { // ---------------- mmio_base
                u16 b = g.chance(2, 3) ? (u16)(g.below(64) * 0x400) : (g.chance(1, 2) ? g.edge16() : (u16)g.bits(16));
                opname = "set-mmio_base";
                log(fmt("mmio_base=%04x", b));
                t.MMIOWrite(REG_MMIOBASE, b);
                M.mmio_base = b;
                verify_reg(REG_MMIOBASE);
                ctx.count("mmio_base_changes");
                ctx.seen("mmio_bases_set", fmt("%04x", b));
            } else if (kind < 64) { // ---------------- z_page / mmio_base written through the window itself
                if (M.z_page != 0 || (u32)M.mmio_base + REG_MMIOBASE > 0xFFFF)
                    continue;
                bool zp = g.chance(1, 2);
                u16 off = zp ? REG_ZPAGE : REG_MMIOBASE;
                u16 v = zp ? (u16)g.below(2) : (u16)(g.below(64) * 0x400);
                u16 a = (u16)(M.mmio_base + off);
                DataExp e = classify(a, false);
                opname = "DataWrite-window-config";
                log(fmt("DataWrite(%04x,%04x) [window reg %03x]", a, v, off));
                rr = Classify([&] { t.DataWrite(a, v, false); });
                after_data_write(e, v, rr, "host");
                ctx.count("config_through_window");
            } else if (kind < 80) { // ---------------- guest load
                unsigned sub = (unsigned)g.below(8);
                if (sub < 5) { // data-space load through an addressing form
                    u16 a = pick_data(g.chance(1, 6));
                    Form f = make_form(a);
                    u16 opc, second = 0;
                    bool two = false;
                    switch (f.kind) {
                    case 0: opc = (u16)(0x6000 | f.imm); break;            // mov [page:imm8], r0
                    case 1: opc = 0xD4B8; two = true; second = f.imm; break; // mov [imm16], a0
                    case 2: opc = 0xD498; two = true; second = f.imm; break; // mov [r7+imm16], a0
                    case 3: opc = (u16)(0xD880 | f.imm); break;            // mov [r7+imm7s], a0
                    default: opc = (u16)(0x1C00 | f.n | (f.step << 3)); break; // mov [rN](++), r0
                    }
                    opname = fmt("guest-load:%s", form_name[f.kind]);
                    place(opc, two, second);
                    DataExp e = classify(a, false);
                    separate(e);
                    u16 exp = expected_read(e);
                    log(fmt("%s [%04x] code@%05x%s", opname.c_str(), a, gpc, e.mmio ? " [window]" : ""));
                    rr = run_guest([&](Teakra::RegisterState& r) {
                        r.page = f.kind == 0 ? f.r7 : 0;
                        r.r[7] = f.r7;
                        if (f.kind == 4)
                            r.r[f.n] = f.r7;
                        r.r[0] = (u16)~exp;
                        r.a[0] = (u16)~exp;
                    });
                    const Teakra::RegisterState& r = t.GetRegisterState();
                    u16 got = (f.kind == 0 || f.kind == 4) ? r.r[0] : (u16)r.a[0];
                    after_data_read(e, exp, got, rr, "guest");
                    verify_cell(gpc);
                    ctx.count("guest_loads");
                    ctx.seen("nt", fmt("%s:%s:%s", opname.c_str(), Region(e.w), e.mmio ? "window" : "memory"));
                } else if (sub < 7) { // movp [a0l]/[a0] -> r0 : program-space load
                    u32 w = pick_prog();
                    bool full = sub == 6;
                    opname = full ? "guest-movp:a0" : "guest-movp:a0l";
                    place(full ? 0x0D40 : 0x0040, false, 0);
                    u16 exp = M.word(w);
                    log(fmt("%s [%05x] code@%05x", opname.c_str(), w, gpc));
                    rr = run_guest([&](Teakra::RegisterState& r) {
                        r.a[0] = full ? w : (w & 0xFFFF);
                        r.pcmhi = full ? (u16)g.below(4) : (u16)(w >> 16);
                        r.r[0] = (u16)~exp;
                    });
                    if (rr.outcome != OK)
                        fail("outcome:guest-movp", rr.what);
                    else if (t.GetRegisterState().r[0] != exp)
                        fail(fmt("read:%s:%s", opname.c_str(), Region(w)),
                             fmt("%s of word 0x%05x delivered %04x, expected %04x", opname.c_str(), w, t.GetRegisterState().r[0], exp));
                    verify_cell(w);
                    verify_cell(gpc);
                    ctx.count("guest_program_loads");
                    ctx.seen("nt", fmt("%s:%s", opname.c_str(), Region(w)));
                } else { // movd [r0] -> [r4]: data load, program store
                    u16 a = pick_data(g.chance(1, 8));
                    u32 w = pick_prog();
                    opname = "guest-movd";
                    place(0x5F80, false, 0);
                    DataExp e = classify(a, false);
                    separate(e);
                    u16 exp = expected_read(e);
                    log(fmt("movd [%04x]->[%05x] code@%05x%s", a, w, gpc, e.mmio ? " [window]" : ""));
                    rr = run_guest([&](Teakra::RegisterState& r) {
                        r.r[0] = a;
                        r.r[4] = (u16)w;
                        r.pcmhi = (u16)(w >> 16);
                    });
                    if (e.mmio && e.expect_assert && rr.outcome == ASSERT_) {
                        ctx.count("mmio_window_reads");
                        ctx.count("mmio_window_zpage1_assert");
                    } else if (rr.outcome != OK)
                        fail(fmt("outcome:guest-movd:%s", outcome_name(rr.outcome)), rr.what);
                    else {
                        if (e.mmio)
                            ctx.count("mmio_window_reads");
                        M.set_word(w, exp);
                    }
                    verify_cell(w);
                    verify_cell(e.w);
                    verify_cell(gpc);
                    ctx.count("guest_movd");
                    ctx.seen("nt", fmt("guest-movd:%s->%s:%s", Region(e.w), Region(w), e.mmio ? "window" : "memory"));
                }
            } else if (kind < 94) { // ---------------- guest store
                unsigned sub = (unsigned)g.below(6);
                if (sub < 5) {
                    u16 a = pick_data(g.chance(1, 6));
                    Form f = make_form(a);
                    u16 v = (u16)g.bits(16);
                    u16 opc, second = 0;
                    bool two = false;
                    switch (f.kind) {
                    case 0: opc = (u16)(0x2200 | f.imm); break;            // mov r1, [page:imm8]
                    case 1: opc = 0xD4BC; two = true; second = f.imm; break; // mov a0l, [imm16]
                    case 2: opc = 0xD49C; two = true; second = f.imm; break; // mov a0l, [r7+imm16]
                    case 3: opc = (u16)(0xDC80 | f.imm); break;            // mov a0l, [r7+imm7s]
                    default: opc = (u16)(0x1820 | f.n | (f.step << 3)); break; // mov r1, [rN](++)
                    }
                    opname = fmt("guest-store:%s", form_name[f.kind]);
                    place(opc, two, second);
                    DataExp e = classify(a, false);
                    if (e.mmio) {
                        if (e.off == REG_ZPAGE)
                            v &= 1;
                        else if (v == M.word(e.w))
                            v ^= 0x8001;
                    }
                    log(fmt("%s [%04x]=%04x code@%05x%s", opname.c_str(), a, v, gpc, e.mmio ? " [window]" : ""));
                    rr = run_guest([&](Teakra::RegisterState& r) {
                        r.page = f.kind == 0 ? f.r7 : 0;
                        r.r[7] = f.r7;
                        if (f.kind == 4)
                            r.r[f.n] = f.r7;
                        r.r[1] = v;
                        r.a[0] = v; // 0x0000vvvv: inside the 32-bit range, no saturation on the way out
                    });
                    after_data_write(e, v, rr, "guest");
                    verify_cell(gpc);
                    if (two)
                        verify_cell(gpc + 1);
                    ctx.count("guest_stores");
                    ctx.seen("nt", fmt("%s:%s:%s", opname.c_str(), Region(e.w), e.mmio ? "window" : "memory"));
                } else { // movp [r4] -> [r1]: program load, data store
                    u32 w = pick_prog();
                    u16 a = pick_data(false);
                    opname = "guest-movp:mem";
                    place(0x0624, false, 0);
                    DataExp e = classify(a, false);
                    if (e.mmio)
                        continue; // value is not ours to choose; keep register traffic to chosen values
                    u16 v = M.word(w);
                    log(fmt("movp [%05x]->[%04x] code@%05x", w, a, gpc));
                    rr = run_guest([&](Teakra::RegisterState& r) {
                        r.r[4] = (u16)w;
                        r.pcmhi = (u16)(w >> 16);
                        r.r[1] = a;
                    });
                    after_data_write(e, v, rr, "guest");
                    verify_cell(w);
                    verify_cell(gpc);
                    ctx.count("guest_movp_mem");
                    ctx.seen("nt", fmt("guest-movp-mem:%s->%s", Region(w), Region(e.w)));
                }
            } else if (g.chance(1, 3)) { // ---------------- fetch of a cell that a guest store has just rewritten, inside ONE Run call
                // code lives in the data bank (program word 0x20000 + 0x10000*z + a is data word a):
                //   seq:  P: mov r1,[r2] (r2 -> P+1)   P+1: nop            Run(2): the second instruction must be the stored one
                //   rep:  P-1: rep #2   P: mov r1,[r2] (r2 -> P itself)     Run(4): repetitions 2 and 3 must be the stored one
                // the stored instruction is mov r1,[r4] with r4 -> witness cell b
                const bool rep = g.chance(1, 2);
                const u16 I1 = 0x1820 | 2, I2 = 0x1820 | 4;
                u16 a = 0, b = 0;
                bool found = false;
                for (int tries = 0; tries < 64 && !found; ++tries) {
                    a = (u16)g.range(2, 0xFFFC);
                    b = (u16)g.range(2, 0xFFFC);
                    found = true;
                    for (int d = -1; d <= 1; ++d)
                        if (M.in_window((u16)(a + d)) || M.wrap_zone((u16)(a + d)) || (u16)(a + d) == b)
                            found = false;
                    if (M.in_window(b) || M.wrap_zone(b))
                        found = false;
                }
                if (!found)
                    continue;
                const u32 P = M.data_word(a), wb = M.data_word(b);
                const u32 target = rep ? P : P + 1, start = rep ? P - 1 : P;
                if (M.word(wb) == I2)
                    poke(wb, (u16)~I2);
                if (rep)
                    poke(P - 1, 0x0C02);
                poke(P, I1);
                if (!rep)
                    poke(P + 1, 0x0000);
                opname = rep ? "guest-fetch-after-store:rep" : "guest-fetch-after-store:seq";
                log(fmt("%s code@%05x witness [%04x]", opname.c_str(), start, b));
                if (bad)
                    break;
                Teakra::RegisterState& r = t.GetRegisterState();
                r = Teakra::RegisterState();
                r.pc = start;
                r.r[1] = I2;
                r.r[2] = rep ? a : (u16)(a + 1);
                r.r[4] = b;
                rr = Classify([&] { t.Run(rep ? 4 : 2); });
                ctx.count("guest_instructions", rep ? 4 : 2);
                if (rr.outcome != OK) {
                    fail("outcome:guest-fetch-after-store", rr.what);
                } else {
                    M.set_word(target, I2);
                    u16 got = (u16)(raw[2 * wb] | (raw[2 * wb + 1] << 8));
                    if (got != I2)
                        fail(fmt("fetch:stale-after-guest-store:%s", rep ? "rep" : "seq"),
                             fmt("program word 0x%05x was rewritten by the guest to %04x (mov r1,[r4]) and read back so by every host view, "
                                 "but the following fetch of that word did not execute it: witness cell [%04x] holds %04x",
                                 target, I2, b, got));
                    M.set_word(wb, I2);
                    if (r.pc != P + 1 + (rep ? 0 : 1))
                        fail("fetch:pc", fmt("after %s: pc is 0x%05x", opname.c_str(), r.pc));
                }
                verify_cell(target);
                verify_cell(wb);
                ctx.count("fetch_after_store_probes");
                ctx.seen("nt", fmt("fetch-after-store:%s:%s", rep ? "rep" : "seq", Region(target)));
            } else { // ---------------- instruction fetch probe: mov ##imm16, rK
                unsigned k = (unsigned)g.below(6);
                u16 imm = (u16)g.bits(16);
                opname = "guest-fetch";
                place((u16)(0x5E00 | k), true, imm);
                log(fmt("fetch mov ##%04x,r%u code@%05x", imm, k, gpc));
                rr = run_guest([&](Teakra::RegisterState& r) { r.r[k] = (u16)~imm; });
                if (rr.outcome != OK)
                    fail("outcome:guest-fetch", rr.what);
                else if (t.GetRegisterState().r[k] != imm)
                    fail(fmt("fetch:operand:%s", Region(gpc + 1)),
                         fmt("instruction written at 0x%05x executed with operand %04x, expected %04x", gpc, t.GetRegisterState().r[k], imm));
                verify_cell(gpc);
                verify_cell(gpc + 1);
                ctx.count("fetch_probes");
                ctx.seen("nt", fmt("fetch:%s/%s", Region(gpc), Region(gpc + 1)));
            }
            ctx.count("ops");
            if (!bad && (op % full_every == full_every - 1 || op + 1 == ops_per_case)) {
                if (std::memcmp(raw, M.mem.data(), kMemBytes) != 0) {
                    u32 at = 0;
                    while (raw[at] == M.mem[at])
                        ++at;
                    opname = "full-compare";
                    fail(fmt("stray-change:%s", Region(at / 2)),
                         fmt("byte 0x%05x is %02x, model %02x: changed by one of the last %u operations without being their target", at, raw[at], M.mem[at], full_every));
                }
                ctx.count("full_compares");
            }
        }
        ctx.count("cases");
        ctx.count(user_memory ? "cases_user_memory" : "cases_owned_memory");
        if (!bad && cs < 2) {
            std::string h;
            for (auto& s : hist)
                h += s + "; ";
            ctx.sample(JObj().num("case", (s64)cs).num("user_memory", user_memory).str("history_tail", h).done());
        }
    }
    return ctx.finish();
}
