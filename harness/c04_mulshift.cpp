// C04 — multiplier products and barrel-shifter results follow exact arithmetic.
// Oracle: independent models (models/mul.h, models/shift.h, written from the property statement and
// DESIGN.md C04) evaluated on the same pre-state as one real interpreter step; the whole register
// state and the data-memory writes are compared (frame condition).
// Instruction list: fixed by handler name + operand types, encodings found by enumerating the tree's
// own decode table through a type-aware recording visitor; the meaning of operand values (which
// register, which operation) is this file's own reading of the enum orders in operand.h.
#include <array>
#include <set>
#include <type_traits>
#include "exec.h"
#include "models/mul.h"
#include "models/shift.h"

using namespace vf;
namespace MM = vf::mulm;
namespace SM = vf::shiftm;

namespace {

// ------------------------------------------------------------------ type-aware recording visitor
enum OT : u8 {
    T_Other, T_Bool, T_RegName, T_SumBase, T_Mul3, T_Mul2, T_Alm, T_Moda4, T_Moda3, T_Cond, T_Rn,
    T_StepZIDS, T_Imm16, T_Imm8s, T_Imm6s, T_Imm5s, T_MemImm8, T_Register, T_RnOld, T_R45, T_R0123,
    T_Ax, T_Bx, T_Ab, T_Px, T_Axh, T_Bxh, T_ArRn1, T_ArRn2, T_ArStep1, T_ArStep1Alt, T_ArStep2,
    T_ArpRn1, T_ArpRn2, T_ArpStep1, T_ArpStep2, T_COUNT,
};
const char* kOT[T_COUNT] = {"?", "bool", "RegName", "SumBase", "Mul3", "Mul2", "Alm", "Moda4", "Moda3",
                            "Cond", "Rn", "StepZIDS", "Imm16", "Imm8s", "Imm6s", "Imm5s", "MemImm8",
                            "Register", "RnOld", "R45", "R0123", "Ax", "Bx", "Ab", "Px", "Axh", "Bxh",
                            "ArRn1", "ArRn2", "ArStep1", "ArStep1Alt", "ArStep2", "ArpRn1", "ArpRn2",
                            "ArpStep1", "ArpStep2"};
template <typename T>
constexpr OT ot() {
#define VF_OT(X) else if constexpr (std::is_same_v<T, X>) return T_##X;
    if constexpr (std::is_same_v<T, bool>) return T_Bool;
    VF_OT(RegName) VF_OT(SumBase) VF_OT(Mul3) VF_OT(Mul2) VF_OT(Alm) VF_OT(Moda4) VF_OT(Moda3) VF_OT(Cond)
    VF_OT(Rn) VF_OT(StepZIDS) VF_OT(Imm16) VF_OT(Imm8s) VF_OT(Imm6s) VF_OT(Imm5s) VF_OT(MemImm8)
    VF_OT(Register) VF_OT(RnOld) VF_OT(R45) VF_OT(R0123) VF_OT(Ax) VF_OT(Bx) VF_OT(Ab) VF_OT(Px) VF_OT(Axh)
    VF_OT(Bxh) VF_OT(ArRn1) VF_OT(ArRn2) VF_OT(ArStep1) VF_OT(ArStep1Alt) VF_OT(ArStep2) VF_OT(ArpRn1)
    VF_OT(ArpRn2) VF_OT(ArpStep1) VF_OT(ArpStep2)
    else return T_Other;
#undef VF_OT
}

struct TypedRec {
    using instruction_return_type = void;
    const char* name = "";
    std::vector<std::pair<OT, u16>> ops;
    template <typename T>
    void one(const T& t) {
        if constexpr (std::is_enum_v<T> || std::is_integral_v<T>)
            ops.emplace_back(ot<T>(), (u16)t);
        else
            ops.emplace_back(ot<T>(), (u16)OperandRaw<T::Bits>(t));
    }
    template <typename... T>
    void record(const char* n, const T&... t) {
        name = n;
        ops.clear();
        (one(t), ...);
    }
    void undefined(u16) { record("undefined"); }
#define VF_REC_HANDLER(n)                                                                          \
    template <typename... T>                                                                       \
    void n(T... t) { record(#n, t...); }
#include "rec_names.inc"
#undef VF_REC_HANDLER
};

// ------------------------------------------------------------------ families
enum Grp : u8 { G_MUL, G_MACX, G_PSUM, G_PALU, G_PMOVE, G_SHIFT, G_MOVS, G_EXP, G_NORM, G_LIM, G_COUNT };
const char* kGrp[G_COUNT] = {"mul", "mac-extra", "prodsum", "prod-alu", "prod-move", "shift", "movs", "exp", "norm", "lim"};

enum Kind : u8 {
    K_MUL_RN_IMM, K_MULY0_RN, K_MULY0_REG, K_MUL_R45_R0123, K_MULY0_R6, K_MULY0_MEMIMM8, K_MPYI,
    K_MSU_RR, K_MSU_RN_IMM, K_MSUSU, K_MAC_X1TO0, K_MAC1, K_ALM_MEMIMM8, K_ALM_RN, K_ALM_REG, K_ALM_R6,
    K_APP, K_MOV_SV_APP, K_MOV_SV_APP_ALT, K_MMA_REG, K_MMA_ARP1, K_MMA_ARP2, K_MMA_MX_XY, K_MMA_XY_MX,
    K_MMA_MY_MY, K_MMA_MOV4, K_MMA_MOV2, K_SQR_SQR_ACC, K_SQR_SQR_MEM, K_SQR_MPYSU,
    K_ADDHP, K_PACR1, K_ADD_P1, K_SUB_P1, K_CMP_P1, K_ADD_PX_BX, K_SUB_PX_BX,
    K_PUSH_PX, K_POP_PX, K_MOV_P0H_BX, K_MOV_P0H_REG, K_MOV_P0H_R6, K_MOV_P0, K_MOV_P1_TO, K_MOV2_PX_MEM,
    K_MOV2S, K_MOV2_MEM_PX, K_CLRP0, K_CLRP1, K_CLRP,
    K_SHFC, K_SHFI, K_MODA4, K_MODA3, K_MOVS_MEMIMM8, K_MOVS_RN, K_MOVS_REG, K_MOVS_R6, K_MOVSI,
    K_EXP_BX, K_EXP_BX_AX, K_EXP_RN, K_EXP_RN_AX, K_EXP_REG, K_EXP_REG_AX, K_EXP_R6, K_EXP_R6_AX,
    K_NORM, K_LIM, K_COUNT,
};
struct KindInfo {
    Kind k;
    const char* sig;   // handler(operand types) exactly as the tree's table passes them
    const char* label; // name used in counters / keys
    Grp grp;
    unsigned weight;
};
#define PS4 "SumBase,bool,bool,bool,bool"
#define SG4 "bool,bool,bool,bool"
const KindInfo kKinds[K_COUNT] = {
    {K_MUL_RN_IMM, "mul(Mul3,Rn,StepZIDS,Imm16,Ax)", "mul.Rn_Imm16", G_MUL, 3},
    {K_MULY0_RN, "mul_y0(Mul3,Rn,StepZIDS,Ax)", "mul_y0.Rn", G_MUL, 3},
    {K_MULY0_REG, "mul_y0(Mul3,Register,Ax)", "mul_y0.Register", G_MUL, 3},
    {K_MUL_R45_R0123, "mul(Mul3,R45,StepZIDS,R0123,StepZIDS,Ax)", "mul.R45_R0123", G_MUL, 4},
    {K_MULY0_R6, "mul_y0_r6(Mul3,Ax)", "mul_y0_r6", G_MUL, 1},
    {K_MULY0_MEMIMM8, "mul_y0(Mul2,MemImm8,Ax)", "mul_y0.MemImm8", G_MUL, 4},
    {K_MPYI, "mpyi(Imm8s)", "mpyi", G_MUL, 2},
    {K_MSU_RR, "msu(R45,StepZIDS,R0123,StepZIDS,Ax)", "msu.R45_R0123", G_MACX, 2},
    {K_MSU_RN_IMM, "msu(Rn,StepZIDS,Imm16,Ax)", "msu.Rn_Imm16", G_MACX, 1},
    {K_MSUSU, "msusu(ArRn2,ArStep2,Ax)", "msusu", G_MACX, 1},
    {K_MAC_X1TO0, "mac_x1to0(Ax)", "mac_x1to0", G_MACX, 1},
    {K_MAC1, "mac1(ArpRn1,ArpStep1,ArpStep1,Ax)", "mac1", G_MACX, 1},
    {K_ALM_MEMIMM8, "alm(Alm,MemImm8,Ax)", "alm.MemImm8", G_MACX, 2},
    {K_ALM_RN, "alm(Alm,Rn,StepZIDS,Ax)", "alm.Rn", G_MACX, 1},
    {K_ALM_REG, "alm(Alm,Register,Ax)", "alm.Register", G_MACX, 1},
    {K_ALM_R6, "alm_r6(Alm,Ax)", "alm_r6", G_MACX, 1},
    {K_APP, "app(Ab," PS4 ")", "app", G_PSUM, 2},
    {K_MOV_SV_APP, "mov_sv_app(ArRn1,ArStep1,Bx," PS4 ")", "mov_sv_app", G_PSUM, 1},
    {K_MOV_SV_APP_ALT, "mov_sv_app(ArRn1,ArStep1Alt,Bx," PS4 ")", "mov_sv_app.alt", G_PSUM, 1},
    {K_MMA_REG, "mma(RegName," SG4 "," PS4 ")", "mma.xy", G_PSUM, 2},
    {K_MMA_ARP1, "mma(ArpRn1,ArpStep1,ArpStep1,bool,bool,RegName," SG4 "," PS4 ")", "mma.mm1", G_PSUM, 4},
    {K_MMA_ARP2, "mma(ArpRn2,ArpStep2,ArpStep2,bool,bool,RegName," SG4 "," PS4 ")", "mma.mm2", G_PSUM, 3},
    {K_MMA_MX_XY, "mma_mx_xy(ArRn1,ArStep1,RegName," SG4 "," PS4 ")", "mma_mx_xy", G_PSUM, 1},
    {K_MMA_XY_MX, "mma_xy_mx(ArRn1,ArStep1,RegName," SG4 "," PS4 ")", "mma_xy_mx", G_PSUM, 1},
    {K_MMA_MY_MY, "mma_my_my(ArRn1,ArStep1,RegName," SG4 "," PS4 ")", "mma_my_my", G_PSUM, 2},
    {K_MMA_MOV4, "mma_mov(Axh,Bxh,ArRn1,ArStep1,RegName," SG4 "," PS4 ")", "mma_mov.uv", G_PSUM, 2},
    {K_MMA_MOV2, "mma_mov(ArRn2,ArStep1,RegName," SG4 "," PS4 ")", "mma_mov.a", G_PSUM, 1},
    {K_SQR_SQR_ACC, "sqr_sqr_add3(Ab,Ab)", "sqr_sqr_add3.acc", G_PSUM, 1},
    {K_SQR_SQR_MEM, "sqr_sqr_add3(ArRn2,ArStep2,Ab)", "sqr_sqr_add3.mem", G_PSUM, 1},
    {K_SQR_MPYSU, "sqr_mpysu_add3a(Ab,Ab)", "sqr_mpysu_add3a", G_PSUM, 1},
    {K_ADDHP, "addhp(ArRn2,ArStep2,Px,Ax)", "addhp", G_PALU, 1},
    {K_PACR1, "pacr1(Ax)", "pacr1", G_PALU, 1},
    {K_ADD_P1, "add_p1(Ax)", "add_p1", G_PALU, 1},
    {K_SUB_P1, "sub_p1(Ax)", "sub_p1", G_PALU, 1},
    {K_CMP_P1, "cmp_p1_to(Ax)", "cmp_p1_to", G_PALU, 1},
    {K_ADD_PX_BX, "add(Px,Bx)", "add.Px_Bx", G_PALU, 1},
    {K_SUB_PX_BX, "sub(Px,Bx)", "sub.Px_Bx", G_PALU, 1},
    {K_PUSH_PX, "push(Px)", "push.Px", G_PMOVE, 1},
    {K_POP_PX, "pop(Px)", "pop.Px", G_PMOVE, 1},
    {K_MOV_P0H_BX, "mov_p0h_to(Bx)", "mov_p0h_to.Bx", G_PMOVE, 1},
    {K_MOV_P0H_REG, "mov_p0h_to(Register)", "mov_p0h_to.Register", G_PMOVE, 1},
    {K_MOV_P0H_R6, "mov_p0h_r6()", "mov_p0h_r6", G_PMOVE, 1},
    {K_MOV_P0, "mov_p0(Ab)", "mov_p0", G_PMOVE, 1},
    {K_MOV_P1_TO, "mov_p1_to(Ab)", "mov_p1_to", G_PMOVE, 1},
    {K_MOV2_PX_MEM, "mov2(Px,ArRn2,ArStep2)", "mov2.Px_mem", G_PMOVE, 1},
    {K_MOV2S, "mov2s(Px,ArRn2,ArStep2)", "mov2s", G_PMOVE, 1},
    {K_MOV2_MEM_PX, "mov2(ArRn2,ArStep2,Px)", "mov2.mem_Px", G_PMOVE, 1},
    {K_CLRP0, "clrp0()", "clrp0", G_PMOVE, 1},
    {K_CLRP1, "clrp1()", "clrp1", G_PMOVE, 1},
    {K_CLRP, "clrp()", "clrp", G_PMOVE, 1},
    {K_SHFC, "shfc(Ab,Ab,Cond)", "shfc", G_SHIFT, 9},
    {K_SHFI, "shfi(Ab,Ab,Imm6s)", "shfi", G_SHIFT, 4},
    {K_MODA4, "moda4(Moda4,Ax,Cond)", "moda4", G_SHIFT, 3},
    {K_MODA3, "moda3(Moda3,Bx,Cond)", "moda3", G_SHIFT, 2},
    {K_MOVS_MEMIMM8, "movs(MemImm8,Ab)", "movs.MemImm8", G_MOVS, 3},
    {K_MOVS_RN, "movs(Rn,StepZIDS,Ab)", "movs.Rn", G_MOVS, 2},
    {K_MOVS_REG, "movs(Register,Ab)", "movs.Register", G_MOVS, 2},
    {K_MOVS_R6, "movs_r6_to(Ax)", "movs_r6_to", G_MOVS, 1},
    {K_MOVSI, "movsi(RnOld,Ab,Imm5s)", "movsi", G_MOVS, 3},
    {K_EXP_BX, "exp(Bx)", "exp.Bx", G_EXP, 1},
    {K_EXP_BX_AX, "exp(Bx,Ax)", "exp.Bx_Ax", G_EXP, 1},
    {K_EXP_RN, "exp(Rn,StepZIDS)", "exp.Rn", G_EXP, 1},
    {K_EXP_RN_AX, "exp(Rn,StepZIDS,Ax)", "exp.Rn_Ax", G_EXP, 1},
    {K_EXP_REG, "exp(Register)", "exp.Register", G_EXP, 2},
    {K_EXP_REG_AX, "exp(Register,Ax)", "exp.Register_Ax", G_EXP, 2},
    {K_EXP_R6, "exp_r6()", "exp_r6", G_EXP, 1},
    {K_EXP_R6_AX, "exp_r6(Ax)", "exp_r6.Ax", G_EXP, 1},
    {K_NORM, "norm(Ax,Rn,StepZIDS)", "norm", G_NORM, 2},
    {K_LIM, "lim(Ax,Ax)", "lim", G_LIM, 1},
};
#undef PS4
#undef SG4

struct Desc {
    u16 opcode = 0;
    bool expanded = false;
    Kind kind = K_COUNT;
    u8 n = 0;
    u16 o[16] = {};
    u8 t[16] = {};
    const char* name = "";
    std::string text(u16 exp) const {
        std::string s = name;
        s += "(";
        for (unsigned i = 0; i < n; ++i)
            s += fmt("%s%s=%x", i ? "," : "", kOT[t[i]], t[i] == T_Imm16 ? exp : o[i]);
        return s + ")";
    }
};

// ------------------------------------------------------------------ this file's reading of operand.h
enum Acc : u8 { A0, A1, B0, B1 };
const char* kAcc[4] = {"a0", "a1", "b0", "b1"};
inline Acc from_ax(unsigned v) { return v ? A1 : A0; }
inline Acc from_bx(unsigned v) { return v ? B1 : B0; }
inline Acc from_ab(unsigned v) { // Ab: b0, b1, a0, a1
    static const Acc t[] = {B0, B1, A0, A1};
    return t[v & 3];
}
inline Acc from_regname(unsigned v) { // RegName enum: a0=0 (a0l a0h a0e) a1=4 b0=8 b1=12
    return v == 0 ? A0 : v == 4 ? A1 : v == 8 ? B0 : B1;
}
inline Acc counter_acc(Acc a) { return (Acc)(a ^ 1); } // a0<->a1, b0<->b1

// MulOp order: Mpy Mpysu Mac Macus Maa Macuu Macsu Maasu
enum MulOpId : u8 { MO_mpy, MO_mpysu, MO_mac, MO_macus, MO_maa, MO_macuu, MO_macsu, MO_maasu };
const char* kMulOp[8] = {"mpy", "mpysu", "mac", "macus", "maa", "macuu", "macsu", "maasu"};
const u8 kMul2[4] = {MO_mpy, MO_mac, MO_maa, MO_macsu}; // Mul2: Mpy Mac Maa Macsu
// AlmOp order: Or And Xor Add Tst0 Tst1 Cmp Sub Msu Addh Addl Subh Subl Sqr Sqra Cmpu
enum { ALM_msu = 8, ALM_sqr = 13, ALM_sqra = 14 };
// ModaOp order (Moda4): Shr Shr4 Shl Shl4 Ror Rol Clr Reserved Not Neg Rnd Pacr ...; Moda3: first six the same
enum { MD_shr, MD_shr4, MD_shl, MD_shl4, MD_ror, MD_rol, MD_pacr = 11 };
const char* moda_name(unsigned o) {
    static const char* n[] = {"shr", "shr4", "shl", "shl4", "ror", "rol"};
    return o < 6 ? n[o] : o == MD_pacr ? "pacr" : "?";
}
// Register operand (5 bits), order of struct Register in operand.h
enum RegSrc : u8 {
    R_r0, R_r1, R_r2, R_r3, R_r4, R_r5, R_r7, R_y0, R_st0, R_st1, R_st2, R_p, R_pc, R_sp, R_cfgi,
    R_cfgj, R_b0h, R_b1h, R_b0l, R_b1l, R_ext0, R_ext1, R_ext2, R_ext3, R_a0, R_a1, R_a0l, R_a1l,
    R_a0h, R_a1h, R_lc, R_sv,
};
inline bool reg_status(unsigned r) { // status/config views and pc: left to C20 / not meaningful here
    return r == R_st0 || r == R_st1 || r == R_st2 || r == R_pc || r == R_cfgi || r == R_cfgj;
}
const char* kCond[16] = {"true", "eq", "neq", "gt", "ge", "lt", "le", "nn", "c", "v", "e", "l", "nr", "niu0", "iu0", "iu1"};

// ------------------------------------------------------------------ field indices
enum { FZ, FM, FE, FN, FC0, FV, FVL, FLM };
const char* kFlag[8] = {"fz", "fm", "fe", "fn", "fc0", "fv", "fvl", "flm"};
struct Ix {
    int pc, sat, sata, s, sv, acc[4], fl[8], fr, x[2], y[2], hwm, p[2], pe[2], ps[2], r[8], m[8], br[8],
        sp, page, stepi, stepj, stepi0, stepj0, stp16, cmd, epi, epj, arstep[4], arpstepi[4], arpstepj[4],
        aroffset[4], arpoffseti[4], arpoffsetj[4], arrn[4], arprni[4], arprnj[4], ext[4], iu[2], lc0, ie,
        ip[3], ipv, prpage, mod0c, bcn, lp, rep;
    Ix() {
        auto F = [](const std::string& n) { return FieldIndex(n); };
        pc = F("pc"); sat = F("sat"); sata = F("sata"); s = F("s"); sv = F("sv"); fr = F("fr"); hwm = F("hwm");
        acc[A0] = F("a[0]"); acc[A1] = F("a[1]"); acc[B0] = F("b[0]"); acc[B1] = F("b[1]");
        for (int i = 0; i < 8; ++i) fl[i] = F(kFlag[i]);
        for (int i = 0; i < 2; ++i) {
            x[i] = F(fmt("x[%d]", i)); y[i] = F(fmt("y[%d]", i)); p[i] = F(fmt("p[%d]", i));
            pe[i] = F(fmt("pe[%d]", i)); ps[i] = F(fmt("ps[%d]", i)); iu[i] = F(fmt("iu[%d]", i));
        }
        for (int i = 0; i < 8; ++i) {
            r[i] = F(fmt("r[%d]", i)); m[i] = F(fmt("m[%d]", i)); br[i] = F(fmt("br[%d]", i));
        }
        for (int i = 0; i < 4; ++i) {
            arstep[i] = F(fmt("arstep[%d]", i)); arpstepi[i] = F(fmt("arpstepi[%d]", i));
            arpstepj[i] = F(fmt("arpstepj[%d]", i)); aroffset[i] = F(fmt("aroffset[%d]", i));
            arpoffseti[i] = F(fmt("arpoffseti[%d]", i)); arpoffsetj[i] = F(fmt("arpoffsetj[%d]", i));
            arrn[i] = F(fmt("arrn[%d]", i)); arprni[i] = F(fmt("arprni[%d]", i)); arprnj[i] = F(fmt("arprnj[%d]", i));
            ext[i] = F(fmt("ext[%d]", i));
        }
        for (int i = 0; i < 3; ++i) ip[i] = F(fmt("ip[%d]", i));
        sp = F("sp"); page = F("page"); stepi = F("stepi"); stepj = F("stepj"); stepi0 = F("stepi0");
        stepj0 = F("stepj0"); stp16 = F("stp16"); cmd = F("cmd"); epi = F("epi"); epj = F("epj");
        lc0 = F("bkrep_stack[0].lc"); ie = F("ie"); ipv = F("ipv"); prpage = F("prpage");
        mod0c = F("mod0_unk_const"); bcn = F("bcn"); lp = F("lp"); rep = F("rep");
    }
};

inline bool near_mmio(u16 a) { return a >= 0x7FF0 && a < 0x8810; }

u16 factor_edge(Rng& g) {
    static const u16 e[] = {0, 1, 0xFFFF, 0x7FFF, 0x8000, 0x00FF, 0xFF00, 2, 0xFFFE, 0x8001, 0x0100, 0x0080,
                            0x7F00, 0x80FF, 0xFF80, 0x007F, 0x4000, 0xC000};
    unsigned sel = (unsigned)g.below(10);
    if (sel < 5)
        return g.pick(e);
    if (sel < 7) { // a random number of significant bits, either sign (exponent / small-factor classes)
        unsigned len = (unsigned)g.below(17);
        u16 w = len ? (u16)g.bits(len) : 0;
        return g.chance(1, 2) ? (u16)~w : w;
    }
    return (u16)g.bits(16);
}
u32 product_edge(Rng& g) {
    static const u32 e[] = {0, 1, 0xFFFFFFFFu, 0x7FFFFFFFu, 0x80000000u, 0x40000000u, 0xC0000000u, 0x3FFFFFFFu,
                            0xBFFFFFFFu, 0x00008000u, 0x00007FFFu, 0xFFFF8000u, 0x0000FFFFu, 0x00010000u,
                            0xFFFE0001u, 0x3FFF0001u, 0x7FFF8000u};
    return g.chance(1, 2) ? g.pick(e) : (u32)g.bits(32);
}
const MM::s64 kBoundary[] = {0, 0, MM::kMax32, MM::kMax32 + 1, MM::kMin32, MM::kMin32 - 1, MM::kMax40, MM::kMin40,
                             (MM::s64)0x100000000ll, (MM::s64)0xFFFFFFFFll, 0x8000, -0x8000, 0x40000000, -0x40000000};

// well-formed random state, no loop / repeat / interrupt activity, pc = 0, linear addressing
void gen_state(Rng& g, const Ix& ix, CaseState& s) {
    auto& f = Fields();
    for (size_t i = 0; i < f.size(); ++i) {
        unsigned w = f[i].width;
        u64 v;
        if (w == 40)
            v = g.edge40();
        else if (w == 16)
            v = g.edge16();
        else if (w == 32)
            v = product_edge(g);
        else
            v = g.bits(w);
        s.v[i] = mask_width(v, w);
    }
    s.v[ix.prpage] = 0;
    s.v[ix.mod0c] = 1;
    s.v[ix.pc] = 0;
    s.v[ix.bcn] = s.v[ix.lp] = s.v[ix.rep] = 0;
    s.v[ix.ie] = 0;
    s.v[ix.ip[0]] = s.v[ix.ip[1]] = s.v[ix.ip[2]] = s.v[ix.ipv] = 0;
    s.v[ix.epi] = s.v[ix.epj] = 0;
    for (int i = 0; i < 8; ++i) {
        s.v[ix.m[i]] = s.v[ix.br[i]] = 0; // modulo / bit-reverse addressing is C10's subject
        while (near_mmio((u16)s.v[ix.r[i]]))
            s.v[ix.r[i]] = g.bits(16);
    }
    while (near_mmio((u16)s.v[ix.sp]))
        s.v[ix.sp] = g.bits(16);
    while (s.v[ix.page] >= 0x7F && s.v[ix.page] <= 0x88)
        s.v[ix.page] = g.bits(8);
    for (int i = 0; i < 2; ++i) {
        s.v[ix.x[i]] = factor_edge(g);
        s.v[ix.y[i]] = factor_edge(g);
        if (g.chance(3, 4))
            s.v[ix.pe[i]] = (s.v[ix.p[i]] >> 31) & 1;
    }
}

// ------------------------------------------------------------------ per-case information for counters / keys
enum Ev : u8 { EV_PLAIN, EV_CARRY, EV_OVF, EV_SAT, EV_COUNT };
const char* kEv[EV_COUNT] = {"plain", "carry", "overflow", "saturating"};
enum AmtClass : u8 { AM_NEG40, AM_NEG, AM_ZERO, AM_POS, AM_POS40, AM_COUNT };
const char* kAmt[AM_COUNT] = {"<=-40", "-39..-1", "0", "1..39", ">=40"};
inline AmtClass amt_class(int a) { return a <= -40 ? AM_NEG40 : a < 0 ? AM_NEG : a == 0 ? AM_ZERO : a < 40 ? AM_POS : AM_POS40; }

struct Info {
    bool active = true;     // condition passed / instruction did its work
    int ps_read[2] = {-1, -1};
    bool aligned_read = false;
    bool mult[2] = {false, false};
    bool xs[2] = {false, false}, ys[2] = {false, false};
    bool pe_not_bit31 = false; // a new product whose 33rd bit differs from bit 31
    bool acc_single = false, acc_sum2 = false;
    bool carry = false, overflow = false, saturated = false;
    bool shifted = false, logical = false;
    int amount = 0;
    bool carry_defined = true;
    bool sat_sign_differs = false; // saturated to the bound of the original sign while the shifted pattern has the other sign
    bool is_exp = false;
    int exp_result = 0;
    u8 variant = 0;       // mul op / moda op / sign pattern ...
    std::string variant_name;
    Ev ev() const { return saturated ? EV_SAT : overflow ? EV_OVF : carry ? EV_CARRY : EV_PLAIN; }
};

// ------------------------------------------------------------------ the model of one instruction
struct Model {
    const Ix& ix;
    Machine& m;
    Rng& g;
    const Desc& d;
    u16 exp;
    CaseState& s; // pre-state (already final when run() is called)
    CaseState& e; // expected post-state
    Info& in;
    bool mask[8] = {false, false, false, false, false, false, false, false}; // flags not asserted
    std::vector<std::pair<u16, u16>> plants, writes;
    bool unsupported = false;

    Model(const Ix& ix_, Machine& m_, Rng& g_, const Desc& d_, u16 exp_, CaseState& s_, CaseState& e_, Info& in_)
        : ix(ix_), m(m_), g(g_), d(d_), exp(exp_), s(s_), e(e_), in(in_) {}

    // ---- pre-state views
    u16 f(int i) const { return (u16)s.v[i]; }
    MM::s64 acc(Acc a) const { return (MM::s64)s.v[ix.acc[a]]; }
    MM::s64 eacc(Acc a) const { return (MM::s64)e.v[ix.acc[a]]; }
    static u16 low16(MM::s64 v) { return (u16)(MM::unsigned40(v) & 0xFFFF); }
    static u16 high16(MM::s64 v) { return (u16)((MM::unsigned40(v) >> 16) & 0xFFFF); }
    MM::Flags pre_flags() const {
        MM::Flags pf;
        pf.fz = (unsigned)e.v[ix.fl[FZ]]; pf.fm = (unsigned)e.v[ix.fl[FM]]; pf.fe = (unsigned)e.v[ix.fl[FE]];
        pf.fn = (unsigned)e.v[ix.fl[FN]]; pf.fc0 = (unsigned)e.v[ix.fl[FC0]]; pf.fv = (unsigned)e.v[ix.fl[FV]];
        pf.fvl = (unsigned)e.v[ix.fl[FVL]]; pf.flm = (unsigned)e.v[ix.fl[FLM]];
        return pf;
    }
    void put_flags(const MM::Flags& fl) {
        e.v[ix.fl[FZ]] = fl.fz; e.v[ix.fl[FM]] = fl.fm; e.v[ix.fl[FE]] = fl.fe; e.v[ix.fl[FN]] = fl.fn;
        e.v[ix.fl[FC0]] = fl.fc0; e.v[ix.fl[FV]] = fl.fv; e.v[ix.fl[FVL]] = fl.fvl; e.v[ix.fl[FLM]] = fl.flm;
    }
    bool sata() const { return s.v[ix.sata] != 0; }

    // ---- memory (bank 0 data space): values are planted lazily at the addresses the model reads
    u16 rd(u16 a) {
        for (auto& pl : plants)
            if (pl.first == a)
                return pl.second;
        u16 v = factor_edge(g);
        m.data(a, v);
        plants.emplace_back(a, v);
        return v;
    }
    void wr(u16 a, u16 v) { writes.emplace_back(a, v); }

    // ---- address registers: linear stepping only (m = br = epi = epj = 0 in every case)
    u16 plus_step(unsigned unit) const {
        bool j = unit >= 4;
        if (f(ix.stp16) && !f(ix.cmd))
            return f(j ? ix.stepj0 : ix.stepi0);
        u16 st = f(j ? ix.stepj : ix.stepi) & 0x7F;
        return (u16)((st & 0x40) ? st | 0xFF80 : st);
    }
    // step codes: 0 +0, 1 +1, 2 -1, 3 +s, 4 +2, 5 -2, 6 +2, 7 -2; returns the address used (old value)
    u16 step_rn(unsigned unit, unsigned code) {
        u16 old = (u16)e.v[ix.r[unit]];
        u16 delta;
        switch (code & 7) {
        case 0: delta = 0; break;
        case 1: delta = 1; break;
        case 2: delta = 0xFFFF; break;
        case 3: delta = plus_step(unit); break;
        case 4: case 6: delta = 2; break;
        default: delta = 0xFFFE; break;
        }
        e.v[ix.r[unit]] = (u16)(old + delta);
        return old;
    }
    static u16 offset_addr(u16 a, unsigned code) { // 0: +0, 1: +1, 2: -1, 3: -1
        return (u16)(code == 0 ? a : code == 1 ? a + 1 : a - 1);
    }
    struct ArAddr {
        u16 addr, addr2;
    };
    ArAddr ar(unsigned rn_idx, unsigned step_idx) { // ArRn / ArStep operands
        unsigned unit = f(ix.arrn[rn_idx & 3]) & 7;
        ArAddr a;
        a.addr = step_rn(unit, f(ix.arstep[step_idx & 3]));
        a.addr2 = offset_addr(a.addr, f(ix.aroffset[step_idx & 3]) & 3);
        return a;
    }
    struct ArpAddr {
        u16 i, i2, j, j2;
    };
    ArpAddr arp(unsigned rn_idx, unsigned si_idx, unsigned sj_idx) { // ArpRn / ArpStep operands
        unsigned ui = f(ix.arprni[rn_idx & 3]) & 3, uj = (f(ix.arprnj[rn_idx & 3]) & 3) + 4;
        ArpAddr a;
        a.i = step_rn(ui, f(ix.arpstepi[si_idx & 3]));
        a.j = step_rn(uj, f(ix.arpstepj[sj_idx & 3]));
        a.i2 = offset_addr(a.i, f(ix.arpoffseti[si_idx & 3]) & 3);
        a.j2 = offset_addr(a.j, f(ix.arpoffsetj[sj_idx & 3]) & 3);
        return a;
    }
    u16 memimm8(unsigned imm) const { return (u16)((f(ix.page) << 8) + (imm & 0xFF)); }

    // ---- products
    MM::s64 pread(unsigned unit, bool aligned = false) {
        in.ps_read[unit] = (int)(s.v[ix.ps[unit]] & 3);
        in.aligned_read |= aligned;
        u32 p = (u32)s.v[ix.p[unit]];
        unsigned pe = (unsigned)s.v[ix.pe[unit]], ps = (unsigned)s.v[ix.ps[unit]];
        return aligned ? MM::read_product_aligned(p, pe, ps) : MM::read_product(p, pe, ps);
    }
    u16 p0h() { return (u16)(MM::unsigned40(MM::floor_div(pread(0), 65536)) & 0xFFFF); }
    void set_product(unsigned unit, MM::Product pr) {
        e.v[ix.p[unit]] = pr.p;
        e.v[ix.pe[unit]] = pr.pe;
    }
    void multiply(unsigned unit, bool xs, bool ys) { // from the factors now in e
        MM::Product pr = MM::multiply((u16)e.v[ix.x[unit]], (u16)e.v[ix.y[unit]], xs, ys, f(ix.hwm) & 3, unit);
        set_product(unit, pr);
        in.mult[unit] = true;
        in.xs[unit] = xs;
        in.ys[unit] = ys;
        if (pr.pe != ((pr.p >> 31) & 1))
            in.pe_not_bit31 = true;
    }

    // ---- accumulator writes
    void note(const MM::AccOut& o, bool with_cv) {
        if (with_cv) {
            in.carry |= o.carry;
            in.overflow |= o.overflow;
        }
        in.saturated |= o.saturated != 0;
    }
    // acc(dst) = a +/- b with the full C03 flag semantics
    void acc_addsub(Acc dst, MM::s64 a, MM::s64 b, bool sub, bool store = true) {
        MM::AccOut o = MM::accumulate(a, b, sub, pre_flags(), sata(), store);
        if (store)
            e.v[ix.acc[dst]] = (u64)o.stored;
        put_flags(o.f);
        in.acc_single = true;
        note(o, true);
    }
    void acc_load(Acc dst, MM::s64 v) {
        MM::AccOut o = MM::load(v, pre_flags(), sata());
        e.v[ix.acc[dst]] = (u64)o.stored;
        put_flags(o.f);
        note(o, false);
    }
    // base +/- P0 +/- P1 (operand order of the tree's table: base, sub_p0, p0_align, sub_p1, p1_align)
    void product_sum(Acc dst, unsigned base, bool sub0, bool al0, bool sub1, bool al1) {
        MM::s64 pa = pread(0, al0), pb = pread(1, al1);
        MM::s64 bv = MM::base_value((MM::Base)(base & 3), eacc(dst), (u16)e.v[ix.sv]);
        MM::AccOut o = MM::sum3(bv, pa, sub0, pb, sub1, pre_flags(), sata());
        e.v[ix.acc[dst]] = (u64)o.stored;
        put_flags(o.f);
        mask[FC0] = mask[FV] = mask[FVL] = true; // combination of the partial carries: left to C01
        in.acc_sum2 = true;
        in.overflow |= o.overflow;
        note(o, false);
    }
    void psum_ops(Acc dst, unsigned at) { product_sum(dst, d.o[at], d.o[at + 1], d.o[at + 2], d.o[at + 3], d.o[at + 4]); }

    // ---- 16-bit register reads / writes of the Register operand
    u16 reg16(unsigned r) {
        switch (r) {
        case R_r0: case R_r1: case R_r2: case R_r3: case R_r4: case R_r5: return f(ix.r[r]);
        case R_r7: return f(ix.r[7]);
        case R_y0: return f(ix.y[0]);
        case R_p: return p0h();
        case R_sp: return f(ix.sp);
        case R_b0h: return high16(acc(B0));
        case R_b1h: return high16(acc(B1));
        case R_b0l: return low16(acc(B0));
        case R_b1l: return low16(acc(B1));
        case R_ext0: case R_ext1: case R_ext2: case R_ext3: return f(ix.ext[r - R_ext0]);
        case R_a0: case R_a0l: return low16(acc(A0));
        case R_a1: case R_a1l: return low16(acc(A1));
        case R_a0h: return high16(acc(A0));
        case R_a1h: return high16(acc(A1));
        case R_lc: return f(ix.lc0); // no block repeat active: frame 0
        case R_sv: return f(ix.sv);
        default: unsupported = true; return 0;
        }
    }
    void reg_write(unsigned r, u16 v) {
        switch (r) {
        case R_r0: case R_r1: case R_r2: case R_r3: case R_r4: case R_r5: e.v[ix.r[r]] = v; break;
        case R_r7: e.v[ix.r[7]] = v; break;
        case R_y0: e.v[ix.y[0]] = v; break;
        case R_p: // the high half of p0; the 33rd bit follows the new sign
            e.v[ix.p[0]] = (u32)((s.v[ix.p[0]] & 0xFFFF) | ((u32)v << 16));
            e.v[ix.pe[0]] = v >= 0x8000;
            break;
        case R_sp: e.v[ix.sp] = v; break;
        case R_sv: e.v[ix.sv] = v; break;
        case R_lc: e.v[ix.lc0] = v; break;
        case R_ext0: case R_ext1: case R_ext2: case R_ext3: e.v[ix.ext[r - R_ext0]] = v; break;
        case R_b0h: acc_load(B0, MM::signed16(v) * 65536); break;
        case R_b1h: acc_load(B1, MM::signed16(v) * 65536); break;
        case R_a0h: acc_load(A0, MM::signed16(v) * 65536); break;
        case R_a1h: acc_load(A1, MM::signed16(v) * 65536); break;
        case R_b0l: acc_load(B0, (MM::s64)v); break;
        case R_b1l: acc_load(B1, (MM::s64)v); break;
        case R_a0l: acc_load(A0, (MM::s64)v); break;
        case R_a1l: acc_load(A1, (MM::s64)v); break;
        case R_a0: acc_load(A0, MM::signed16(v)); break;
        case R_a1: acc_load(A1, MM::signed16(v)); break;
        default: unsupported = true; break;
        }
    }

    bool cond_holds(unsigned c) const {
        unsigned fz = f(ix.fl[FZ]), fm = f(ix.fl[FM]);
        switch (c & 15) {
        case 0: return true;
        case 1: return fz;
        case 2: return !fz;
        case 3: return !fz && !fm;
        case 4: return !fm;
        case 5: return fm;
        case 6: return fm || fz;
        case 7: return !f(ix.fl[FN]);
        case 8: return f(ix.fl[FC0]);
        case 9: return f(ix.fl[FV]);
        case 10: return f(ix.fl[FE]);
        case 11: return f(ix.fl[FLM]) || f(ix.fl[FVL]);
        case 12: return !f(ix.fr);
        case 13: return !f(ix.iu[0]);
        case 14: return f(ix.iu[0]);
        default: return f(ix.iu[1]);
        }
    }

    // ---- shifter
    void shift_to(Acc dst, MM::s64 v, int amount, bool force_arith_nosat = false) {
        bool logical = !force_arith_nosat && s.v[ix.s] != 0;
        bool saturate = !force_arith_nosat && !sata();
        SM::ShiftOut o = SM::shift40(v, amount, logical, saturate);
        e.v[ix.acc[dst]] = (u64)o.stored;
        e.v[ix.fl[FZ]] = o.fz; e.v[ix.fl[FM]] = o.fm; e.v[ix.fl[FE]] = o.fe; e.v[ix.fl[FN]] = o.fn;
        if (o.carry_defined)
            e.v[ix.fl[FC0]] = o.carry;
        else
            mask[FC0] = true; // everything shifted out: left to C01
        if (o.overflow_defined) {
            e.v[ix.fl[FV]] = o.overflow;
            if (o.overflow)
                e.v[ix.fl[FVL]] = 1;
        } else
            mask[FV] = mask[FVL] = true; // logical mode: overflow not specified
        if (o.saturated)
            e.v[ix.fl[FLM]] = 1;
        in.shifted = true;
        in.logical = logical;
        in.amount = amount;
        in.carry_defined = o.carry_defined;
        in.carry = o.carry_defined && o.carry;
        in.overflow = o.overflow_defined && o.overflow;
        in.saturated = o.saturated;
        in.sat_sign_differs = o.saturated && ((o.stored < 0) != (o.r < 0));
    }
    void exp_of(MM::s64 v) {
        int x = SM::exponent40(v);
        e.v[ix.sv] = (u16)x;
        in.is_exp = true;
        in.exp_result = x;
    }
    void exp_store(Acc a) { e.v[ix.acc[a]] = (u64)MM::signed16((u16)e.v[ix.sv]); }
    static MM::s64 high_placed(u16 w) { return MM::signed16(w) * 65536; } // 16-bit source in bits 16..31

    void mul_generic(unsigned op, Acc a);
    void mma_tail(unsigned sign_at);
    void run();
};

// MulGeneric families: optional accumulate of the OLD p0, then the new multiplication in unit 0
void Model::mul_generic(unsigned op, Acc a) {
    in.variant = (u8)op;
    in.variant_name = kMulOp[op & 7];
    if (op != MO_mpy && op != MO_mpysu) {
        bool aligned = op == MO_maa || op == MO_maasu;
        acc_addsub(a, acc(a), pread(0, aligned), false);
    }
    bool xs = op == MO_mpy || op == MO_mac || op == MO_maa || op == MO_macus;
    bool ys = !(op == MO_macus || op == MO_macuu);
    multiply(0, xs, ys);
}

// the four sign constants of the mma table rows: x0 y0 x1 y1
void Model::mma_tail(unsigned at) {
    multiply(0, d.o[at] != 0, d.o[at + 1] != 0);
    multiply(1, d.o[at + 2] != 0, d.o[at + 3] != 0);
    in.variant = (u8)(d.o[at] | d.o[at + 1] << 1 | d.o[at + 2] << 2 | d.o[at + 3] << 3);
    in.variant_name = fmt("%c%c.%c%c", d.o[at] ? 's' : 'u', d.o[at + 1] ? 's' : 'u', d.o[at + 2] ? 's' : 'u',
                          d.o[at + 3] ? 's' : 'u');
}

void Model::run() {
    const u16* o = d.o;
    auto X = [&](unsigned u) -> u64& { return e.v[ix.x[u]]; };
    auto Y = [&](unsigned u) -> u64& { return e.v[ix.y[u]]; };
    auto swap_x = [&] { std::swap(e.v[ix.x[0]], e.v[ix.x[1]]); };
    switch (d.kind) {
    // ------------------------------------------------------------ multiply / multiply-accumulate
    case K_MUL_RN_IMM: { // y0 <- [Rn], x0 <- #imm16
        u16 a = step_rn(o[1] & 7, o[2] & 3);
        Y(0) = rd(a);
        X(0) = exp;
        mul_generic(o[0] & 7, from_ax(o[4]));
        break;
    }
    case K_MULY0_RN: {
        u16 a = step_rn(o[1] & 7, o[2] & 3);
        X(0) = rd(a);
        mul_generic(o[0] & 7, from_ax(o[3]));
        break;
    }
    case K_MULY0_REG:
        X(0) = reg16(o[1]);
        mul_generic(o[0] & 7, from_ax(o[2]));
        break;
    case K_MUL_R45_R0123: {
        u16 ay = step_rn(4 + (o[1] & 1), o[2] & 3);
        u16 ax = step_rn(o[3] & 3, o[4] & 3);
        Y(0) = rd(ay);
        X(0) = rd(ax);
        mul_generic(o[0] & 7, from_ax(o[5]));
        break;
    }
    case K_MULY0_R6:
        X(0) = f(ix.r[6]);
        mul_generic(o[0] & 7, from_ax(o[1]));
        break;
    case K_MULY0_MEMIMM8:
        X(0) = rd(memimm8(o[1]));
        mul_generic(kMul2[o[0] & 3], from_ax(o[2]));
        break;
    case K_MPYI:
        X(0) = (u16)((o[0] & 0x80) ? (o[0] | 0xFF00) : (o[0] & 0xFF));
        multiply(0, true, true);
        break;
    case K_MSU_RR: {
        u16 ay = step_rn(4 + (o[0] & 1), o[1] & 3);
        u16 ax = step_rn(o[2] & 3, o[3] & 3);
        Acc a = from_ax(o[4]);
        acc_addsub(a, acc(a), pread(0), true);
        Y(0) = rd(ay);
        X(0) = rd(ax);
        multiply(0, true, true);
        break;
    }
    case K_MSU_RN_IMM: {
        u16 ay = step_rn(o[0] & 7, o[1] & 3);
        Acc a = from_ax(o[3]);
        acc_addsub(a, acc(a), pread(0), true);
        Y(0) = rd(ay);
        X(0) = exp;
        multiply(0, true, true);
        break;
    }
    case K_MSUSU: { // x unsigned, y signed
        ArAddr ad = ar(o[0], o[1]);
        Acc a = from_ax(o[2]);
        acc_addsub(a, acc(a), pread(0), true);
        X(0) = rd(ad.addr);
        multiply(0, false, true);
        break;
    }
    case K_MAC_X1TO0: {
        Acc a = from_ax(o[0]);
        acc_addsub(a, acc(a), pread(0), false);
        X(0) = f(ix.x[1]);
        multiply(0, true, true);
        break;
    }
    case K_MAC1: { // unit 1
        ArpAddr ad = arp(o[0], o[1], o[2]);
        Acc a = from_ax(o[3]);
        acc_addsub(a, acc(a), pread(1), false);
        X(1) = rd(ad.i);
        Y(1) = rd(ad.j);
        multiply(1, true, true);
        break;
    }
    case K_ALM_MEMIMM8: case K_ALM_RN: case K_ALM_REG: case K_ALM_R6: {
        u16 w;
        Acc a;
        if (d.kind == K_ALM_MEMIMM8) { w = rd(memimm8(o[1])); a = from_ax(o[2]); }
        else if (d.kind == K_ALM_RN) { w = rd(step_rn(o[1] & 7, o[2] & 3)); a = from_ax(o[3]); }
        else if (d.kind == K_ALM_REG) { w = reg16(o[1]); a = from_ax(o[2]); }
        else { w = f(ix.r[6]); a = from_ax(o[1]); }
        unsigned op = o[0] & 15;
        in.variant = (u8)op;
        in.variant_name = op == ALM_msu ? "msu" : op == ALM_sqr ? "sqr" : "sqra";
        if (op == ALM_msu) {
            acc_addsub(a, acc(a), pread(0), true);
            X(0) = w;
        } else {
            if (op == ALM_sqra)
                acc_addsub(a, acc(a), pread(0), false);
            X(0) = Y(0) = w;
        }
        multiply(0, true, true);
        break;
    }
    // ------------------------------------------------------------ product sums
    case K_APP:
        psum_ops(from_ab(o[0]), 1);
        break;
    case K_MOV_SV_APP: case K_MOV_SV_APP_ALT: { // sv <- [ArRn] first; the sum sees the new sv
        unsigned unit = f(ix.arrn[o[0] & 1]) & 7;
        unsigned sidx = (o[1] & 1) + (d.kind == K_MOV_SV_APP_ALT ? 2 : 0);
        e.v[ix.sv] = rd(step_rn(unit, f(ix.arstep[sidx])));
        psum_ops(from_bx(o[2]), 3);
        break;
    }
    case K_MMA_REG:
        psum_ops(from_regname(o[0]), 5);
        swap_x();
        mma_tail(1);
        break;
    case K_MMA_ARP1: case K_MMA_ARP2: {
        psum_ops(from_regname(o[5]), 10);
        ArpAddr ad = arp(o[0], o[1], o[2]);
        X(0) = rd(ad.i);
        Y(0) = rd(ad.j);
        X(1) = rd(ad.i2);
        Y(1) = rd(ad.j2);
        mma_tail(6);
        break;
    }
    case K_MMA_MX_XY: case K_MMA_XY_MX: {
        psum_ops(from_regname(o[2]), 7);
        swap_x();
        ArAddr ad = ar(o[0] & 1, o[1] & 1);
        Y(d.kind == K_MMA_MX_XY ? 0 : 1) = rd(ad.addr);
        mma_tail(3);
        break;
    }
    case K_MMA_MY_MY: {
        psum_ops(from_regname(o[2]), 7);
        ArAddr ad = ar(o[0] & 1, o[1] & 1);
        X(0) = rd(ad.addr);
        X(1) = rd(ad.addr2);
        mma_tail(3);
        break;
    }
    case K_MMA_MOV4: { // store u (a?h) and v (b?h) as read before the sum, then the sum, then swap x
        ArAddr ad = ar(o[2] & 1, o[3] & 1);
        bool satd = s.v[ix.sat] != 0;
        wr(ad.addr2, high16(MM::read_saturated(acc(from_bx(o[1])), satd)));
        wr(ad.addr, high16(MM::read_saturated(acc(from_ax(o[0])), satd)));
        psum_ops(from_regname(o[4]), 9);
        swap_x();
        mma_tail(5);
        break;
    }
    case K_MMA_MOV2: {
        ArAddr ad = ar(o[0] & 3, o[1] & 1);
        bool satd = s.v[ix.sat] != 0;
        Acc a = from_regname(o[2]);
        wr(ad.addr2, high16(MM::read_saturated(acc(counter_acc(a)), satd)));
        wr(ad.addr, high16(MM::read_saturated(acc(a), satd)));
        psum_ops(a, 7);
        swap_x();
        mma_tail(3);
        break;
    }
    case K_SQR_SQR_ACC: {
        MM::s64 v = acc(from_ab(o[0]));
        product_sum(from_ab(o[1]), 1, false, false, false, false);
        X(0) = Y(0) = high16(v);
        X(1) = Y(1) = low16(v);
        multiply(0, true, true);
        multiply(1, true, true);
        break;
    }
    case K_SQR_SQR_MEM: {
        product_sum(from_ab(o[2]), 1, false, false, false, false);
        ArAddr ad = ar(o[0] & 3, o[1] & 3);
        X(0) = Y(0) = rd(ad.addr);
        X(1) = Y(1) = rd(ad.addr2);
        multiply(0, true, true);
        multiply(1, true, true);
        break;
    }
    case K_SQR_MPYSU: { // p1 read aligned; unit 1 multiplies unsigned x by signed y
        MM::s64 v = acc(from_ab(o[0]));
        product_sum(from_ab(o[1]), 1, false, false, false, true);
        X(0) = Y(0) = Y(1) = high16(v);
        X(1) = low16(v);
        multiply(0, true, true);
        multiply(1, false, true);
        break;
    }
    // ------------------------------------------------------------ products as ALU operands
    case K_ADDHP: {
        ArAddr ad = ar(o[0] & 3, o[1] & 3);
        MM::s64 v = high_placed(rd(ad.addr)) + 0x8000;
        acc_addsub(from_ax(o[3]), v, pread(o[2] & 1), false);
        break;
    }
    case K_PACR1:
        acc_addsub(from_ax(o[0]), pread(1), 0x8000, false);
        break;
    case K_ADD_P1: acc_addsub(from_ax(o[0]), acc(from_ax(o[0])), pread(1), false); break;
    case K_SUB_P1: acc_addsub(from_ax(o[0]), acc(from_ax(o[0])), pread(1), true); break;
    case K_CMP_P1: acc_addsub(from_ax(o[0]), acc(from_ax(o[0])), pread(1), true, false); break;
    case K_ADD_PX_BX: acc_addsub(from_bx(o[1]), acc(from_bx(o[1])), pread(o[0] & 1), false); break;
    case K_SUB_PX_BX: acc_addsub(from_bx(o[1]), acc(from_bx(o[1])), pread(o[0] & 1), true); break;
    // ------------------------------------------------------------ product moves
    case K_PUSH_PX: {
        u64 v = MM::unsigned40(pread(o[0] & 1)) & 0xFFFFFFFFull;
        u16 sp = f(ix.sp);
        wr((u16)(sp - 1), (u16)(v & 0xFFFF));
        wr((u16)(sp - 2), (u16)(v >> 16));
        e.v[ix.sp] = (u16)(sp - 2);
        break;
    }
    case K_POP_PX: {
        u16 sp = f(ix.sp);
        u16 h = rd(sp), l = rd((u16)(sp + 1));
        e.v[ix.sp] = (u16)(sp + 2);
        set_product(o[0] & 1, MM::from_bus32(((u32)h << 16) | l));
        break;
    }
    case K_MOV_P0H_BX: acc_load(from_bx(o[0]), MM::signed16(p0h())); break;
    case K_MOV_P0H_REG: reg_write(o[0], p0h()); break;
    case K_MOV_P0H_R6: e.v[ix.r[6]] = p0h(); break;
    case K_MOV_P0: {
        bool did = false;
        MM::s64 v = MM::read_saturated(acc(from_ab(o[0])), s.v[ix.sat] != 0, &did);
        if (did) {
            e.v[ix.fl[FLM]] = 1;
            in.saturated = true;
        }
        set_product(0, MM::from_bus32((u32)(MM::unsigned40(v) & 0xFFFFFFFFull)));
        break;
    }
    case K_MOV_P1_TO: acc_load(from_ab(o[0]), pread(1)); break;
    case K_MOV2_PX_MEM: { // the raw 32-bit register, not through the product shifter
        ArAddr ad = ar(o[1] & 3, o[2] & 3);
        u32 v = (u32)s.v[ix.p[o[0] & 1]];
        wr(ad.addr2, (u16)(v & 0xFFFF));
        wr(ad.addr, (u16)(v >> 16));
        break;
    }
    case K_MOV2S: {
        ArAddr ad = ar(o[1] & 3, o[2] & 3);
        u64 v = MM::unsigned40(pread(o[0] & 1)) & 0xFFFFFFFFull;
        wr(ad.addr2, (u16)(v & 0xFFFF));
        wr(ad.addr, (u16)(v >> 16));
        break;
    }
    case K_MOV2_MEM_PX: {
        ArAddr ad = ar(o[0] & 3, o[1] & 3);
        u16 l = rd(ad.addr2), h = rd(ad.addr);
        set_product(o[2] & 1, MM::from_bus32(((u32)h << 16) | l));
        break;
    }
    case K_CLRP0: set_product(0, MM::from_bus32(0)); break;
    case K_CLRP1: set_product(1, MM::from_bus32(0)); break;
    case K_CLRP: set_product(0, MM::from_bus32(0)); set_product(1, MM::from_bus32(0)); break;
    // ------------------------------------------------------------ shifter
    case K_SHFC:
        in.active = cond_holds(o[2]);
        if (in.active)
            shift_to(from_ab(o[1]), acc(from_ab(o[0])), (int)MM::signed16(f(ix.sv)));
        break;
    case K_SHFI:
        shift_to(from_ab(o[1]), acc(from_ab(o[0])), (o[2] & 0x20) ? (int)(o[2] & 0x3F) - 64 : (int)(o[2] & 0x3F));
        break;
    case K_MODA4: case K_MODA3: {
        Acc a = d.kind == K_MODA4 ? from_ax(o[1]) : from_bx(o[1]);
        unsigned op = o[0];
        in.variant = (u8)op;
        in.variant_name = moda_name(op);
        in.active = cond_holds(o[2]);
        if (!in.active)
            break;
        switch (op) {
        case MD_shr: shift_to(a, acc(a), -1); break;
        case MD_shr4: shift_to(a, acc(a), -4); break;
        case MD_shl: shift_to(a, acc(a), 1); break;
        case MD_shl4: shift_to(a, acc(a), 4); break;
        case MD_ror: case MD_rol: { // through the carry flag; result flags, no overflow, no saturation
            SM::RotOut r = op == MD_ror ? SM::rotate_right(acc(a), f(ix.fl[FC0]) != 0) : SM::rotate_left(acc(a), f(ix.fl[FC0]) != 0);
            MM::Flags fl = pre_flags();
            MM::describe(r.r, fl);
            fl.fc0 = r.carry;
            put_flags(fl);
            e.v[ix.acc[a]] = (u64)r.r;
            in.carry = r.carry;
            break;
        }
        case MD_pacr: acc_addsub(a, pread(0), 0x8000, false); break;
        default: unsupported = true;
        }
        break;
    }
    case K_MOVS_MEMIMM8: shift_to(from_ab(o[1]), MM::signed16(rd(memimm8(o[0]))), (int)MM::signed16(f(ix.sv))); break;
    case K_MOVS_RN: shift_to(from_ab(o[2]), MM::signed16(rd(step_rn(o[0] & 7, o[1] & 3))), (int)MM::signed16(f(ix.sv))); break;
    case K_MOVS_REG: shift_to(from_ab(o[1]), MM::signed16(reg16(o[0])), (int)MM::signed16(f(ix.sv))); break;
    case K_MOVS_R6: shift_to(from_ax(o[0]), MM::signed16(f(ix.r[6])), (int)MM::signed16(f(ix.sv))); break;
    case K_MOVSI: { // RnOld: r0 r1 r2 r3 r4 r5 r7 y0
        unsigned r = o[0] & 7;
        u16 w = r < 6 ? f(ix.r[r]) : r == 6 ? f(ix.r[7]) : f(ix.y[0]);
        shift_to(from_ab(o[1]), MM::signed16(w), (o[2] & 0x10) ? (int)(o[2] & 0x1F) - 32 : (int)(o[2] & 0x1F));
        break;
    }
    // ------------------------------------------------------------ exponent / normalise / limit
    case K_EXP_BX: exp_of(acc(from_bx(o[0]))); break;
    case K_EXP_BX_AX: exp_of(acc(from_bx(o[0]))); exp_store(from_ax(o[1])); break;
    case K_EXP_RN: exp_of(high_placed(rd(step_rn(o[0] & 7, o[1] & 3)))); break;
    case K_EXP_RN_AX: exp_of(high_placed(rd(step_rn(o[0] & 7, o[1] & 3)))); exp_store(from_ax(o[2])); break;
    case K_EXP_REG: case K_EXP_REG_AX:
        if (o[0] == R_a0 || o[0] == R_a1)
            exp_of(acc(o[0] == R_a0 ? A0 : A1)); // the full 40-bit accumulator
        else
            exp_of(high_placed(reg16(o[0])));
        if (d.kind == K_EXP_REG_AX)
            exp_store(from_ax(o[1]));
        break;
    case K_EXP_R6: exp_of(high_placed(f(ix.r[6]))); break;
    case K_EXP_R6_AX: exp_of(high_placed(f(ix.r[6]))); exp_store(from_ax(o[0])); break;
    case K_NORM: { // one normalisation step while the value is not normalised (fn == 0)
        in.active = f(ix.fl[FN]) == 0;
        if (!in.active)
            break;
        Acc a = from_ax(o[0]);
        shift_to(a, acc(a), 1, true); // arithmetic, no saturation stage
        step_rn(o[1] & 7, o[2] & 3);
        e.v[ix.fr] = e.v[ix.r[o[1] & 7]] == 0;
        break;
    }
    case K_LIM: {
        MM::s64 v = acc(from_ax(o[0]));
        MM::Flags fl = pre_flags();
        if (!MM::fits32(v)) {
            v = v < 0 ? MM::kMin32 : MM::kMax32;
            fl.flm = 1;
            in.saturated = true;
        }
        MM::describe(v, fl);
        put_flags(fl);
        e.v[ix.acc[from_ax(o[1])]] = (u64)v;
        break;
    }
    default:
        unsupported = true;
    }
}

// which encodings of a kind belong to the families of C04
bool accept(const Desc& d, unsigned& why) {
    why = 0;
    auto status = [&](unsigned r) {
        if (reg_status(r)) { why = 1; return true; }
        return false;
    };
    switch (d.kind) {
    case K_ALM_MEMIMM8: case K_ALM_RN: case K_ALM_R6:
        if (d.o[0] != ALM_msu && d.o[0] != ALM_sqr && d.o[0] != ALM_sqra) { why = 2; return false; }
        return true;
    case K_ALM_REG:
        if (d.o[0] != ALM_msu && d.o[0] != ALM_sqr && d.o[0] != ALM_sqra) { why = 2; return false; }
        if (d.o[1] == R_a0 || d.o[1] == R_a1 || d.o[1] == R_p) { why = 3; return false; } // 40-bit operand: unimplemented
        return !status(d.o[1]);
    case K_MODA4:
        if (!(d.o[0] <= MD_rol || d.o[0] == MD_pacr)) { why = 2; return false; }
        return true;
    case K_MODA3:
        if (d.o[0] > MD_rol) { why = 2; return false; }
        return true;
    case K_MULY0_REG: return !status(d.o[1]);
    case K_MOVS_REG: case K_EXP_REG: case K_EXP_REG_AX: case K_MOV_P0H_REG: return !status(d.o[0]);
    default: return true;
    }
}

} // namespace

int main(int argc, char** argv) {
    Ctx ctx;
    ctx.parse(argc, argv, "C04");
    const Ix ix;
    const size_t NF = Fields().size();

    // ---------------------------------------------------------------- enumerate the encodings
    std::map<std::string, Kind> by_sig;
    for (unsigned k = 0; k < K_COUNT; ++k) {
        if (kKinds[k].k != (Kind)k) {
            std::fprintf(stderr, "kind table out of order at %u\n", k);
            return 3;
        }
        by_sig[kKinds[k].sig] = (Kind)k;
    }
    std::vector<std::vector<Desc>> encs(K_COUNT);
    u64 excluded[4] = {0, 0, 0, 0};
    {
        auto rows = GetDecodeTable<TypedRec>();
        for (u32 op = 0; op < 0x10000; ++op) {
            for (auto& r : rows) {
                if (!r.Matches((u16)op))
                    continue;
                TypedRec rec;
                r.call(rec, (u16)op, 0);
                std::string sig = rec.name;
                sig += "(";
                for (size_t i = 0; i < rec.ops.size(); ++i)
                    sig += std::string(i ? "," : "") + kOT[rec.ops[i].first];
                sig += ")";
                auto it = by_sig.find(sig);
                if (it != by_sig.end() && rec.ops.size() <= 16) {
                    Desc d;
                    d.opcode = (u16)op;
                    d.expanded = r.NeedExpansion();
                    d.kind = it->second;
                    d.name = rec.name;
                    d.n = (u8)rec.ops.size();
                    for (size_t i = 0; i < rec.ops.size(); ++i) {
                        d.t[i] = rec.ops[i].first;
                        d.o[i] = rec.ops[i].second;
                    }
                    unsigned why;
                    if (accept(d, why))
                        encs[d.kind].push_back(d);
                    else
                        ++excluded[why & 3];
                }
                break;
            }
        }
    }
    u64 enc_total = 0;
    std::vector<Kind> sched;
    for (unsigned k = 0; k < K_COUNT; ++k) {
        enc_total += encs[k].size();
        if (encs[k].empty()) {
            // a family of the property without any encoding: the table changed under the harness
            ctx.violation(fmt("table:no-encoding:%s", kKinds[k].label), std::string("no encoding decodes to ") + kKinds[k].sig, 0);
            continue;
        }
        for (unsigned w = 0; w < kKinds[k].weight; ++w)
            sched.push_back((Kind)k);
    }
    if (sched.empty())
        return ctx.finish();
    // interleave the slots so that neighbouring slots belong to different families, and make the
    // schedule length odd (coprime to the 16 shards): every shard meets every family
    {
        std::vector<Kind> mixed(sched.size());
        size_t n = sched.size(), stride = 37;
        while (n % stride == 0)
            ++stride;
        for (size_t i = 0; i < n; ++i)
            mixed[i] = sched[(i * stride) % n];
        sched.swap(mixed);
        if (sched.size() % 2 == 0)
            sched.push_back(K_SHFC);
    }
    const u64 S = sched.size();

    Machine m;
    CaseState s, e;

    // ---------------------------------------------------------------- counters
    u64 n_cases = 0, n_kind[K_COUNT] = {}, n_grp[G_COUNT] = {}, n_ps[4] = {}, n_hwm[4] = {}, n_sign[4] = {},
        n_amt[AM_COUNT] = {}, n_skip[5] = {}, n_unsupported = 0;
    u64 shift_cases = 0, shift_logical = 0, shift_overflow = 0, shift_saturated = 0, shift_carry = 0,
        shift_sat_keeps_sign = 0, shift_carry_unasserted = 0;
    u64 mac_cases = 0, mac_carry = 0, mac_overflow = 0, mac_saturated = 0, sum2_cases = 0, sum2_saturated = 0,
        sum2_overflow = 0, aligned_reads = 0, mults = 0, hwm_nonzero = 0, pe_not_bit31 = 0, pe_set = 0;
    u64 cond_true = 0, cond_false = 0, exp_cases = 0, exp_negative = 0, exp_max = 0, norm_active = 0,
        lim_saturated = 0, mem_write_cases = 0, mem_read_cases = 0, move_saturated = 0;
    std::vector<u8> enc_seen(0x10000, 0);
    std::set<u32> nt;

    for (u64 c = 0; c < ctx.cases; ++c) {
        if (!ctx.selected(c))
            continue;
        Rng g = ctx.case_rng(c);
        const u64 G = c * (u64)ctx.nshards + (u64)ctx.shard;
        const Kind kind = sched[G % S];
        const Desc& d = encs[kind][(G / S) % encs[kind].size()];
        const KindInfo& ki = kKinds[kind];

        // ---------------------------------------------------------- pre-state
        gen_state(g, ix, s);
        BiasRelations(g, s); // equal registers, product consistent with its factors (state.h)
        if (g.chance(1, 2)) { // half of the cases share most registers with the other cases of their group of 8 (state.h MixSticky)
            Rng gg = ctx.case_rng(c / 8, 0x6157);
            CaseState grp;
            gen_state(gg, ix, grp);
            MixSticky(g, s, grp);
            ctx.count("cases_with_group_state");
        }
        u16 exp = d.expanded ? factor_edge(g) : 0;
        s.v[ix.sat] = g.bits(1);
        s.v[ix.sata] = g.bits(1);
        s.v[ix.s] = g.bits(1);
        // shift amount
        int amount = 0;
        bool has_amount = false;
        if (ki.grp == G_SHIFT || ki.grp == G_MOVS || ki.grp == G_NORM) {
            unsigned sel = (unsigned)g.below(20);
            int a;
            if (sel < 12)
                a = (int)g.below(97) - 48;
            else if (sel < 15) {
                static const int ed[] = {39, 40, 41, -39, -40, -41, 32, -32, 31, -31, 16, -16, 8, -8, 0x7FFF, -0x8000, 0, 1, -1, 38, -38};
                a = g.pick(ed);
            } else
                a = (int)MM::signed16((u16)g.bits(16));
            s.v[ix.sv] = (u16)a;
            has_amount = true;
            switch (kind) {
            case K_SHFI: amount = (d.o[2] & 0x20) ? (int)(d.o[2] & 0x3F) - 64 : (int)(d.o[2] & 0x3F); break;
            case K_MOVSI: amount = (d.o[2] & 0x10) ? (int)(d.o[2] & 0x1F) - 32 : (int)(d.o[2] & 0x1F); break;
            case K_MODA4: case K_MODA3:
                amount = d.o[0] == MD_shr ? -1 : d.o[0] == MD_shr4 ? -4 : d.o[0] == MD_shl ? 1 : d.o[0] == MD_shl4 ? 4 : 0;
                has_amount = d.o[0] <= MD_shl4;
                break;
            case K_NORM: amount = 1; break;
            default: amount = a;
            }
        }
        // accumulators: boundary-biased against the operands the instruction will combine them with
        if (ki.grp <= G_PMOVE) {
            MM::s64 pr[2], pra[2];
            for (int u = 0; u < 2; ++u) {
                pr[u] = MM::read_product((u32)s.v[ix.p[u]], (unsigned)s.v[ix.pe[u]], (unsigned)s.v[ix.ps[u]]);
                pra[u] = MM::read_product_aligned((u32)s.v[ix.p[u]], (unsigned)s.v[ix.pe[u]], (unsigned)s.v[ix.ps[u]]);
            }
            for (int a = 0; a < 4; ++a) {
                if (!g.chance(1, 2))
                    continue;
                MM::i128 v = g.pick(kBoundary) + (MM::s64)g.below(5) - 2;
                for (int u = 0; u < 2; ++u) {
                    unsigned sel = (unsigned)g.below(6); // 0,1: none  2: +P 3: -P 4: +aligned 5: -aligned
                    if (sel == 2) v += pr[u];
                    else if (sel == 3) v -= pr[u];
                    else if (sel == 4) v += pra[u];
                    else if (sel == 5) v -= pra[u];
                }
                s.v[ix.acc[a]] = (u64)MM::reduce40(v);
            }
        } else if (has_amount && g.chance(1, 2)) {
            // values at the overflow / 32-bit saturation boundary of this very shift amount
            for (int a = 0; a < 4; ++a) {
                MM::s64 v;
                unsigned sel = (unsigned)g.below(4);
                if (amount >= 0 && amount <= 39 && sel < 2) {
                    MM::s64 lim = (MM::s64)1 << (39 - amount); // v*2^k fits 40 bits iff -lim <= v < lim
                    static const int dl[] = {-2, -1, 0, 1};
                    v = (g.chance(1, 2) ? lim : -lim) + g.pick(dl);
                } else if (amount >= 0 && amount <= 31 && sel == 2) {
                    MM::s64 lim = (MM::s64)1 << (31 - amount); // v*2^k fits 32 bits iff -lim <= v < lim
                    static const int dl[] = {-2, -1, 0, 1};
                    v = (g.chance(1, 2) ? lim : -lim) + g.pick(dl);
                } else if (amount < 0 && amount >= -39 && sel < 3) {
                    // right shifts: make the last bit shifted out and the bits around it interesting
                    MM::s64 bit = (MM::s64)1 << (-amount - 1);
                    v = (MM::s64)g.edge40();
                    v = g.chance(1, 2) ? (v | bit) : (v & ~bit);
                } else {
                    unsigned len = (unsigned)g.below(40);
                    v = len ? (MM::s64)g.bits(len) : 0;
                    if (g.chance(1, 2))
                        v = -v - 1;
                }
                s.v[ix.acc[a]] = (u64)MM::reduce40(v);
            }
        } else if (ki.grp == G_EXP || ki.grp == G_LIM || ki.grp == G_NORM) {
            for (int a = 0; a < 4; ++a) {
                if (!g.chance(2, 3))
                    continue;
                unsigned len = (unsigned)g.below(40);
                MM::s64 v = len ? (MM::s64)g.bits(len) : 0;
                if (g.chance(1, 2))
                    v = -v - 1;
                s.v[ix.acc[a]] = (u64)MM::reduce40(v);
            }
            for (int r = 0; r < 8; ++r)
                if (g.chance(1, 3)) {
                    unsigned len = (unsigned)g.below(17);
                    u16 w = len ? (u16)g.bits(len) : 0;
                    if (g.chance(1, 2))
                        w = (u16)~w;
                    if (!near_mmio(w))
                        s.v[ix.r[r]] = w;
                }
        }

        // ---------------------------------------------------------- model (plants memory as it reads)
        m.clean();
        e.v = s.v;
        Info in;
        Model md(ix, m, g, d, exp, s, e, in);
        md.run();
        e.v[ix.pc] = d.expanded ? 2 : 1;
        if (md.unsupported) {
            ++n_unsupported;
            continue;
        }

        // ---------------------------------------------------------- real step
        m.load(s);
        m.prog(0, d.opcode);
        if (d.expanded)
            m.prog(1, exp);
        RunResult rr = m.run(1);
        if (rr.outcome != OK) {
            ++n_skip[rr.outcome];
            if (ctx.verbose)
                std::fprintf(stderr, "case %" PRIu64 " %s: outcome %s (%s) -> skipped\n", c, d.text(exp).c_str(),
                             outcome_name(rr.outcome), rr.what.c_str());
            continue;
        }
        CaseState act = m.capture();

        // ---------------------------------------------------------- compare
        for (int i = 0; i < 8; ++i)
            if (md.mask[i])
                e.v[ix.fl[i]] = act.v[ix.fl[i]];
        int bad = -1;
        const char* cls = nullptr;
        auto chk = [&](int field, const char* c2) {
            if (bad < 0 && e.v[field] != act.v[field]) {
                bad = field;
                cls = c2;
            }
        };
        if (in.is_exp) chk(ix.sv, "sv");
        for (int a = 0; a < 4; ++a) chk(ix.acc[a], "acc");
        for (int u = 0; u < 2; ++u) { chk(ix.p[u], "product"); chk(ix.pe[u], "product-ext"); }
        for (int u = 0; u < 2; ++u) { chk(ix.x[u], "factor"); chk(ix.y[u], "factor"); }
        chk(ix.sv, "sv");
        for (int i = 0; i < 8; ++i) chk(ix.fl[i], kFlag[i]);
        bool frame_bad = false;
        if (bad < 0)
            for (size_t i = 0; i < NF; ++i)
                if (e.v[i] != act.v[i]) {
                    bad = (int)i;
                    frame_bad = true;
                    break;
                }
        // data memory: exactly the expected words written, with the expected final contents
        std::string mem_bad;
        {
            std::vector<std::pair<u16, u16>> fin;
            for (auto& w : md.writes) {
                bool found = false;
                for (auto& x : fin)
                    if (x.first == w.first) {
                        x.second = w.second;
                        found = true;
                    }
                if (!found)
                    fin.push_back(w);
            }
            size_t nw = 0;
            for (auto& ac : m.log()) {
                if (!ac.write)
                    continue;
                ++nw;
                bool ok = false;
                if (ac.addr >= kDataBase && ac.addr < kDataBase + 0x10000)
                    for (auto& x : fin)
                        ok |= x.first == (u16)(ac.addr - kDataBase);
                if (!ok && mem_bad.empty())
                    mem_bad = fmt("unexpected write at word 0x%x", ac.addr);
            }
            if (mem_bad.empty() && nw != md.writes.size())
                mem_bad = fmt("%zu words written, expected %zu", nw, md.writes.size());
            if (mem_bad.empty())
                for (auto& x : fin)
                    if (m.data(x.first) != x.second) {
                        mem_bad = fmt("data[0x%04x] = 0x%04x, expected 0x%04x", x.first, m.data(x.first), x.second);
                        break;
                    }
        }

        // ---------------------------------------------------------- what was exercised
        ++n_cases;
        ++n_kind[kind];
        ++n_grp[ki.grp];
        enc_seen[d.opcode] = 1;
        const AmtClass ac = amt_class(in.amount);
        for (int u = 0; u < 2; ++u) {
            if (in.ps_read[u] >= 0)
                ++n_ps[in.ps_read[u]];
            if (in.mult[u]) {
                ++mults;
                ++n_hwm[s.v[ix.hwm] & 3];
                hwm_nonzero += (s.v[ix.hwm] & 3) != 0;
                ++n_sign[(in.xs[u] ? 2 : 0) | (in.ys[u] ? 1 : 0)];
                pe_set += e.v[ix.pe[u]] != 0;
            }
        }
        pe_not_bit31 += in.pe_not_bit31;
        aligned_reads += in.aligned_read;
        if (in.acc_single) {
            ++mac_cases;
            mac_carry += in.carry;
            mac_overflow += in.overflow;
            mac_saturated += in.saturated;
        }
        if (in.acc_sum2) {
            ++sum2_cases;
            sum2_saturated += in.saturated;
            sum2_overflow += in.overflow;
        }
        if (ki.grp == G_PMOVE)
            move_saturated += in.saturated;
        if (kind == K_SHFC || kind == K_MODA4 || kind == K_MODA3)
            ++(in.active ? cond_true : cond_false);
        if (in.shifted) {
            ++shift_cases;
            ++n_amt[ac];
            shift_logical += in.logical;
            shift_overflow += in.overflow;
            shift_saturated += in.saturated;
            shift_carry += in.carry;
            shift_carry_unasserted += !in.carry_defined;
            shift_sat_keeps_sign += in.sat_sign_differs;
        }
        if (in.is_exp) {
            ++exp_cases;
            exp_negative += in.exp_result < 0;
            if (in.exp_result > 0 && (u64)in.exp_result > exp_max)
                exp_max = (u64)in.exp_result;
        }
        if (kind == K_NORM)
            norm_active += in.active;
        if (kind == K_LIM)
            lim_saturated += in.saturated;
        mem_write_cases += !md.writes.empty();
        mem_read_cases += !md.plants.empty();
        {
            // (family, sign mode/ps/hwm or amount class + modes, event class)
            u32 code;
            unsigned ps = in.ps_read[0] >= 0 ? (unsigned)in.ps_read[0] : in.ps_read[1] >= 0 ? (unsigned)in.ps_read[1] : 0;
            unsigned hw = (in.mult[0] || in.mult[1]) ? (unsigned)(s.v[ix.hwm] & 3) : 0;
            if (in.shifted)
                code = 1u << 28 | (u32)kind << 16 | (u32)ac << 8 | (u32)in.logical << 5 | (u32)(s.v[ix.sata] & 1) << 4 | in.ev();
            else if (in.is_exp)
                code = 2u << 28 | (u32)kind << 16 | (u32)((in.exp_result + 8) & 0x3F) << 4;
            else
                code = 3u << 28 | (u32)kind << 16 | (u32)(in.variant & 15) << 12 | ps << 8 | hw << 6 | (u32)in.active << 5 | in.ev();
            nt.insert(code);
        }

        // ---------------------------------------------------------- report
        auto report = [&](const std::string& key, const std::string& what) {
            JObj j;
            j.str("instruction", d.text(exp)).hexs("opcode", d.opcode).hexs("expansion", exp).str("family", ki.label);
            j.str("signature", ki.sig).str("variant", in.variant_name).num("active", in.active);
            j.num("sat", (s64)s.v[ix.sat]).num("sata", (s64)s.v[ix.sata]).num("s", (s64)s.v[ix.s]).num("hwm", (s64)s.v[ix.hwm]);
            j.num("ps0", (s64)s.v[ix.ps[0]]).num("ps1", (s64)s.v[ix.ps[1]]);
            if (in.shifted)
                j.num("shift_amount", in.amount).num("model_overflow", in.overflow).num("model_saturated", in.saturated)
                    .num("carry_asserted", in.carry_defined);
            std::string pl, wrs;
            for (auto& p2 : md.plants) pl += fmt("[%04x]=%04x ", p2.first, p2.second);
            for (auto& w2 : md.writes) wrs += fmt("[%04x]<-%04x ", w2.first, w2.second);
            j.str("memory_planted", pl).str("memory_writes_expected", wrs);
            j.str("expected_vs_actual", Diff(e, act));
            j.str("memory", mem_bad);
            j.raw("pre_state", StateJson(s));
            ctx.violation(key, what, c, j.done());
        };
        // key = site (group / handler) + failing field class + the one input mode that matters for it;
        // the multiplication variant (sign selection) is part of the key only for factor/product mismatches
        const bool mul_field = bad >= 0 && !frame_bad && cls &&
                               (!std::strcmp(cls, "product") || !std::strcmp(cls, "product-ext") || !std::strcmp(cls, "factor"));
        std::string site = fmt("%s/%s", kGrp[ki.grp], d.name);
        if (!in.variant_name.empty() && (mul_field || in.shifted || ki.grp == G_SHIFT))
            site += ":" + in.variant_name;
        std::string icls;
        if (in.shifted)
            icls = fmt("amount%s:%s", kAmt[ac], in.logical ? "logical" : "arith");
        else if (in.is_exp)
            icls = in.exp_result < 0 ? "exponent<0" : "exponent>=0";
        else if (mul_field)
            icls = fmt("hwm=%u", (unsigned)(s.v[ix.hwm] & 3));
        else if (in.ps_read[0] >= 0 || in.ps_read[1] >= 0)
            icls = fmt("ps=%d%s", in.ps_read[0] >= 0 ? in.ps_read[0] : in.ps_read[1], in.aligned_read ? ":aligned" : "");
        else
            icls = in.active ? "-" : "cond-false";
        if (bad >= 0 && !frame_bad)
            report(fmt("%s:%s:%s", site.c_str(), cls, icls.c_str()),
                   fmt("%s: %s (%s) expected %" PRIx64 " got %" PRIx64, d.text(exp).c_str(), cls, Fields()[bad].name, e.v[bad], act.v[bad]));
        else if (frame_bad)
            report(fmt("frame:%s:%s:%s", site.c_str(), Fields()[bad].name, in.active ? "active" : "inactive"),
                   fmt("%s: register %s outside the write-set changed: expected %" PRIx64 " got %" PRIx64, d.text(exp).c_str(),
                       Fields()[bad].name, e.v[bad], act.v[bad]));
        else if (!mem_bad.empty())
            report(fmt("memory:%s", site.c_str()), fmt("%s: %s", d.text(exp).c_str(), mem_bad.c_str()));

        if (ctx.verbose)
            std::fprintf(stderr, "case %" PRIu64 " %s [%s] variant=%s active=%d amount=%d diff{%s} mem{%s}\n", c,
                         d.text(exp).c_str(), ki.label, in.variant_name.c_str(), in.active, in.amount, Diff(e, act).c_str(),
                         mem_bad.c_str());
        if (c < 3)
            ctx.sample(JObj().num("case", (s64)c).str("instruction", d.text(exp)).hexs("opcode", d.opcode).str("family", ki.label)
                           .str("post_a0_a1_b0_b1", fmt("%" PRIx64 " %" PRIx64 " %" PRIx64 " %" PRIx64, act.v[ix.acc[0]], act.v[ix.acc[1]],
                                                        act.v[ix.acc[2]], act.v[ix.acc[3]]))
                           .str("post_x_y_p_pe", fmt("x=%04x,%04x y=%04x,%04x p=%08x,%08x pe=%u,%u", (unsigned)act.v[ix.x[0]],
                                                     (unsigned)act.v[ix.x[1]], (unsigned)act.v[ix.y[0]], (unsigned)act.v[ix.y[1]],
                                                     (unsigned)act.v[ix.p[0]], (unsigned)act.v[ix.p[1]], (unsigned)act.v[ix.pe[0]],
                                                     (unsigned)act.v[ix.pe[1]]))
                           .num("sv_post", (s64)act.v[ix.sv]).num("shift_amount", in.amount)
                           .str("flags_zmenc_v_vl_lm", fmt("%u%u%u%u%u%u%u%u", (unsigned)act.v[ix.fl[0]], (unsigned)act.v[ix.fl[1]],
                                                          (unsigned)act.v[ix.fl[2]], (unsigned)act.v[ix.fl[3]], (unsigned)act.v[ix.fl[4]],
                                                          (unsigned)act.v[ix.fl[5]], (unsigned)act.v[ix.fl[6]], (unsigned)act.v[ix.fl[7]]))
                           .done());
    }

    // -------------------------------------------------------------- flush
    ctx.count("cases", n_cases);
    for (unsigned k = 0; k < K_COUNT; ++k)
        ctx.count(std::string("fam_") + kKinds[k].label, n_kind[k]);
    for (unsigned k = 0; k < G_COUNT; ++k)
        ctx.count(std::string("group_") + kGrp[k], n_grp[k]);
    for (unsigned k = 0; k < 4; ++k) {
        ctx.count(fmt("product_reads_ps%u", k), n_ps[k]);
        ctx.count(fmt("multiplications_hwm%u", k), n_hwm[k]);
    }
    ctx.count("multiplications_x_unsigned_y_unsigned", n_sign[0]);
    ctx.count("multiplications_x_unsigned_y_signed", n_sign[1]);
    ctx.count("multiplications_x_signed_y_unsigned", n_sign[2]);
    ctx.count("multiplications_x_signed_y_signed", n_sign[3]);
    ctx.count("multiplications", mults);
    ctx.count("multiplications_hwm_nonzero", hwm_nonzero);
    ctx.count("products_pe_set", pe_set);
    ctx.count("products_pe_differs_from_bit31", pe_not_bit31);
    ctx.count("product_reads_aligned", aligned_reads);
    for (unsigned k = 0; k < AM_COUNT; ++k)
        ctx.count(std::string("shift_amount_") + kAmt[k], n_amt[k]);
    ctx.count("shift_cases", shift_cases);
    ctx.count("shift_logical_mode", shift_logical);
    ctx.count("shift_overflow", shift_overflow);
    ctx.count("shift_saturated", shift_saturated);
    ctx.count("shift_saturated_bound_sign_differs_from_result_sign", shift_sat_keeps_sign);
    ctx.count("shift_carry_set", shift_carry);
    ctx.count("shift_carry_not_asserted", shift_carry_unasserted);
    ctx.count("mac_cases", mac_cases);
    ctx.count("mac_carry", mac_carry);
    ctx.count("mac_overflow", mac_overflow);
    ctx.count("mac_saturated", mac_saturated);
    ctx.count("product_sum_cases", sum2_cases);
    ctx.count("product_sum_saturated", sum2_saturated);
    ctx.count("product_sum_exact_overflow", sum2_overflow);
    ctx.count("product_move_saturated", move_saturated);
    ctx.count("cond_true", cond_true);
    ctx.count("cond_false", cond_false);
    ctx.count("exp_cases", exp_cases);
    ctx.count("exp_negative_result", exp_negative);
    ctx.maxv("exp_max_result", exp_max);
    ctx.count("norm_active", norm_active);
    ctx.count("lim_saturated", lim_saturated);
    ctx.count("memory_write_cases", mem_write_cases);
    ctx.count("memory_read_cases", mem_read_cases);
    ctx.count("skipped_unimplemented", n_skip[UNIMPL]);
    ctx.count("skipped_assert", n_skip[ASSERT_]);
    ctx.count("skipped_other", n_skip[OOB] + n_skip[OTHER_EXC]);
    ctx.count("skipped_model_unsupported", n_unsupported);
    ctx.maxv("encodings_listed", enc_total);
    ctx.maxv("encodings_excluded_status_or_pc_operand", excluded[1]);
    ctx.maxv("encodings_excluded_other_operation", excluded[2]);
    ctx.maxv("encodings_excluded_unimplemented_40bit_operand", excluded[3]);
    ctx.maxv("schedule_slots", S);
    for (u32 op = 0; op < 0x10000; ++op)
        if (enc_seen[op])
            ctx.seen("enc", fmt("%04x", op));
    for (u32 code : nt) {
        unsigned kind = (code >> 16) & 0xFF;
        if ((code >> 28) == 1)
            ctx.seen("nt", fmt("%s/amount%s/%s/sata=%u/%s", kKinds[kind].label, kAmt[(code >> 8) & 7], (code >> 5) & 1 ? "logical" : "arith",
                               (code >> 4) & 1, kEv[code & 3]));
        else if ((code >> 28) == 2)
            ctx.seen("nt", fmt("%s/exp=%d", kKinds[kind].label, (int)((code >> 4) & 0x3F) - 8));
        else
            ctx.seen("nt", fmt("%s/v%u/ps%u/hwm%u/%s/%s", kKinds[kind].label, (code >> 12) & 15, (code >> 8) & 3, (code >> 6) & 3,
                               (code >> 5) & 1 ? "active" : "inactive", kEv[code & 3]));
    }
    return ctx.finish();
}
