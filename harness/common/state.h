// Field-by-field view of Teakra::RegisterState (public members only), with hardware widths.
// Never memcpy: padding, private shadow members and layout refactors must not matter.
#pragma once
#include <array>
#include <cstring>
#include <string>
#include <vector>
#include "register.h"
#include "worker.h"

namespace vf {

struct FieldDesc {
    const char* name;
    unsigned width; // bits; 40 => accumulator stored sign-extended in 64 bits
    u64 (*get)(const Teakra::RegisterState&);
    void (*set)(Teakra::RegisterState&, u64);
};

#define VF_S(name, w)                                                                              \
    FieldDesc{#name, w, [](const Teakra::RegisterState& r) -> u64 { return (u64)r.name; },         \
              [](Teakra::RegisterState& r, u64 v) { r.name = (decltype(r.name))v; }},
#define VF_A(name, i, w)                                                                           \
    FieldDesc{#name "[" #i "]", w,                                                                 \
              [](const Teakra::RegisterState& r) -> u64 { return (u64)r.name[i]; },                \
              [](Teakra::RegisterState& r, u64 v) {                                                \
                  r.name[i] = (std::remove_reference_t<decltype(r.name[i])>)v;                     \
              }},
#define VF_A2(name, w) VF_A(name, 0, w) VF_A(name, 1, w)
#define VF_A3(name, w) VF_A2(name, w) VF_A(name, 2, w)
#define VF_A4(name, w) VF_A3(name, w) VF_A(name, 3, w)
#define VF_A5(name, w) VF_A4(name, w) VF_A(name, 4, w)
#define VF_A8(name, w) VF_A4(name, w) VF_A(name, 4, w) VF_A(name, 5, w) VF_A(name, 6, w) VF_A(name, 7, w)
#define VF_BK(i)                                                                                   \
    FieldDesc{"bkrep_stack[" #i "].start", 18,                                                     \
              [](const Teakra::RegisterState& r) -> u64 { return r.bkrep_stack[i].start; },        \
              [](Teakra::RegisterState& r, u64 v) { r.bkrep_stack[i].start = (u32)v; }},           \
        FieldDesc{"bkrep_stack[" #i "].end", 18,                                                   \
                  [](const Teakra::RegisterState& r) -> u64 { return r.bkrep_stack[i].end; },      \
                  [](Teakra::RegisterState& r, u64 v) { r.bkrep_stack[i].end = (u32)v; }},         \
        FieldDesc{"bkrep_stack[" #i "].lc", 16,                                                    \
                  [](const Teakra::RegisterState& r) -> u64 { return r.bkrep_stack[i].lc; },       \
                  [](Teakra::RegisterState& r, u64 v) { r.bkrep_stack[i].lc = (u16)v; }},

inline const std::vector<FieldDesc>& Fields() {
    static const std::vector<FieldDesc> f = {
        // clang-format off
        VF_S(pc, 18) VF_S(prpage, 4) VF_S(cpc, 1)
        VF_S(repc, 16) VF_S(repcs, 16) VF_S(rep, 1) VF_S(crep, 1)
        VF_S(bcn, 3) VF_S(lp, 1)
        VF_BK(0) VF_BK(1) VF_BK(2) VF_BK(3)
        VF_A2(a, 40) VF_A2(b, 40) VF_S(a1s, 40) VF_S(b1s, 40) VF_S(ccnta, 1)
        VF_S(sat, 1) VF_S(sata, 1) VF_S(s, 1) VF_S(sv, 16)
        VF_S(fz, 1) VF_S(fm, 1) VF_S(fn, 1) VF_S(fv, 1) VF_S(fe, 1) VF_S(fc0, 1) VF_S(fc1, 1)
        VF_S(flm, 1) VF_S(fvl, 1) VF_S(fr, 1)
        VF_S(vtr0, 16) VF_S(vtr1, 16)
        VF_A2(x, 16) VF_A2(y, 16) VF_S(hwm, 2) VF_A2(p, 32) VF_A2(pe, 1) VF_A2(ps, 2)
        VF_S(p0h_cbs, 16)
        VF_A8(r, 16) VF_S(mixp, 16) VF_S(sp, 16) VF_S(page, 8) VF_S(pcmhi, 2)
        VF_S(r0b, 16) VF_S(r1b, 16) VF_S(r4b, 16) VF_S(r7b, 16)
        VF_S(stepi, 7) VF_S(stepj, 7) VF_S(modi, 9) VF_S(modj, 9) VF_S(stepi0, 16) VF_S(stepj0, 16)
        VF_S(stepib, 7) VF_S(stepjb, 7) VF_S(modib, 9) VF_S(modjb, 9) VF_S(stepi0b, 16) VF_S(stepj0b, 16)
        VF_A8(m, 1) VF_A8(br, 1) VF_S(stp16, 1) VF_S(cmd, 1) VF_S(epi, 1) VF_S(epj, 1)
        VF_A4(arstep, 3) VF_A4(arpstepi, 3) VF_A4(arpstepj, 3)
        VF_A4(aroffset, 2) VF_A4(arpoffseti, 2) VF_A4(arpoffsetj, 2)
        VF_A4(arrn, 3) VF_A4(arprni, 2) VF_A4(arprnj, 2)
        VF_A3(ip, 1) VF_S(ipv, 1) VF_A3(im, 1) VF_S(imv, 1) VF_A3(ic, 1) VF_S(nimc, 1) VF_S(ie, 1)
        VF_A5(ou, 1) VF_A2(iu, 1) VF_A4(ext, 16) VF_S(mod0_unk_const, 3)
        // clang-format on
    };
    return f;
}

inline int FieldIndex(const std::string& name) {
    auto& f = Fields();
    for (size_t i = 0; i < f.size(); ++i)
        if (name == f[i].name)
            return (int)i;
    std::fprintf(stderr, "unknown field %s\n", name.c_str());
    std::abort();
}

struct CaseState {
    std::vector<u64> v;
    CaseState() : v(Fields().size(), 0) {}
    u64& operator[](const char* name) { return v[FieldIndex(name)]; }
    u64 at(const char* name) const { return v[FieldIndex(name)]; }
};

inline u64 mask_width(u64 v, unsigned w) {
    if (w == 40)
        return sext(v, 40);
    return w >= 64 ? v : (v & ((1ull << w) - 1));
}

inline CaseState Capture(const Teakra::RegisterState& r) {
    CaseState s;
    auto& f = Fields();
    for (size_t i = 0; i < f.size(); ++i)
        s.v[i] = f[i].get(r);
    return s;
}
inline void Apply(const CaseState& s, Teakra::RegisterState& r) {
    auto& f = Fields();
    for (size_t i = 0; i < f.size(); ++i)
        f[i].set(r, s.v[i]);
}
inline CaseState DefaultState() {
    Teakra::RegisterState r;
    r = Teakra::RegisterState();
    return Capture(r);
}

inline std::string Diff(const CaseState& a, const CaseState& b, size_t limit = 12) {
    std::string o;
    auto& f = Fields();
    size_t n = 0;
    for (size_t i = 0; i < f.size(); ++i)
        if (a.v[i] != b.v[i]) {
            if (n++ < limit)
                o += fmt("%s:%" PRIx64 "!=%" PRIx64 " ", f[i].name, a.v[i], b.v[i]);
        }
    if (n > limit)
        o += fmt("(+%zu more)", n - limit);
    return o;
}
inline std::string StateJson(const CaseState& s, bool nonzero_only = true) {
    JObj j;
    auto& f = Fields();
    for (size_t i = 0; i < f.size(); ++i)
        if (!nonzero_only || s.v[i])
            j.raw(f[i].name, jstr(fmt("%" PRIx64, s.v[i])));
    return j.done();
}
inline u64 Hash(const CaseState& s, u64 h = 0x1234) {
    for (u64 x : s.v)
        h = mix(h, x);
    return h;
}

struct StateGenOpts {
    bool loops = false;     // allow lp/bcn/rep active
    bool any_pc = false;    // else pc = 0
    u32 pc = 0;
    bool random_ints = false; // random ip/ie/im (else 0 so no interrupt entry happens)
};

// Well-formed random state: every field within its width, accumulators sign-extended from bit 39,
// lp == (bcn != 0), bcn <= 4, prpage == 0, mod0_unk_const == 1.
// Relations between independent registers that uniform and boundary-biased draws never produce, but real programs do:
//   * two registers of the same width holding the SAME value (x0 == x1, y0 == y1, a pointer equal to another ...)
//   * a product register that is consistent with its factor registers (the state right after a multiply)
// Applied to a fraction of the generated states; only plain data fields are touched.
inline void BiasRelations(Rng& g, CaseState& s) {
    auto& f = Fields();
    auto idx = [&](const char* n) { return (size_t)FieldIndex(n); };
    if (g.chance(1, 4)) { // one or two pairs of equal 16-bit registers
        static const char* pool16[] = {"x[0]", "x[1]", "y[0]", "y[1]", "r[0]", "r[1]", "r[2]", "r[3]", "r[4]", "r[5]", "r[6]", "r[7]",
                                       "sv", "mixp", "stepi0", "stepj0", "p0h_cbs"};
        unsigned pairs = 1 + (unsigned)g.below(2);
        for (unsigned k = 0; k < pairs; ++k) {
            if (g.chance(1, 2)) { // both multiplier units see the same factors
                s.v[idx("x[1]")] = s.v[idx("x[0]")];
                s.v[idx("y[1]")] = s.v[idx("y[0]")];
            } else {
                size_t a = idx(g.pick(pool16)), b = idx(g.pick(pool16));
                s.v[b] = s.v[a];
            }
        }
    }
    if (g.chance(1, 4)) { // accumulator halves / whole accumulators equal
        static const char* acc[] = {"a[0]", "a[1]", "b[0]", "b[1]"};
        size_t a = idx(g.pick(acc)), b = idx(g.pick(acc));
        if (g.chance(1, 2))
            s.v[b] = s.v[a];
        else { // high half == low half
            u64 lo = s.v[a] & 0xFFFF;
            s.v[a] = mask_width((s.v[a] & ~0xFFFF0000ull) | (lo << 16), 40);
        }
    }
    if (g.chance(1, 4)) { // product registers as a signed x signed multiply of the current factors would leave them
        for (int u = 0; u < 2; ++u) {
            if (!g.chance(2, 3))
                continue;
            s64 x = (s16)s.v[idx(u ? "x[1]" : "x[0]")], y = (s16)s.v[idx(u ? "y[1]" : "y[0]")];
            if (g.chance(1, 4)) { // unsigned x unsigned
                x = (u16)x;
                y = (u16)y;
            }
            s64 p = x * y;
            s.v[idx(u ? "p[1]" : "p[0]")] = (u32)p;
            s.v[idx(u ? "pe[1]" : "pe[0]")] = (u64)((p >> 32) & 1);
        }
    }
    (void)f;
}

inline CaseState RandomState(Rng& g, const StateGenOpts& o = {}) {
    CaseState s;
    auto& f = Fields();
    for (size_t i = 0; i < f.size(); ++i) {
        unsigned w = f[i].width;
        u64 v;
        if (w == 40)
            v = g.edge40();
        else if (w == 16)
            v = g.edge16();
        else if (w == 32)
            v = g.chance(1, 4) ? (u64)(u32)g.edge40() : g.bits(32);
        else
            v = g.bits(w);
        s.v[i] = mask_width(v, w);
    }
    s["prpage"] = 0;
    s["mod0_unk_const"] = 1;
    BiasRelations(g, s);
    if (g.chance(1, 3)) { // shift-amount register: boundary amounts of the 40-bit shifter
        static const s64 amounts[] = {0, 1, 2, 15, 16, 17, 31, 32, 33, 38, 39, 40, 41, 47, 48, 63, 64, 127, 128, 0x7FFF};
        s64 a = g.pick(amounts);
        s["sv"] = (u64)((g.chance(1, 2) ? a : -a) & 0xFFFF);
    }
    s["pc"] = o.any_pc ? g.below(0x3FFFE) : o.pc;
    if (o.loops) {
        u64 bcn = g.below(5);
        s["bcn"] = bcn;
        s["lp"] = bcn != 0;
        s["rep"] = g.chance(1, 8);
    } else {
        s["bcn"] = 0;
        s["lp"] = 0;
        s["rep"] = 0;
    }
    if (!o.random_ints) {
        s["ie"] = 0;
        for (const char* n : {"ip[0]", "ip[1]", "ip[2]", "ipv"})
            s[n] = 0;
    }
    return s;
}

// HISTORY between cases: harnesses keep one interpreter alive across cases, so whatever it remembers between steps is
// part of what they observe. To give such hidden state a chance to matter, cases come in groups that share a "group
// state"; MixSticky overwrites each field of a fresh state with the group's value with probability num/den
// (independently per field), so that consecutive cases agree bit for bit on most registers and differ in a few.
// Fields whose combinations are constrained (program counter, loop / repeat / interrupt machinery) always stay fresh.
inline void MixSticky(Rng& g, CaseState& fresh, const CaseState& group, unsigned num = 3, unsigned den = 4) {
    auto& f = Fields();
    for (size_t i = 0; i < f.size(); ++i) {
        const char* n = f[i].name;
        bool structural = !std::strcmp(n, "pc") || !std::strcmp(n, "prpage") || !std::strcmp(n, "bcn") || !std::strcmp(n, "lp") ||
                          !std::strcmp(n, "rep") || !std::strcmp(n, "ie") || !std::strncmp(n, "ip", 2) || !std::strncmp(n, "bkrep", 5) ||
                          !std::strcmp(n, "mod0_unk_const");
        bool keep = g.chance(num, den); // drawn for every field so that the stream does not depend on the names
        if (keep && !structural)
            fresh.v[i] = group.v[i];
    }
}

} // namespace vf
