#!/usr/bin/env python3
"""Generate the handler-name list of the recording visitor from the tree's own decode table."""
import re, sys
src = open(sys.argv[1]).read()
names = []
for m in re.finditer(r'\bINST\(\s*([A-Za-z_][A-Za-z0-9_]*)\s*,', src):
    n = m.group(1)
    if n == "name":
        continue
    if n not in names:
        names.append(n)
with open(sys.argv[2], "w") as f:
    for n in names:
        f.write("VF_REC_HANDLER(%s)\n" % n)
