// Single-instruction / small-program execution rig on the bare interpreter (the arrangement of
// src/test_verifier/main.cpp), with the H2 memory observer as access log and bounds oracle.
#pragma once
#include <algorithm>
#include <map>
#include <vector>
#include "core_shim.h"
#include "rec.h"
#include "state.h"
#include "verif_hooks.h"
#include "worker.h"

namespace vf {

struct MemAccess {
    u32 addr; // word address in the 0x40000-word shared array (program: < 0x20000; data: >= 0x20000)
    bool write;
    u16 value; // value written (writes) / 0 (reads: fill in from memory if needed)
};

struct MemLog {
    std::vector<MemAccess> log;
    bool enabled = false;
    bool veto_oob = true;
    u64 oob_seen = 0;
    static MemLog& I() {
        static thread_local MemLog m;
        return m;
    }
    static void Observer(const Teakra::SharedMemory*, std::uint32_t a, bool w, std::uint16_t v) {
        MemLog& m = I();
        if ((u64)a * 2 + 1 >= 0x80000) {
            ++m.oob_seen;
            if (m.veto_oob)
                throw OobVeto{a, w};
        }
        if (m.enabled)
            m.log.push_back({a, w, v});
    }
    static void Install() { Teakra::Verif::mem_observer = &MemLog::Observer; }
};

// pre-fill pattern of data memory: bijective on 16 bits for any odd multiplier. A harness may re-salt it (before it
// constructs a Machine) so that different workers/seeds run on different memory contents.
inline u32 g_data_pattern_mul = 0x9E37u, g_data_pattern_add = 0x1234u;
inline u16 DataPattern(u32 a) { return (u16)(a * g_data_pattern_mul + g_data_pattern_add); }
inline u16 ProgPattern(u32 a) { return (u16)(a * 0x6C8Fu + 0x4321u); }

constexpr u32 kDataBase = 0x20000;

struct Machine {
    BareCore core;
    std::vector<u32> dirty; // words written since the last clean()

    bool prog_pattern; // program area filled with ProgPattern instead of zeros (nop)
    u16 pristine(u32 a) const {
        return a < kDataBase ? (prog_pattern ? ProgPattern(a) : 0) : DataPattern(a - kDataBase);
    }
    explicit Machine(bool prog_pattern_ = false) : prog_pattern(prog_pattern_) {
        MemLog::Install();
        for (u32 a = 0; a < 0x40000; ++a)
            raw_write(a, pristine(a));
    }
    u8* raw() { return core.shared_memory.raw; }
    u16 raw_read(u32 a) { return (u16)(raw()[a * 2] | (raw()[a * 2 + 1] << 8)); }
    void raw_write(u32 a, u16 v) {
        raw()[a * 2] = (u8)v;
        raw()[a * 2 + 1] = (u8)(v >> 8);
    }
    // restore memory words touched by previous cases (program area -> 0, data -> pattern)
    void clean() {
        for (u32 a : dirty)
            if (a < 0x40000)
                raw_write(a, pristine(a));
        dirty.clear();
    }
    void prog(u32 addr, u16 w) {
        raw_write(addr, w);
        dirty.push_back(addr);
    }
    void data(u16 addr, u16 w) { // bank 0
        raw_write(kDataBase + addr, w);
        dirty.push_back(kDataBase + addr);
    }
    u16 data(u16 addr) { return raw_read(kDataBase + addr); }
    void load(const CaseState& s) {
        core.regs = Teakra::RegisterState();
        Apply(s, core.regs);
    }
    CaseState capture() { return Capture(core.regs); }

    // run n cycles with the access log on; written words are remembered for clean()
    RunResult run(u64 cycles = 1) {
        MemLog& m = MemLog::I();
        m.log.clear();
        m.enabled = true;
        RunResult r = core.Run(cycles);
        m.enabled = false;
        for (auto& a : m.log)
            if (a.write)
                dirty.push_back(a.addr);
        return r;
    }
    const std::vector<MemAccess>& log() const { return MemLog::I().log; }
};

// ------------------------------------------------------------------ encodings by handler name
struct Encoding {
    u16 opcode;
    bool expanded;
    Form form; // decoded with expansion word 0
};

struct Encodings {
    RecTable table;
    std::vector<Encoding> all; // index = opcode
    std::map<std::string, std::vector<u16>> by_name;
    Encodings() {
        all.resize(0x10000);
        for (u32 op = 0; op < 0x10000; ++op) {
            Encoding e;
            e.opcode = (u16)op;
            table.Decode((u16)op, 0, e.form, e.expanded);
            all[op] = e;
            by_name[e.form.name].push_back((u16)op);
        }
    }
    const std::vector<u16>& of(const std::string& name) const {
        static const std::vector<u16> none;
        auto it = by_name.find(name);
        return it == by_name.end() ? none : it->second;
    }
    Form decode(u16 op, u16 exp) const {
        Form f;
        bool e;
        table.Decode(op, exp, f, e);
        return f;
    }
};

} // namespace vf
