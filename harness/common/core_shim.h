// Thin wrapper around the real Interpreter so that harnesses need not include interpreter.h
// (which costs ~15 s per translation unit). Compiled once per build flavour.
#pragma once
#include <cstdint>
#include <memory>
#include <string>
#include "common_types.h"
#include "core_timing.h"
#include "memory_interface.h"
#include "register.h"
#include "shared_memory.h"

namespace vf {

enum Outcome : int { OK = 0, UNIMPL = 1, ASSERT_ = 2, OOB = 3, OTHER_EXC = 4 };
inline const char* outcome_name(int o) {
    static const char* n[] = {"ok", "unimplemented", "assert", "oob", "other-exception"};
    return (o >= 0 && o <= 4) ? n[o] : "?";
}

// thrown by the bounds observer (harness side) to veto an out-of-array access
struct OobVeto {
    std::uint32_t word_address;
    bool is_write;
};

struct RunResult {
    int outcome = OK;
    std::string what; // assertion expression / exception text
};

struct InterpHolder; // owns the Interpreter

// Exactly the arrangement of src/test_verifier/main.cpp: bare interpreter + memory, no MMIO.
struct BareCore {
    Teakra::CoreTiming core_timing;
    Teakra::SharedMemory shared_memory;
    Teakra::MemoryInterfaceUnit miu;
    // constructed in zero-filled storage: MemoryInterface leaves its MMIO pointer uninitialised when
    // SetMMIO is never called; zero makes an access to the MMIO window a deterministic ASSERT outcome
    void* mem_storage;
    Teakra::MemoryInterface& mem;
    Teakra::RegisterState regs;
    std::unique_ptr<InterpHolder> interp;

    BareCore();
    ~BareCore();
    RunResult Run(std::uint64_t cycles);
    void SignalInterrupt(std::uint32_t i);
    void SignalVectoredInterrupt(std::uint32_t address, bool context_switch);
};

// Runs f(), classifying the documented endings. Used for API calls on a Teakra facade too.
template <typename F>
RunResult Classify(F&& f);

// decoder-table facts of the *Interpreter* instantiation
const char* InterpHandlerName(std::uint16_t opcode);
bool InterpNeedExpansion(std::uint16_t opcode);

} // namespace vf

#include "crash.h"
#include <stdexcept>
namespace vf {
bool IsUnimplemented(const std::exception& e);
template <typename F>
RunResult Classify(F&& f) {
    RunResult r;
    try {
        f();
    } catch (const OobVeto& v) {
        r.outcome = OOB;
        r.what = (v.is_write ? "write@" : "read@") + std::to_string(v.word_address);
    } catch (const TeakraVerifAssertion& a) {
        r.outcome = ASSERT_;
        r.what = a.expression;
    } catch (const std::exception& e) {
        r.outcome = IsUnimplemented(e) ? UNIMPL : OTHER_EXC;
        r.what = e.what();
    } catch (...) {
        r.outcome = OTHER_EXC;
        r.what = "unknown";
    }
    return r;
}
} // namespace vf
