// Streams the records of the tree's own hardware-test generator (Teakra::Test::GenerateTestCasesToFile)
// through a pipe: a forked child writes to /proc/self/fd/N, the caller consumes 4312-byte TestCase
// records. The generator seeds itself from std::random_device, so each pass is a fresh workload; a
// failing record is itself the witness.
#pragma once
#include <sys/wait.h>
#include <unistd.h>
#include <functional>
#include "common_types.h"
#include "test.h"
#include "test_generator.h"
#include "worker.h"

namespace vf {

// returns number of records consumed, or -1 if the generator failed
inline long ForEachGeneratedCase(const std::function<bool(const TestCase&, long index)>& fn, int passes = 1) {
    int fds[2];
    if (pipe(fds) != 0)
        return -1;
    pid_t pid = fork();
    if (pid == 0) {
        close(fds[0]);
        char path[64];
        std::snprintf(path, sizeof path, "/proc/self/fd/%d", fds[1]);
        bool ok = true;
        try {
            // all passes in one child so that the generator's PRNG keeps advancing between passes
            for (int i = 0; i < passes && ok; ++i)
                ok = Teakra::Test::GenerateTestCasesToFile(path);
        } catch (...) {
            ok = false;
        }
        _exit(ok ? 0 : 3);
    }
    close(fds[1]);
    long n = 0;
    static TestCase tc;
    bool keep = true;
    while (true) {
        size_t got = 0;
        char* p = reinterpret_cast<char*>(&tc);
        while (got < sizeof(TestCase)) {
            ssize_t r = read(fds[0], p + got, sizeof(TestCase) - got);
            if (r <= 0)
                break;
            got += (size_t)r;
        }
        if (got != sizeof(TestCase))
            break;
        if (keep)
            keep = fn(tc, n);
        ++n;
    }
    close(fds[0]);
    int status = 0;
    waitpid(pid, &status, 0);
    if (!WIFEXITED(status) || (WEXITSTATUS(status) != 0 && keep))
        return -1;
    return n;
}

} // namespace vf
