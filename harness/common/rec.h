// Generic recording visitor: compiles against the tree's own GetDecodeTable<V>() and records, for any
// opcode, the handler name and the extracted operand values. The handler list is generated from the
// INST( ) entries of the tree being built (gen_rec.py).
#pragma once
#include <string>
#include <type_traits>
#include <typeinfo>
#include <vector>
#include "decoder.h"
#include "operand.h"
#include "worker.h"

namespace vf {

template <unsigned bits>
struct OperandPeek : Operand<bits> {
    static u16 get(const Operand<bits>& o) { return o.*(&OperandPeek::storage); }
};
template <unsigned bits>
inline u64 OperandRaw(const Operand<bits>& o) { return OperandPeek<bits>::get(o); }

struct Form {
    const char* name = "";
    // (type tag hash, value) per operand, in handler-parameter order
    std::vector<std::pair<u32, u64>> ops;
    bool operator==(const Form& o) const { return std::string(name) == o.name && ops == o.ops; }
    bool operator<(const Form& o) const {
        int c = std::string(name).compare(o.name);
        if (c)
            return c < 0;
        return ops < o.ops;
    }
    std::string str() const {
        std::string s = name;
        s += "(";
        for (size_t i = 0; i < ops.size(); ++i)
            s += fmt("%s%" PRIx64, i ? "," : "", ops[i].second);
        return s + ")";
    }
};

struct Rec {
    using instruction_return_type = void;
    Form form;

    template <typename T>
    void one(const T& t) {
        // the operand TYPE is part of the form: add(Bx,Ax) and add(Px,Bx) are different overloads
        static const u32 tag = [] {
            u32 h = 2166136261u;
            for (const char* p = typeid(T).name(); *p; ++p)
                h = (h ^ (unsigned char)*p) * 16777619u;
            return h;
        }();
        if constexpr (std::is_enum_v<T> || std::is_integral_v<T>) {
            form.ops.emplace_back(tag, (u64)t);
        } else {
            form.ops.emplace_back(tag, OperandRaw<T::Bits>(t));
        }
    }
    template <typename... T>
    void record(const char* n, const T&... t) {
        form.name = n;
        form.ops.clear();
        (one(t), ...);
    }
    void undefined(u16) { record("undefined"); }

#define VF_REC_HANDLER(n)                                                                          \
    template <typename... T>                                                                       \
    void n(T... t) { record(#n, t...); }
#include "rec_names.inc"
#undef VF_REC_HANDLER
};

struct RecTable {
    std::vector<Matcher<Rec>> rows = GetDecodeTable<Rec>();
    // number of rows matching, and the form of the first match
    int Matches(u16 opcode) const {
        int n = 0;
        for (auto& r : rows)
            n += r.Matches(opcode);
        return n;
    }
    // returns false if undefined; second word passed for operands at position 16
    bool Decode(u16 opcode, u16 expansion, Form& out, bool& expanded) const {
        for (auto& r : rows)
            if (r.Matches(opcode)) {
                Rec rec;
                r.call(rec, opcode, expansion);
                out = rec.form;
                expanded = r.NeedExpansion();
                return true;
            }
        Rec rec;
        rec.undefined(opcode);
        out = rec.form;
        expanded = false;
        return false;
    }
};

} // namespace vf
