// Generated guest programs (fixed opcode constants, no use of the tree's assembler) and host event schedules,
// shared by the slicing monitor (C06) and the history monitors (C17).
#pragma once
#include <string>
#include <vector>
#include "worker.h"

namespace vf {

// ---- fixed opcode constants (mnemonics per src/decoder.h / disassembler) ----
constexpr u16 NOP = 0x0000;
constexpr u16 BR = 0x4180;          // br addr18 (second word = low 16 bits), cond always
constexpr u16 BRR_M1 = 0x57F0;      // brr -1, always   (idle loop)
constexpr u16 INC_A0 = 0x67D0;      // inc a0
constexpr u16 INC_A1 = 0x77D0;      // inc a1
constexpr u16 MOV_I_SP = 0x5E0D;    // mov #imm16, sp
constexpr u16 MOV_I_R1 = 0x5E01;    // mov #imm16, r1
constexpr u16 MOV_I_A0L = 0x5E1A;   // mov #imm16, a0l
constexpr u16 MOV_I_A1L = 0x5E1B;   // mov #imm16, a1l
constexpr u16 MOV_A0L_M = 0xD4BC;   // mov a0l, [imm16]
constexpr u16 MOV_A1L_M = 0xD5BC;   // mov a1l, [imm16]
constexpr u16 MOV_M_A1 = 0xD5B8;    // mov [imm16], a1
constexpr u16 MOV_A1L_R1P = 0x1B69; // mov a1l, [r1]+
constexpr u16 MOV_I_MOD3 = 0x0037;  // mov #imm16, mod3
constexpr u16 RETI = 0x45C0;        // reti always
constexpr u16 RETIC = 0x45D0;       // retic always
constexpr u16 EINT = 0x4380;
constexpr u16 DINT = 0x43C0;

constexpr u16 MMIO = 0x8000;

struct Prog {
    std::vector<std::pair<u32, u16>> words;
    u32 at = 0;
    void org(u32 a) { at = a; }
    void w(u16 x) { words.push_back({at++, x}); }
    void w2(u16 a, u16 b) {
        w(a);
        w(b);
    }
    void store_a0l(u16 addr, u16 value) { // mov #value,a0l ; mov a0l,[addr]
        w2(MOV_I_A0L, value);
        w2(MOV_A0L_M, addr);
    }
    void store_a1l(u16 addr, u16 value) {
        w2(MOV_I_A1L, value);
        w2(MOV_A1L_M, addr);
    }
};

struct HostEvent {
    int kind; // 0 SendData, 1 SetSemaphore, 2 RecvData, 3 ClearSemaphore, 4 software trigger via MMIO 0x204, 5 GetSemaphore, 6 MaskSemaphore
    u16 a, b;
};

struct Plan {
    Prog prog;
    std::vector<u32> interval; // cycles per interval
    std::vector<std::vector<HostEvent>> events; // applied after interval i
    std::string desc;
    std::string shape; // coarse class of the program, for distinct-case counting
};


inline Plan make_plan(Rng& g) {
    Plan pl;
    Prog& p = pl.prog;
    const u32 H[3] = {0x0200, 0x0240, 0x0280};
    const u32 HV = 0x0300;
    p.org(0);
    p.w2(BR, 0x0100);
    for (int i = 0; i < 3; ++i) {
        p.org(0x0006 + 8 * i);
        p.w2(BR, (u16)H[i]);
    }
    // ---- configuration choices
    bool ctx[3] = {g.chance(1, 4), g.chance(1, 4), g.chance(1, 4)};
    bool vctx = g.chance(1, 3);
    u16 en[3] = {0, 0, 0}, env = 0;
    // route the interesting IRQs (timer0=10, timer1=9, btdmp=11, apbp=14, software 0..3) to random lines
    const int irqs[] = {10, 9, 11, 14, 0, 1, 2, 3};
    for (int irq : irqs) {
        unsigned sel = (unsigned)g.below(6);
        if (sel < 3)
            en[sel] |= (u16)(1u << irq);
        else if (sel == 3)
            env |= (u16)(1u << irq);
        else if (sel == 4) { // routed to two lines
            en[g.below(3)] |= (u16)(1u << irq);
            env |= (u16)(1u << irq);
        } // else unrouted
    }
    unsigned nmain = (unsigned)g.below(12); // inc a0 count before the idle loop
    bool use_idle = g.chance(8, 10);
    bool far_loop = false;
    // timers
    struct TCfg {
        bool on;
        unsigned mode;
        u32 start;
        unsigned events;
    } tc[2];
    // number of cycles from the timer restart to the first execution of brr -1 is only known after layout;
    // edge starts are picked from a window around the expected distance below
    for (int i = 0; i < 2; ++i) {
        tc[i].on = g.chance(3, 4);
        tc[i].mode = (unsigned)g.below(4);
        unsigned s = (unsigned)g.below(10);
        tc[i].start = s < 2 ? (u32)g.below(3) : s < 6 ? (u32)g.range(3, 80) : s < 8 ? (u32)g.range(80, 3000) : s < 9 ? 0x10000 + (u32)g.below(4) : (u32)g.range(3000, 40000);
        tc[i].events = tc[i].mode == 3 ? (unsigned)g.below(5) : 0;
        if (tc[i].mode == 3)
            tc[i].start = (u32)g.range(0, 4);
    }
    bool audio = g.chance(1, 2);
    unsigned audio_words = audio ? (unsigned)g.below(17) : 0;
    bool audio_refill = g.chance(1, 2);

    // ---- init code
    p.org(0x0100);
    p.w2(MOV_I_SP, 0x0FF0);
    p.w2(MOV_I_R1, 0x2000);
    // vectors first, enables afterwards (as real firmware does): a host event that arrives in the middle of
    // the init code must not be routed through a vector that was never written (uninitialised ICU state is
    // property C17's subject, not this one's)
    for (int irq : irqs) {
        if (env & (1u << irq)) {
            p.store_a0l((u16)(MMIO + 0x212 + irq * 4), (u16)((vctx ? 0x8000 : 0) | 0));
            p.store_a0l((u16)(MMIO + 0x214 + irq * 4), (u16)HV);
        }
    }
    p.store_a0l(MMIO + 0x206, en[0]);
    p.store_a0l(MMIO + 0x208, en[1]);
    p.store_a0l(MMIO + 0x20A, en[2]);
    p.store_a0l(MMIO + 0x20C, env);
    if (audio) {
        p.store_a0l(MMIO + 0x2BE, 1);
        for (unsigned k = 0; k < audio_words; ++k)
            p.store_a0l(MMIO + 0x2C6, (u16)(0x1000 + k));
    }
    // interrupt master/mask bits: mod3 = nimc0 ic0-2(1-3) ou(4-6) ie(7) im0-2(8-10) imv(11) ccnta(13) cpc(14) crep(15)
    u16 mod3 = 0;
    for (int i = 0; i < 3; ++i)
        mod3 |= (u16)(ctx[i] << (1 + i));
    mod3 |= (u16)(g.chance(9, 10) << 7);
    for (int i = 0; i < 3; ++i)
        mod3 |= (u16)(g.chance(5, 6) << (8 + i));
    mod3 |= (u16)(g.chance(5, 6) << 11);
    mod3 |= (u16)(g.chance(1, 2) << 13) | (u16)(g.chance(1, 2) << 14) | (u16)(g.chance(1, 2) << 15);
    p.w2(MOV_I_MOD3, mod3);
    for (int i = 0; i < 2; ++i) {
        if (!tc[i].on)
            continue;
        u16 base = (u16)(MMIO + 0x20 + 0x10 * i);
        p.store_a0l(base + 4, (u16)(tc[i].start & 0xFFFF));
        p.store_a0l(base + 6, (u16)(tc[i].start >> 16));
        p.store_a0l(base + 0, (u16)((tc[i].mode << 2) | (1 << 9) | (1 << 10)));
        for (unsigned e = 0; e < tc[i].events; ++e)
            p.store_a0l(base + 2, 1);
    }
    if (g.chance(1, 6))
        p.store_a0l(MMIO + 0x204, (u16)(1u << g.below(4))); // software trigger from the guest
    u32 main_loop = p.at;
    for (unsigned k = 0; k < nmain; ++k)
        p.w(INC_A0);
    if (use_idle) {
        // the idle self-branch, unconditional or under a condition evaluated on the flags left by `inc a0`
        // (eq is never true here: the program then spins through the br below instead of idling)
        static const u16 conds[] = {0, 0, 0, 0, 2, 3, 4, 1, 5, 7, 8, 9, 10, 12};
        p.w((u16)(BRR_M1 | g.pick(conds)));
        p.w(NOP);
        p.w2(BR, (u16)main_loop);
    } else if (g.chance(1, 2)) {
        u32 loop = p.at;
        p.w(INC_A0);
        p.w2(BR, (u16)loop);
    } else {
        // a busy loop that bounces between the two 64K program pages: the branch at L goes to 0x10000+L (the same low 16
        // address bits as its own address, but not a self-branch: nothing here idles), the code there comes back
        u32 L = p.at;
        p.w2((u16)(BR | (1u << 4)), (u16)L);
        u32 back = p.at;
        p.org(0x10000 + L);
        p.w(INC_A0);
        p.w2(BR, (u16)L);
        p.org(back);
        far_loop = true;
    }
    // ---- handlers
    auto handler = [&](u32 at, bool with_ctx, u16 ackbits) {
        p.org(at);
        unsigned body = (unsigned)g.below(16);
        if (g.chance(1, 5))
            p.w(EINT); // nested interrupts: a higher or equal line may preempt this handler
        if (body & 1) { // observe timer0 counter: makes interrupt latency visible
            p.w2(MOV_M_A1, MMIO + 0x28);
            p.w(MOV_A1L_R1P);
        }
        if (body & 2) {
            p.w2(MOV_M_A1, MMIO + 0x38);
            p.w(MOV_A1L_R1P);
        }
        p.store_a1l(MMIO + 0x202, ackbits); // acknowledge
        if ((body & 4) && audio && audio_refill) {
            p.store_a1l(MMIO + 0x2C6, 0x7001);
            p.store_a1l(MMIO + 0x2C6, 0x7002);
        }
        if (body & 8) { // echo mailbox 0
            p.w2(MOV_M_A1, MMIO + 0x0C2);
            p.w2(MOV_A1L_M, MMIO + 0x0C0);
        }
        p.w(INC_A1);
        p.w2(MOV_M_A1, MMIO + 0x200); // observe pending register
        p.w(MOV_A1L_R1P);
        p.w(with_ctx ? RETIC : RETI);
    };
    for (int i = 0; i < 3; ++i)
        handler(H[i], ctx[i], g.chance(3, 4) ? 0xFFFF : en[i]);
    handler(HV, vctx, g.chance(3, 4) ? 0xFFFF : env);

    // ---- host schedule
    unsigned nint = (unsigned)g.range(1, 4);
    for (unsigned i = 0; i < nint; ++i) {
        unsigned s = (unsigned)g.below(8);
        u32 len = s < 2 ? (u32)g.range(1, 40) : s < 5 ? (u32)g.range(40, 400) : s < 7 ? (u32)g.range(400, 9000) : (u32)g.range(9000, 60000);
        pl.interval.push_back(len);
        std::vector<HostEvent> ev;
        unsigned ne = (unsigned)g.below(3);
        for (unsigned k = 0; k < ne; ++k) {
            HostEvent e;
            e.kind = (int)g.below(7);
            e.a = e.kind == 0 || e.kind == 2 ? (u16)g.below(3) : e.kind == 4 ? (u16)(1u << g.below(16)) : (u16)(1u << g.below(4));
            e.b = (u16)g.bits(16);
            ev.push_back(e);
        }
        pl.events.push_back(ev);
    }
    pl.shape = fmt("t0=%s t1=%s idle=%d%s audio=%d", tc[0].on ? std::to_string(tc[0].mode).c_str() : "-",
                   tc[1].on ? std::to_string(tc[1].mode).c_str() : "-", use_idle, far_loop ? "(two-page busy loop)" : "", audio);
    pl.desc = fmt("en=%04x/%04x/%04x/v%04x mod3=%04x nmain=%u idle=%d t0(on=%d mode=%u start=%u) t1(on=%d mode=%u start=%u) audio=%d words=%u",
                  en[0], en[1], en[2], env, mod3, nmain, use_idle, tc[0].on, tc[0].mode, tc[0].start, tc[1].on, tc[1].mode,
                  tc[1].start, audio, audio_words);
    return pl;
}


} // namespace vf
