#include "core_shim.h"
#include "interpreter.h"
#include <cstdlib>
#include <new>

namespace vf {

struct InterpHolder {
    Teakra::Interpreter interp;
    InterpHolder(Teakra::CoreTiming& ct, Teakra::RegisterState& regs, Teakra::MemoryInterface& mem)
        : interp(ct, regs, mem) {}
};

BareCore::BareCore()
    : mem_storage(std::calloc(1, sizeof(Teakra::MemoryInterface))),
      mem(*new (mem_storage) Teakra::MemoryInterface(shared_memory, miu)), regs() {
    regs = Teakra::RegisterState();
    interp = std::make_unique<InterpHolder>(core_timing, regs, mem);
}
BareCore::~BareCore() {
    interp.reset();
    mem.~MemoryInterface();
    std::free(mem_storage);
}

RunResult BareCore::Run(std::uint64_t cycles) {
    return Classify([&] { interp->interp.Run(cycles); });
}
void BareCore::SignalInterrupt(std::uint32_t i) {
    interp->interp.SignalInterrupt(i);
}
void BareCore::SignalVectoredInterrupt(std::uint32_t address, bool context_switch) {
    interp->interp.SignalVectoredInterrupt(address, context_switch);
}

bool IsUnimplemented(const std::exception& e) {
    return dynamic_cast<const Teakra::UnimplementedException*>(&e) != nullptr;
}

static const std::vector<Matcher<Teakra::Interpreter>>& Table() {
    static const auto t = GetDecoderTable<Teakra::Interpreter>();
    return t;
}
const char* InterpHandlerName(std::uint16_t opcode) {
    return Table()[opcode].GetName();
}
bool InterpNeedExpansion(std::uint16_t opcode) {
    return Table()[opcode].NeedExpansion();
}

} // namespace vf
