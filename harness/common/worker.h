// Common worker skeleton for all harnesses: argument parsing, PRNG, JSON-lines result channel.
// A worker explores a deterministic sequence of cases derived from (seed, shard, case index) and
// reports counters / samples / violations on the file given by --out. stdout is pointed to
// /dev/null because teakra prints diagnostics with printf.
#pragma once
#include <cinttypes>
#include <cstdarg>
#include <cstdint>
#include <cstdio>
#include <cstdlib>
#include <cstring>
#include <map>
#include <set>
#include <string>
#include <vector>
#include <unistd.h>

namespace vf {

using u8 = std::uint8_t;
using u16 = std::uint16_t;
using u32 = std::uint32_t;
using u64 = std::uint64_t;
using s64 = std::int64_t;

inline u64 splitmix(u64& x) {
    u64 z = (x += 0x9E3779B97F4A7C15ull);
    z = (z ^ (z >> 30)) * 0xBF58476D1CE4E5B9ull;
    z = (z ^ (z >> 27)) * 0x94D049BB133111EBull;
    return z ^ (z >> 31);
}

inline u64 mix(u64 a, u64 b) {
    u64 x = a * 0x9E3779B97F4A7C15ull ^ (b + 0xD6E8FEB86659FD93ull);
    return splitmix(x);
}

struct Rng {
    u64 s[2];
    explicit Rng(u64 seed = 1) {
        u64 x = seed;
        s[0] = splitmix(x);
        s[1] = splitmix(x);
        if (!s[0] && !s[1])
            s[0] = 1;
    }
    u64 next() { // xoroshiro128+
        u64 s0 = s[0], s1 = s[1], r = s0 + s1;
        s1 ^= s0;
        s[0] = ((s0 << 24) | (s0 >> 40)) ^ s1 ^ (s1 << 16);
        s[1] = (s1 << 37) | (s1 >> 27);
        return r;
    }
    u64 bits(unsigned n) { return n >= 64 ? next() : (next() >> (64 - n)); }
    u64 below(u64 n) { return n ? (next() >> 11) % n : 0; }
    bool chance(unsigned num, unsigned den) { return below(den) < num; }
    u64 range(u64 lo, u64 hi) { return lo + below(hi - lo + 1); } // inclusive
    template <typename T, size_t N>
    T pick(const T (&arr)[N]) { return arr[below(N)]; }
    template <typename T>
    const T& pick(const std::vector<T>& v) { return v[below(v.size())]; }
    u16 edge16() {
        static const u16 e[] = {0, 1, 2, 0x7F, 0x80, 0xFF, 0x100, 0x7FFE, 0x7FFF, 0x8000,
                                0x8001, 0xFF00, 0xFFFE, 0xFFFF, 0x00FF, 0x4000, 0xC000};
        return chance(1, 2) ? pick(e) : (u16)bits(16);
    }
    // 40-bit value, sign-extended to 64, biased to carry/overflow/saturation edges
    u64 edge40() {
        static const s64 e[] = {0, 1, -1, 2, -2, 0x7FFF, 0x8000, -0x8000, -0x8001, 0xFFFF, 0x10000,
                                0x7FFFFFFF, 0x80000000ll, -0x80000000ll, -0x80000001ll, 0xFFFFFFFFll,
                                0x100000000ll, 0x7FFFFFFFFFll, -0x8000000000ll, -0x7FFFFFFFFFll,
                                0x7FFFFFFFFEll, 0x3FFFFFFFFFll, 0x4000000000ll, -0x4000000000ll,
                                0x7FFF8000, 0x7FFF7FFF, 0x7FFFFFFF00ll, 0x40000000, 0x3FFFFFFF,
                                -0x40000000ll, -0x40000001ll};
        unsigned k = (unsigned)below(8);
        s64 v;
        if (k < 3)
            v = pick(e);
        else if (k < 5)
            v = pick(e) + (s64)below(5) - 2;
        else if (k == 5)
            v = (s64)(bits(32)) - 0x80000000ll;
        else
            v = (s64)bits(40);
        u64 u = (u64)v & 0xFFFFFFFFFFull;
        if (u >> 39)
            u |= 0xFFFFFF0000000000ull;
        return u;
    }
};

inline u64 sext(u64 v, unsigned bits) {
    u64 m = (bits >= 64) ? ~0ull : ((1ull << bits) - 1);
    v &= m;
    if (bits < 64 && (v >> (bits - 1)) & 1)
        v |= ~m;
    return v;
}

// ---------------------------------------------------------------- JSON helpers
inline std::string jstr(const std::string& s) {
    std::string o = "\"";
    for (unsigned char c : s) {
        if (c == '"' || c == '\\') {
            o += '\\';
            o += (char)c;
        } else if (c == '\n')
            o += "\\n";
        else if (c < 0x20) {
            char b[8];
            std::snprintf(b, sizeof b, "\\u%04x", c);
            o += b;
        } else
            o += (char)c;
    }
    return o + "\"";
}

inline std::string fmt(const char* f, ...) {
    char buf[4096];
    va_list ap;
    va_start(ap, f);
    std::vsnprintf(buf, sizeof buf, f, ap);
    va_end(ap);
    return buf;
}

inline std::string hex(u64 v, int w = 4) { return fmt("0x%0*" PRIx64, w, v); }

// Builds a flat JSON object
struct JObj {
    std::string s = "{";
    bool first = true;
    JObj& raw(const std::string& k, const std::string& v) {
        if (!first)
            s += ",";
        first = false;
        s += jstr(k) + ":" + v;
        return *this;
    }
    JObj& str(const std::string& k, const std::string& v) { return raw(k, jstr(v)); }
    JObj& num(const std::string& k, s64 v) { return raw(k, fmt("%" PRId64, v)); }
    JObj& unum(const std::string& k, u64 v) { return raw(k, fmt("%" PRIu64, v)); }
    JObj& hexs(const std::string& k, u64 v, int w = 4) { return raw(k, jstr(hex(v, w))); }
    std::string done() const { return s + "}"; }
};

// ---------------------------------------------------------------- worker context
struct Ctx {
    u64 seed = 1;
    int shard = 0, nshards = 1;
    u64 cases = 1000;
    bool thorough = false;
    s64 only_case = -1; // replay of one case index
    bool verbose = false;
    std::string mode; // harness specific sub-mode
    std::string replay_file;
    std::map<std::string, std::string> opts;
    FILE* out = nullptr;

    std::map<std::string, u64> counters;
    std::map<std::string, u64> maxes;
    std::map<std::string, std::set<std::string>> sets;
    int samples_emitted = 0;
    int violations = 0;
    std::set<std::string> violation_keys;
    const char* prop = "C00";

    u64 opt_u64(const char* k, u64 dflt) const {
        auto it = opts.find(k);
        return it == opts.end() ? dflt : std::strtoull(it->second.c_str(), nullptr, 0);
    }

    void parse(int argc, char** argv, const char* property) {
        prop = property;
        for (int i = 1; i < argc; ++i) {
            std::string a = argv[i];
            auto val = [&]() -> std::string { return (i + 1 < argc) ? argv[++i] : ""; };
            if (a == "--seed")
                seed = std::strtoull(val().c_str(), nullptr, 0);
            else if (a == "--shard") {
                std::string v = val();
                std::sscanf(v.c_str(), "%d/%d", &shard, &nshards);
            } else if (a == "--cases")
                cases = std::strtoull(val().c_str(), nullptr, 0);
            else if (a == "--tier")
                thorough = val() == "thorough";
            else if (a == "--only-case") {
                only_case = std::strtoll(val().c_str(), nullptr, 0);
                verbose = true;
            } else if (a == "--verbose")
                verbose = true;
            else if (a == "--mode")
                mode = val();
            else if (a == "--out") {
                std::string p = val();
                out = std::fopen(p.c_str(), "w");
            } else if (a.rfind("--", 0) == 0) {
                std::string k = a.substr(2);
                opts[k] = val();
            }
        }
        if (!out)
            out = fdopen(dup(2), "w");
        // teakra prints diagnostics on stdout; silence them
        if (!std::getenv("VERIF_KEEP_STDOUT"))
            (void)!std::freopen("/dev/null", "w", stdout);
    }

    // independent stream per (seed, property, shard, case): a case replays from its index alone
    Rng case_rng(u64 case_index, u64 salt = 0) const {
        u64 h = mix(seed, 0x5eed);
        for (const char* p = prop; *p; ++p)
            h = mix(h, (u64)*p);
        h = mix(h, (u64)shard * 1000003 + (u64)nshards);
        h = mix(h, case_index);
        h = mix(h, salt);
        return Rng(h);
    }
    bool selected(u64 case_index) const { return only_case < 0 || (u64)only_case == case_index; }

    void count(const std::string& k, u64 n = 1) { counters[k] += n; }
    void maxv(const std::string& k, u64 v) {
        if (v > maxes[k])
            maxes[k] = v;
    }
    void seen(const std::string& k, const std::string& v) {
        auto& s = sets[k];
        if (s.size() < 100000)
            s.insert(v);
    }
    void sample(const std::string& json, int limit = 3) {
        if (samples_emitted >= limit)
            return;
        ++samples_emitted;
        std::fprintf(out, "{\"t\":\"sample\",\"v\":%s}\n", json.c_str());
    }
    // key: stable identifier of site + input class; replay: JSON object (string)
    void violation(const std::string& key, const std::string& summary, u64 case_index,
                   const std::string& detail_json = "{}") {
        ++violations;
        if (!violation_keys.insert(key).second && !verbose)
            return; // one witness per key per worker
        std::fprintf(out,
                     "{\"t\":\"violation\",\"key\":%s,\"summary\":%s,\"case\":%" PRIu64
                     ",\"shard\":%d,\"nshards\":%d,\"seed\":%" PRIu64 ",\"mode\":%s,\"detail\":%s}\n",
                     jstr(key).c_str(), jstr(summary).c_str(), case_index, shard, nshards, seed,
                     jstr(mode).c_str(), detail_json.c_str());
        std::fflush(out);
        if (verbose)
            std::fprintf(stderr, "VIOLATION %s: %s\n%s\n", key.c_str(), summary.c_str(),
                         detail_json.c_str());
    }
    void note(const std::string& s) {
        std::fprintf(out, "{\"t\":\"note\",\"v\":%s}\n", jstr(s).c_str());
    }
    int finish() {
        for (auto& kv : counters)
            std::fprintf(out, "{\"t\":\"counter\",\"k\":%s,\"v\":%" PRIu64 "}\n", jstr(kv.first).c_str(),
                         kv.second);
        for (auto& kv : maxes)
            std::fprintf(out, "{\"t\":\"max\",\"k\":%s,\"v\":%" PRIu64 "}\n", jstr(kv.first).c_str(),
                         kv.second);
        for (auto& kv : sets) {
            std::fprintf(out, "{\"t\":\"set\",\"k\":%s,\"v\":[", jstr(kv.first).c_str());
            bool f = true;
            for (auto& v : kv.second) {
                std::fprintf(out, "%s%s", f ? "" : ",", jstr(v).c_str());
                f = false;
            }
            std::fprintf(out, "]}\n");
        }
        std::fprintf(out, "{\"t\":\"done\",\"violations\":%d}\n", violations);
        std::fflush(out);
        return 0;
    }
};

} // namespace vf
