#pragma once

#include <algorithm>
#include <functional>
#include <limits>
#include <vector>
#include "common_types.h"
#ifdef TEAKRA_VERIF
#include "verif_hooks.h"
#endif

namespace Teakra {

class CoreTiming {
public:
    class Callbacks {
    public:
        virtual ~Callbacks() = default;
        virtual void Tick() = 0;
        virtual u64 GetMaxSkip() const = 0;
        virtual void Skip(u64) = 0;
        static constexpr u64 Infinity = std::numeric_limits<u64>::max();
    };

    void Tick() {
        for (const auto& callbacks : registered_callbacks) {
            callbacks->Tick();
        }
    }

    u64 Skip(u64 maximum) {
        u64 ticks = maximum;
        for (const auto& callbacks : registered_callbacks) {
            ticks = std::min(ticks, callbacks->GetMaxSkip());
        }
#ifdef TEAKRA_VERIF
        if (Verif::skip_observer)
            Verif::skip_observer(ticks);
#endif
        for (const auto& callbacks : registered_callbacks) {
            callbacks->Skip(ticks);
        }
        return ticks;
    }

    void RegisterCallbacks(Callbacks* callbacks) {
        registered_callbacks.push_back(std::move(callbacks));
    }

private:
    std::vector<Callbacks*> registered_callbacks;
};
} // namespace Teakra
