#pragma once
// Verification hooks. Everything in this file is compiled only with -DTEAKRA_VERIF and is
// inert (null function pointers) unless a harness installs callbacks.
#ifdef TEAKRA_VERIF

#include <cstdint>

// Thrown instead of abort() by Assert() so that a harness can classify a deliberate assertion as
// an outcome of a case and keep running.
struct TeakraVerifAssertion {
    const char* expression;
    const char* file;
    int line;
};

namespace Teakra {
struct SharedMemory;
namespace Verif {

// Called at the top of SharedMemory::ReadWord/WriteWord, before the access. May throw to veto.
using MemObserver = void (*)(const SharedMemory* self, std::uint32_t word_address, bool is_write,
                             std::uint16_t value);
inline MemObserver mem_observer = nullptr;

// Called at hand-over points between critical sections (see TEAKRA_VERIF_YIELD call sites).
using YieldHook = void (*)(int site);
inline YieldHook yield_hook = nullptr;

// Called by CoreTiming::Skip with the number of ticks it is about to skip.
using SkipObserver = void (*)(std::uint64_t ticks);
inline SkipObserver skip_observer = nullptr;

enum YieldSite : int {
    ApbpSendBeforeHandler = 0,
    ApbpSetSemaphoreBeforeHandler = 1,
    IcuTriggerBeforeHandler = 2,
    InterpreterAfterLatchSample = 3,
    YieldSiteCount = 4,
};

} // namespace Verif
} // namespace Teakra

#define TEAKRA_VERIF_YIELD(site)                                                                   \
    do {                                                                                           \
        if (::Teakra::Verif::yield_hook)                                                           \
            ::Teakra::Verif::yield_hook(static_cast<int>(site));                                   \
    } while (0)

#endif // TEAKRA_VERIF
