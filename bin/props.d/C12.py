PROPS["C12"] = dict(
    jobs=[
        job("fast", "c12_mmio", flavour="fast", cases={Q: 200, T: 4000}),
        # same workload under ASan+UBSan (detect_stack_use_after_return=1): a sanitizer abort kills the worker and the
        # driver turns it into a violation keyed by the sanitizer summary (crash_is_violation)
        job("asan", "c12_mmio", flavour="asan", cases={Q: 25, T: 500}),
    ],
    crash_is_violation=True,
    rule="one case = a fresh Teakra + the register-file model of models/mmio_map.h (transcribed from timer/apbp/ahbm/miu/dma/"
         "icu/btdmp.md); ~240 initialising writes (distinct contents in all 8 DMA channel copies and every plain register) then "
         "800 random operations: writes of arbitrary 16-bit values to documented offsets, to one-address-bit-off / odd / arbitrary "
         "undocumented offsets, channel selects with arbitrary 16-bit values, relocations, safe DMA starts, timer restart/event "
         "sequences, FIFO fills/flushes, mailbox and semaphore operations; each write goes through the DSP data path "
         "(mmio_base+off) or the host accessor at a random 0x800 mirror; after EVERY operation all documented side-effect-free "
         "registers are read back through one path (alternating) and compared on their documented bits, plus the host API views "
         "AHBMGetUnitSize/Direction/DmaChannel and DMAChan0GetSrcHigh/DstHigh of the same fields. distinct_nontrivial = "
         "distinct (register, path) pairs written and compared plus distinct coupling classes exercised (restart by mode, event "
         "decrement/irq, start per channel, select per channel, relocation target, trigger/ack, fifo send/full/flush, mailbox)",
    floors={
        Q: {"writes_dsp": 800000, "writes_host": 800000, "writes_undocumented": 80000, "sweeps_dsp": 900000,
            "sweeps_host": 900000, "rw_regs_compared": 150000000, "selects": 100000, "selects_wide_value": 25000,
            "dma_starts": 9000, "timer_restarts": 15000, "timer_event_decrements": 25000, "timer_event_irqs": 7000,
            "relocations_aligned": 25000, "icu_triggers": 5000, "icu_acks": 5000, "fifo_full_seen": 30000,
            "fifo_flushes": 15000, "mailbox_replies": 15000, "mailbox_receives": 20000, "host_sends": 20000,
            "zpage_deliberate_assertions": 10, "mirror": 32, "cases_completed": 3400},
        T: {"writes_dsp": 15000000, "writes_host": 15000000, "writes_undocumented": 1500000, "sweeps_dsp": 15000000,
            "sweeps_host": 15000000, "rw_regs_compared": 2500000000, "selects": 2000000, "selects_wide_value": 500000,
            "dma_starts": 150000, "timer_restarts": 250000, "timer_event_decrements": 500000, "timer_event_irqs": 125000,
            "relocations_aligned": 500000, "icu_triggers": 75000, "icu_acks": 75000, "fifo_full_seen": 500000,
            "fifo_flushes": 250000, "mailbox_replies": 250000, "mailbox_receives": 350000, "host_sends": 350000,
            "zpage_deliberate_assertions": 150, "mirror": 32, "cases_completed": 70000},
    },
    ready=True,
    technique="runtime monitoring: lock-step independent register-file model (from the *.md hardware notes) against the real "
              "Teakra facade through both access paths, full read-back sweep after every operation; fast and ASan+UBSan flavours",
    level_text="Exploration: seeded random write histories over the 0x800 MMIO offsets with arbitrary 16-bit values on the real "
               "MMIORegion behind the Teakra facade, every documented register compared with an independent model after every "
               "operation; decides the property only for the histories produced (counts in evidence).",
    level_note="Trusts the transcription of the register diagrams in models/mmio_map.h; only documented bits are compared; "
               "reset values are learnt, not asserted; nothing is executed (no Run), so couplings that need DSP cycles "
               "(timer ticking, audio transmission) are C15/C16's subject.",
    assumptions=[
        "only bits the *.md documents name as read/write are asserted to read back; status bits and '?' bits are only required to be stable outside documented couplings",
        "a trigger register written with its documented trigger bit clear but other bits set (timer EW, audio TFL) may or may not fire: outcome learnt, not asserted",
        "timer restart is never requested in a watchdog count mode (>= 4) and no cycles are executed while scale != 0 / mode >= 4 / AHBM unit or burst 3 are stored",
        "the DSP data path is used only while z_page == 0, paging mode == 0 and the window base is 1K-aligned; with z_page != 0 the deliberate ASSERT(z_page == 0) is expected and counted",
        "the semaphore signal bit S after a MASK_SEMAPHORE write and the CPU-side S' bit are C14's clauses and are not asserted here",
        "DMA is started only with a one-element DSP-to-DSP configuration below 0x20000 words; the copied data is C13's subject",
    ],
    exhaustive=False,
)
