PROPS["C03"] = dict(
    jobs=[job("alu", "c03_alu", cases={Q: 125000, T: 12500000})],
    rule="one real interpreter step per case against the independent 40-bit ALU model (models/alu40.h): encodings of "
         "alm/alm_r6/alu {or,and,xor,add,sub,cmp,addh,addl,subh,subl,cmpu} in every operand form, moda4/moda3 "
         "{inc,dec,neg,rnd,copy,not,clr,clrr} under all 16 conditions, add/sub/cmp extra forms, or_/and_ three-operand, "
         "found by enumerating the tree's decode table and visited round-robin (every listed first word is hit); states "
         "well-formed and biased so that the exact result lands within +-2 of 0, +-2^15, +-2^30, +-2^31, 2^32, +-2^39 in half "
         "of the cases, all 4 sat/sata combinations, random prior flags; destination accumulator, fz fm fe fn fc0 fv fvl flm, "
         "every other register field and the data-memory access log are compared. distinct_nontrivial = distinct "
         "(operand form / operation / event class carry|overflow|saturate-pos|saturate-neg|zero|none|cond-false) executed and compared",
    floors={
        Q: {"cases": 1900000, "enc": 12086,
            "carry_alm": 50000, "carry_alu": 20000, "carry_moda": 2000, "carry_extra": 10000,
            "overflow_alm": 5000, "overflow_alu": 2000, "overflow_moda": 500, "overflow_extra": 2000,
            "saturated_alm": 20000, "saturated_alu": 10000, "saturated_moda": 5000, "saturated_extra": 10000,
            "cond_false": 20000, "cond_true": 20000, "and_imm8_kept_bits_nonzero": 1000,
            "fvl_stays_latched": 10000, "flm_stays_set": 10000},
        T: {"cases": 190000000, "enc": 12086,
            "carry_alm": 5000000, "carry_alu": 2000000, "carry_moda": 200000, "carry_extra": 1000000,
            "overflow_alm": 500000, "overflow_alu": 200000, "overflow_moda": 50000, "overflow_extra": 200000,
            "saturated_alm": 2000000, "saturated_alu": 1000000, "saturated_moda": 500000, "saturated_extra": 1000000,
            "cond_false": 2000000, "cond_true": 2000000, "and_imm8_kept_bits_nonzero": 100000,
            "fvl_stays_latched": 1000000, "flm_stays_set": 1000000},
    },
    ready=True,
    technique="runtime monitoring: single-step differential check of the real interpreter against an independent "
              "__int128 model of the 40-bit ALU, with a whole-register-state and memory-access-log frame check",
    level_text="Exploration: every first word of the listed instruction families is executed on the real interpreter over "
               "seeded, boundary-biased states and compared against an independent model; decides the property only for the "
               "(encoding, state) pairs produced (counts in evidence), not for all 2^40 x 2^40 operand values.",
    level_note="Trusts the harness model (models/alu40.h) and its reading of operand.h enum orders and of the st0/st1/st2/cfgi/cfgj "
               "layouts; samples the operand space with boundary bias; one instruction per case, no loop/repeat/interrupt activity.",
    assumptions=["operand conventions, bitwise forms not saturating, `and #imm8` keeping bits 8-15, neg = 0 - a: DESIGN.md C03 Interpretation",
                 "alm with a0/a1/p operand outside {or,and,xor,add,cmp,sub} and any form reading pc through Register are undefined/unimplemented and not executed",
                 "Rn-indirect forms run with modulo and bit-reverse off for the unit used; the +s step and the epi/epj zeroing of r3/r7 are left to C10",
                 "effective addresses are kept outside the MMIO window 0x8000-0x87FF (no MMIO attached on the bare rig)",
                 "pc is not compared (instruction length is C02's subject)"],
    exhaustive=False,
)
