PROPS["C10"] = dict(
    jobs=[job("step", "c10_step", cases={Q: 200000, T: 12000000})],
    rule="one instruction of a randomly chosen addressing form (every decode-table row with Rn+StepZIDS, R45/R0123, "
         "ArRn/ArStep, ArpRn/ArpStep operands, modr*, implicit-r0 min/max) executed on the bare interpreter from a random "
         "well-formed state with chosen m/br/cmd/stp16/epi/epj, mod cycling through all 512 values, starts biased to block "
         "edges (in-buffer for the modulo clause, 1/4 out-of-buffer); register post-value compared with the statement model, "
         "accessed cell taken from the access log and from the value moved. Cases come in groups of 8 sharing each configuration field with probability 3/4 (history on the long-lived interpreter). distinct_nontrivial = distinct (form, selection "
         "path, register, deciding clause, edge class {up,down,wrap-up,wrap-down,+1,-1,+-2,+s7,+s16,ep}, cmd, dmod) and "
         "(form, register, address class {plain,bitrev,m+br}) keys that were executed and compared",
    floors={Q: {"checked_registers": 1500000, "checked_mod-in": 300000, "checked_mod-out": 50000, "checked_lin": 400000,
                "checked_ep": 10000, "checked_zero": 100000, "checked_address_bitrev": 50000, "checked_loaded_value": 5000,
                "checked_stored_value": 5000, "modval": 512, "form": 95},
            T: {"checked_registers": 90000000, "checked_mod-in": 18000000, "checked_mod-out": 3000000, "checked_lin": 24000000,
                "checked_ep": 600000, "checked_zero": 6000000, "checked_address_bitrev": 3000000, "checked_loaded_value": 300000,
                "checked_stored_value": 300000, "modval": 512, "form": 95}},
    ready=True,
    technique="runtime monitoring: statement-derived stepping model vs the real interpreter, one instruction per case, "
              "effective address observed through the memory access log and an injective memory pattern",
    level_text="Exploration: seeded random (form, configuration, start value) cases on the real interpreter, each compared with an "
               "independent model of the statement; all 8 registers, all 512 modulo values, both compatibility modes and every "
               "addressing form of the decode table are covered (counts in evidence); start addresses are sampled with edge bias.",
    level_note="Asserts only what the statement fixes: +-2 / configured steps under modulo, offset addressing, modulo together with "
               "bit reversal, a zero step on r3/r7 in end-pointer mode and the choice between the 7- and 16-bit configured step "
               "where the documents are silent are counted as unasserted (the latter must still be one of the two configured steps). "
               "Effective addresses inside the MMIO window are avoided (bare rig has no MMIO).",
    assumptions=["end-pointer mode (epi/epj) takes precedence over stepping for r3/r7 except for the +-2 forms; with a zero step or "
                 "with modulo enabled the statement is contradictory and nothing is asserted",
                 "with modulo enabled and bit reversal off (or bit reversal on and modulo on) the access uses the register value itself",
                 "operand roles of each handler (which operand selects register/step) are a harness table keyed by handler name and "
                 "operand widths; opcodes come from the tree's own decode table"],
    exhaustive=False,
)
