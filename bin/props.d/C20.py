PROPS["C20"] = dict(
    jobs=[job("pseudo", "c20_pseudo", cases={Q: 3, T: 256}),
          # the annotated disassembler called from 2-4 threads at once, each with its own ar/arp settings (behavioural
          # comparison in the fast build, data races in the ThreadSanitizer build)
          # call-history independence of the annotated disassembler (one ar/arp word changed between consecutive calls ...)
          job("annot-history", "purity", cases={Q: 600, T: 20000}, shards=16, mode="purity", args={"prop": "C20"}),
          job("annot-concurrent", "purity", cases={Q: 8, T: 200}, shards=4, mode="concurrent", args={"prop": "C20"}),
          job("annot-concurrent-tsan", "purity", flavour="tsan", cases={Q: 2, T: 40}, shards=4, mode="concurrent", args={"prop": "C20", "iters": 40})],
    parallel=8,
    rule="annot-concurrent: 2-4 threads call GetTokenList/Do (and the C binding / Decode) on ar/arp-sensitive opcodes at the same time, each thread with its "
         "own ArArpSettings, 300 passes over 48 calls; every result must equal the one the same call gives when nothing else runs; the same under ThreadSanitizer. "
         "A: for each of the 19 words and each of the 65536 values (split over shards; --cases = random well-formed states "
         "per shard, including active loop nests and pending interrupts): Set<W>(v) on the real RegisterState, full state "
         "compared with the layout table's prediction, then all 19 words read and compared with the composition of the "
         "table's fields; 24 values per 256 also go through real instructions (mov #imm/abl -> W, pop W, push W, mov W -> abl, "
         "Register-operand forms for st0-2/cfgi/cfgj, mov_icr forms). B: for each of the 65536 values of ar0/1, arp0-3 "
         "(written through the real Set<W>): mova/mma/bkrepsto with every operand-index pair plus one other ar/arp-using "
         "row shape are executed and disassembled with ArArpSettings; moved register, step, offset cell and printed "
         "%rN/step/offset names compared with the table's decoding. C: generator stream (self-seeded, treated as workload): "
         "for every record addressing memory through ArRn/ArpRn the register selected by the table's decoding of "
         "before.ar/arp must point into its test window. The instruction paths always include the value the word currently reads (write back what is there). annot-history: purity histories (see C02/C05) with the C20 property id. distinct_nontrivial = distinct (word, field, kind, value new/same), "
         "(instruction form, word), (ar/arp word, operand indices, step code, offset code), (ar/arp word, row shape), "
         "(generator row shape, operand index, register) keys that were executed and compared",
    floors={Q: {"setget_evals": 3 * 19 * 65536, "readback_checked": 3 * 19 * 65536, "instr_runs": 200000,
                "ararp_values": 6 * 65536, "ararp_interp_runs": 6 * 65536 * 3, "ararp_dsm_operands": 6 * 65536 * 3,
                "ararp_offset_checked": 6 * 65536 * 3, "ararp_secondary_runs": 250000, "gen_records": 4 * 80000,
                "gen_registers_checked": 4 * 8000},
            T: {"setget_evals": 256 * 19 * 65536, "readback_checked": 256 * 19 * 65536, "instr_runs": 100000000,
                "ararp_values": 6 * 65536, "ararp_interp_runs": 6 * 65536 * 3, "ararp_dsm_operands": 6 * 65536 * 3,
                "ararp_offset_checked": 6 * 65536 * 3, "ararp_secondary_runs": 250000, "gen_records": 16 * 80000,
                "gen_registers_checked": 16 * 8000}},
    ready=True,
    technique="runtime monitoring: layout-table model vs the real RegisterState accessors and instructions; three-way "
              "comparison interpreter / annotated disassembler / test generator through the table's decoding of ar/arp; "
              "the annotated disassembler under concurrent callers (behavioural comparison + ThreadSanitizer)",
    level_text="Complete enumeration of the written-value axis: every 16-bit value of each of the 19 words (and of the six ar/arp "
               "words for the three-way clause) is written and every word read back, from a sample of random well-formed "
               "register states (counts in evidence); the instruction-level paths and the generator stream are sampled.",
    level_note="Register states are sampled (3 per shard quick, 256 thorough; every value meets that many states), not enumerated; '-1' and '-1*' offsets and the two "
               "+-2 step modes are distinguished by the disassembler names and the table only (with modulo off they move the "
               "register/cell identically). The generator reseeds itself from random_device: its stream is a workload, the "
               "failing record is the witness.",
    assumptions=["layout table transcribed from the verifier's per-bit symbol strings, register.md / RegisterState field comments and "
                 "the public TeakLite(-II) register documentation (st0-2, icr, mod3 are not printed by the verifier)",
                 "operand numbering of SttMod/ArArp/ArArpSttMod/Register operands is restated in the harness",
                 "a generated record 'pins' a register when the cell it addresses (bit-reversed per mod2) lies in "
                 "[0x6400,0x6600) for r0-r3 / [0xCC00,0xCE00) for r4-r7"],
    exhaustive=True,
    exhaustive_axis="19 words x 65536 written values; 6 ar/arp words x 65536",
)
