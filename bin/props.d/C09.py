_c09_q = {"rep_programs": 5000, "bkrep_programs_depth1": 8000, "bkrep_programs_depth2": 5000, "bkrep_programs_depth3": 5000,
          "bkrep_programs_depth4": 5000, "frame_roundtrips": 2500, "iterations": 50000000, "lc_sequences_compared": 100000,
          "lc_last_position_sequences": 20000, "counter_values_compared": 800000, "repc_sequences_compared": 500,
          "sto_rst_pairs_in_loop": 100000, "flat_unrolled_compared": 10000, "two_word_last_instruction": 20000,
          "rep_form_imm8": 1500, "rep_form_reg": 1500, "rep_form_r6": 1500, "bkrep_form_imm8": 15000, "bkrep_form_reg": 15000,
          "bkrep_form_r6": 15000, "rep_target_is_last_block_instruction": 2000, "rep_counts": 44, "bkrep_counts": 44, "count_registers": 20, "nt": 400}
_c09_sets = ("rep_counts", "bkrep_counts", "count_registers", "nt")
_c09_t = {k: (v if k in _c09_sets else v * 30) for k, v in _c09_q.items()}
PROPS["C09"] = dict(
    jobs=[job("loops", "c09_loops", cases={Q: 4000, T: 150000})],
    rule="loop programs on the real interpreter, single-stepped to an end marker, against (B) the same body instructions "
         "executed count+1 times by the harness with no loop instruction at all and (C, when <= 3000 words) a literally unrolled "
         "image: rep #imm8 / rep reg / rep r6 followed by a one-word instruction; bkrep #imm8 / reg / r6 nested 1-4 deep with "
         "independent counts, block ends distinct, last instruction of a block one- or two-word, programs in program page 0 and 1; "
         "counts sweep 0..40, 255, 256, 65535 plus random; bodies are random straight-line instructions from a fixed safe pool "
         "(moda, alu/alm on registers, immediates and post-modified memory, moves, loads/stores); optional counter log mov lc,[r2]+ "
         "at any position of a block incl. its last instruction / mov repc,[arRn]+ as the repeated instruction, judged PHASE-FREE "
         "per loop instance (values seen in iterations 0..N differ by 0 or 1 from one iteration to the next, start at N or N-1, end "
         "at 0, no value more than twice, counter 0 after exit; the last instruction of a nested block may in its final iteration "
         "see the enclosing loop's counter): the statement gives N decrements over N+1 iterations and does not fix whether the "
         "observing instruction runs before or after the step; optional rep inside a block; optional bkrepsto;bkreprst ([arRn2]/[sp]) pair inside the running loop; stand-alone bkrepsto;bkreprst "
         "from random loop states bcn 0..4 with the stale frame clobbered in between. One program in eight puts the outermost loop instruction on the 64K page boundary. distinct_nontrivial = distinct (form, depth, "
         "level, count class, page, last instruction length) keys executed and compared",
    floors={Q: _c09_q, T: _c09_t},
    ready=True,
    technique="runtime monitoring: twin execution (real loop vs harness-unrolled and literally unrolled code) on the real interpreter",
    level_text="Exploration: seeded loop programs run on the real interpreter; final registers, data memory, the counter sequence seen "
               "by the body, exit state (lp, bcn, rep) and loop-frame save/restore round trips are compared with an execution of the "
               "same instructions that contains no loop; all counts 0..40, 255, 256, 65535 and all three count sources are enumerated "
               "in every run, bodies and states are sampled.",
    level_note="Decides the property only for the generated programs (counts in evidence). Bodies come from a fixed pool of "
               "position-independent instructions; block ends of nested loops never coincide. Carve-out: the PHASE of the visible counter is not "
               "judged - the pinned interpreter steps repc/lc at the fetch of the repeated / last instruction, so that instruction sees "
               "N-1,...,0,0 where every other block position sees N,...,0; both satisfy 'counts down once per iteration' (N decrements "
               "over N+1 iterations), and C01 pins the exact behaviour against the reference.",
    assumptions=["well-formed start state with no loop active, interrupts off (ie = 0), linear address stepping (m = br = 0) in scratch areas away from the MMIO window",
                 "body instructions never write loop state, the count registers, the frame pointer or the counter-log pointer; reference executions that end in an assertion/unimplemented outcome are discarded and counted",
                 "the phase of the loop counter relative to the observing instruction is not fixed by the statement (coordinator decision): only unit steps, start in {N, N-1}, end 0, no triple repeats"],
    exhaustive=False,
)
