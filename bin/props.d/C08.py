_c08_q = {"call_taken": 50000, "call_not_taken": 30000, "pushpop_pairs": 100000, "pushpop_regs": 61,
          "int_entered_int0": 10000, "int_entered_int1": 10000, "int_entered_int2": 10000, "int_entered_vint": 10000,
          "int_entered_with_context_switch": 20000, "cntx_pairs": 30000, "banke_pairs": 30000, "bankr_pairs": 30000,
          "call_taken_cpc0": 20000, "call_taken_cpc1": 20000, "nt": 900}
for _k in range(16):
    _c08_q["call_taken_c%d" % _k] = 500
    if _k:
        _c08_q["call_not_taken_c%d" % _k] = 500
_c08_t = {k: (v if k in ("pushpop_regs", "nt") else v * 25) for k, v in _c08_q.items()}
PROPS["C08"] = dict(
    jobs=[job("restore", "c08_restore", cases={Q: 60000, T: 2000000})],
    rule="program pairs on the real interpreter from one seeded well-formed state: (call) call/callr with each of the 16 "
         "conditions and calla a0l/a1l/a0/a1 to ret / ret <same cond> / reti / rets #k, taken or not as the random flags "
         "decide, return address in page 0 and 1, both cpc values, the two stack words checked against the stated order; "
         "(pushpop) push R ; <every register overwritten by the harness> ; pop R ; push R with sat=sata=1, lp=0 for the 28 "
         "Register encodings (not pc, p, a0, a1), r6, x0, x1, y1, repc, prpage, the 13 ar/arp/stt/mod words, a?e/b?e, "
         "whole accumulators via push e + pusha / popa + pop e and via pusha/popa alone (32-bit values), p0/p1 (ps=0, "
         "pe=p[31]), all encodings incl. unused bits; (int) interrupt int0/1/2/vectored raised during a random instruction "
         "of a 3-8 instruction straight-line program, with and without context switch, handler reti/retic, against an "
         "uninterrupted twin; (cntx/banke/bankr) cntx s;cntx r, banke f;banke f for all 64 f, the 15 bankr forms twice; hidden "
         "banks pre-loaded with random values and made visible on both twins by one further cntx s / cntx r / bankr / banke. "
         "One int-section program in three contains a single-instruction repeat (request at the rep boundary / inside the loop). distinct_nontrivial = distinct (form, condition, taken?, cpc, return kind, page) / register / (line, handler, "
         "reveal, cpc, interrupted instruction length) / (pair form, reveal) keys executed and compared",
    floors={Q: _c08_q, T: _c08_t},
    ready=True,
    technique="runtime monitoring: twin / metamorphic execution of program pairs (do-undo vs nothing) on the real interpreter",
    level_text="Exploration: seeded program pairs run on the real interpreter from boundary-biased well-formed register states; "
               "every call form and condition, every push/pop encoding, every interrupt line with and without context switch and "
               "every bank-exchange form is enumerated in each run, register values are sampled; the state after do+undo is "
               "compared field by field with the state before or with a twin machine, hidden banks behaviourally.",
    level_note="Decides the property only for the generated pairs (counts in evidence). prpage round-trips only with value 0 "
               "(any other value moves the instruction fetch out of the memory array). Whether an interrupt is delivered at all is "
               "C07's subject: undelivered interrupts are counted, not judged. An involution applied twice (e.g. a bank exchange "
               "that swaps one register too many both times) is invisible to this property by construction.",
    assumptions=["well-formed state: every field within its hardware width, lp == (bcn != 0) == 0, prpage == 0, sp in a scratch area away from the MMIO window",
                 "plain registers are identified with RegisterState fields by name; status/config words are observed by pushing them again (their bit layout is C20's subject)",
                 "read-only status bits (ip, iu, bcn, lp, the constant field of mod0) are not part of a restorable value",
                 "a call and its return are compared with the inlined empty subroutine: no register other than pc/sp (ie for reti) may change"],
    exhaustive=False,
)
