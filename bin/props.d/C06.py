PROPS["C06"] = dict(
    jobs=[job("slicing", "c06_slicing", cases={Q: 150, T: 12000})],
    rule="generated guest programs (ICU routing incl. vectored + context switch, two timers in all four modes with edge start "
         "values, audio FIFO with 0-16 queued words, handlers that log timer counters / pending bits, acknowledge, refill, echo "
         "mailboxes; main loop ending in the idle self-branch) run on three real Teakra instances with identical host events "
         "(SendData/SetSemaphore/RecvData/Clear/Mask/GetSemaphore/software trigger) at interval boundaries and different "
         "slicing: one Run(n), n x Run(1), random mix incl. Run(0). Busy loops may bounce between the two 64K program pages (branch to 0x10000+own address). distinct_nontrivial = distinct (timer modes, idle, audio, "
         "skip taken?, interrupt taken?, audio frame seen?, host callback seen?) program classes compared",
    floors={Q: {"idle_skips_in_A": 2000, "handler_entries_approx": 1000, "audio_frames": 100, "host_callbacks": 50},
            T: {"idle_skips_in_A": 200000, "handler_entries_approx": 100000, "audio_frames": 10000, "host_callbacks": 5000}},
    ready=True,
    technique="runtime monitoring: twin execution of the real emulator under different Run() slicings with full state/MMIO/callback-log comparison at common boundaries",
    level_text="Exploration: seeded program/host-event histories executed three times on the real facade with different slicing; every observable (registers, memory digest, peripheral read-back, ordered callbacks) compared at every common boundary.",
    level_note="Programs come from a template family, not arbitrary code; self-branch inside rep/bkrep is excluded as the property says. The skip observer hook only counts fast-forwards (evidence), it does not influence execution.",
    assumptions=["n x Run(1) defines 'n single-cycle steps' (Run(1) never fast-forwards)"],
)
