PROPS["C16"] = dict(
    jobs=[
        job("direct", "c16_btdmp", cases={Q: 1500, T: 30000}, mode="direct"),
        job("facade", "c16_btdmp", cases={Q: 16, T: 320}, mode="facade"),
    ],
    rule="direct: random histories (80 ops + final drain) over two real Btdmp objects, each on its own CoreTiming, period fixed "
         "per history in {1,2,3,7,4096,65535,random}: send bursts of unique non-zero ids (incl. fill-to-16 and overflow), flush, "
         "enable/disable, single cycles, CoreTiming::Skip(max) with max in {0,1,horizon,horizon-1,<=horizon,>horizon} (and "
         "frame-aligned distances when there is no horizon); instance A skips, twin B replays each skip as k single cycles; the "
         "independent model is compared with B after every op (flags, frame time+content, interrupt time, horizon safety). "
         "facade: 240-op histories (a fresh Teakra each) through Teakra::MMIOWrite/MMIORead (0x2BE/0x2C6/0x2CA/0x2C2/0x200/0x202), Teakra::Run and "
         "SetAudioCallback while the core executes an idle loop (Skip path) or a nop loop (Tick path). One short-period history in six starts with a 65 500-word stream (16-bit counts of the port just below their wrap); one history in five runs on ports without an audio callback; the callback is re-installed at random points; half of the long-period histories end with one Skip across 2^32 / 2^33 / 3*2^32 cycles checked against the statement's arithmetic. distinct_nontrivial = "
         "distinct (op, period class, queue-fill class 0/1/2/odd/even/15/16, enabled?, skip-distance class, frame/irq seen?) "
         "keys executed and compared",
    floors={
        Q: {"frames": 100000, "frames_one_word_padded": 2000, "frames_silent": 5000, "empty_irqs": 10000, "sends_dropped": 5000,
            "reached_full": 2000, "flush_nonempty": 2000, "skip_kpos": 50000, "skip_k0": 5000, "skip_at_horizon": 10000,
            "skip_over_frames": 10000, "horizon_finite": 100000, "fac_frames": 5000, "fac_empty_irqs": 500,
            "fac_sends_dropped": 500, "histories_facade_idle_loop": 60, "histories_facade_nop_loop": 60},
        T: {"frames": 4000000, "frames_one_word_padded": 80000, "frames_silent": 200000, "empty_irqs": 400000,
            "sends_dropped": 200000, "reached_full": 80000, "flush_nonempty": 80000, "skip_kpos": 2000000, "skip_k0": 200000,
            "skip_at_horizon": 400000, "skip_over_frames": 400000, "horizon_finite": 4000000, "fac_frames": 200000,
            "fac_empty_irqs": 20000, "fac_sends_dropped": 20000, "histories_facade_idle_loop": 1500,
            "histories_facade_nop_loop": 1500},
    },
    ready=True,
    technique="runtime monitoring: lock-step reference model + Skip-vs-Tick twin execution of the real Btdmp/CoreTiming, and the "
              "same model against the Teakra facade (MMIO + Run + audio callback)",
    level_text="Exploration: seeded random operation histories on the real Btdmp objects and on the Teakra facade, every step "
               "compared against an independent model and a single-stepped twin; decides the property only for the histories "
               "produced (counts in evidence).",
    level_note="Trusts the harness model of the statement/btdmp.md; histories are 80 (direct) / 240 (facade) ops; hidden queue "
               "contents are observed through the frames they later produce (final drain) and through the reported horizon.",
    assumptions=["the period is set once before the history starts and is >= 1 (period 0 and mid-run changes are outside the statement); "
                 "through the facade it is the constant 4096",
                 "the frame clock counts enabled cycles from zero and keeps its phase while transmission is disabled (the statement fixes the rate only)",
                 "any non-zero value written to the enable register enables transmission (the facade histories write 0x8000 / 0)",
                 "through the facade the empty interrupt is observed as ICU request bit 11 (MMIO 0x200, acknowledged via 0x202); only BTDMP 0 is driven"],
    exhaustive=False,
)
