PROPS["C19"] = dict(
    jobs=[job("tsan", "c19_threads", flavour="tsan", cases={Q: 12, T: 400}, args={"rounds": {Q: 150, T: 300}}),
          job("volume", "c19_threads", flavour="fast", cases={Q: 60, T: 3000}, args={"rounds": {Q: 400, T: 800}})],
    crash_is_violation=True,
    parallel=8,  # two busy threads per worker: more workers than cores/2 only deschedules them and hides races
    timeout={"quick": 1800, "thorough": 6 * 3600},
    rule="per case: a DSP thread runs Run(n) slices (n in 1..3000) of an interrupt-driven echo guest (CMD0/CMD2 echoed from the "
         "APBP interrupt handler, CMD1 polled in the main loop with its interrupt disabled by a DSP-side register write every "
         "iteration, semaphore acknowledged and echoed; per case the APBP handler is entered with or without a context switch and a timer on a second core line fires with period 0/6/9/50/333/1000) while the host thread runs 'rounds' of stop-and-wait sends (value = "
         "increasing sequence number per channel) and bursts of all ten mailbox/semaphore API calls; host callbacks re-enter "
         "the API; delays at the H3 hand-over points are drawn from the case seed. ThreadSanitizer (tsan job) reports are "
         "deduplicated by kind and first teakra frames. Half of the two-line guests dispatch on the ICU request register (ack first, then service); half of the cases use a mask/service-one/unmask semaphore callback (nested notifications). distinct_nontrivial = distinct interleaving signatures (hash of the "
         "time-ordered send/reply/callback event kinds of a case)",
    floors={Q: {"replies_checked": 100000, "host_callbacks_on_dsp_thread": 100000, "yield_site_0": 10000, "yield_site_2": 50000, "stop_and_wait_ch1": 10000},
            T: {"replies_checked": 5000000, "host_callbacks_on_dsp_thread": 5000000, "yield_site_0": 500000, "yield_site_2": 2000000, "stop_and_wait_ch1": 500000}},
    ready=True,
    technique="runtime monitoring: ThreadSanitizer build + two-thread stress with injected delays at hand-over hooks + offline history checker (membership, order, bounded progress)",
    level_text="Exploration of schedules: real host/DSP threads with seeded delay injection; data races decided by ThreadSanitizer on the executions produced, loss/reordering/deadlock by a checker over the recorded send/receive history.",
    level_note="'Eventually observed' is restated as bounded progress: within 400000 DSP cycles after the sender stops (60 s wall watchdog -> violation only after the cycle bound has elapsed or no cycles advance). Schedules are sampled, not enumerated; no rr-style replay: a case replays by seed and may not reproduce the same interleaving.",
    assumptions=["handlers are installed before the threads start; Reset and host MMIO access are not raced (outside the statement)"],
)
