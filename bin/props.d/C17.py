_VG = ["valgrind", "--tool=memcheck", "--error-exitcode=9", "--exit-on-first-error=yes", "--track-origins=yes", "--undef-value-errors=yes", "--leak-check=no", "--show-mismatched-frees=no", "-q"]
PROPS["C17"] = dict(
    jobs=[job("alloc", "c17_history", cases={Q: 40, T: 1500}, mode="alloc"),
          job("reset", "c17_history", cases={Q: 60, T: 2500}, mode="reset"),
          job("capi", "c17_history", cases={Q: 20, T: 800}, mode="capi"),
          job("memcheck-alloc", "c17_history", flavour="vg", cases={Q: 2, T: 12}, mode="alloc", shards=8, wrapper=_VG),
          job("memcheck-reset", "c17_history", flavour="vg", cases={Q: 2, T: 12}, mode="reset", shards=8, wrapper=_VG)],
    crash_is_violation=True,
    timeout={"quick": 3600, "thorough": 8 * 3600},
    rule="API histories of 3-25 operations (load+run generated guest programs, Run, MMIO writes of arbitrary values to documented "
         "and undocumented offsets, mailbox/semaphore calls, DMA starts on all channels, AHBM host accesses that leave burst "
         "queues half drained, timer/FIFO/ICU/APBP configuration, guest snippets cntx/bankr/banke that expose hidden banks). "
         "alloc: four instances whose heap was pre-filled 0x00/0xFF/0xA5/noise (operator new replaced) must give identical "
         "observations (every register field, every MMIO offset with a side-effect-free read, host API getters, memory "
         "digest, callback log) after every operation; half the histories start straight after construction. reset: dirty "
         "instance + Reset vs fresh instance + Reset. capi: C binding vs C++ facade. memcheck: the same modes under valgrind. "
         "One reset history in three runs on host-supplied memory; operation poke-vectored-request writes ipv/imv/ie into the register file and runs. distinct_nontrivial = distinct (mode, phase, operation kind) executed and compared",
    floors={Q: {"observations": 5000, "histories_straight_after_construction": 100, "dirtying_ops": 5000},
            T: {"observations": 200000, "histories_straight_after_construction": 5000, "dirtying_ops": 200000}},
    ready=True,
    technique="runtime monitoring: twin instances under different heap-fill patterns / dirty-then-Reset vs fresh, full observation comparison, plus valgrind memcheck on the same histories",
    level_text="Exploration: seeded API histories on real instances; allocation independence is checked by replacing operator new with pattern fills, Reset-equals-fresh by a dirty/fresh twin, uninitialised-value use additionally by valgrind memcheck.",
    level_note="Observations are those reachable through the public API (register state accessor, MMIO reads without side effects, getters, memory, callbacks). Process/ASLR independence is only covered through the fill patterns and memcheck.",
    assumptions=["timer scale/mode, paging and MMIO base are kept inside their documented domain so histories do not end early in deliberate assertions"],
)
