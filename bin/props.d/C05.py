PROPS["C05"] = dict(
    jobs=[
        # complete over the 65536 first words every run (opcode % 16 == shard); "cases" is informative only
        job("roundtrip", "c05_asm", cases={Q: 65536, T: 65536}, shards=16, mode="roundtrip",
            args={"nexp": {Q: 8, T: 256}, "nstates": {Q: 8, T: 64}}),
        # every distinct text length in turn, random opcode of that length, every dstlen 0..len+2
        job("cbinding", "c05_asm", cases={Q: 1500, T: 40000}, shards=16, mode="cbinding"),
        # same with fewer cases under ASan+UBSan, plus allocations of exactly dstlen bytes
        job("cbinding-asan", "c05_asm", flavour="asan", cases={Q: 100, T: 2000}, shards=4, mode="cbinding",
            args={"exact": 1}),
        job("firmware", "c05_asm", cases={Q: 4, T: 4}, shards=1, mode="firmware"),
        # history independence: call histories in forked children of a pristine parent (first call of a process,
        # repeats, one-argument changes, colliding opcodes), each call compared with itself in a fresh thread
        job("purity", "purity", cases={Q: 1500, T: 60000}, shards=16, mode="purity", args={"prop": "C05"}),
    ],
    rule="roundtrip: every first word 0..65535: GetTokenList -> (skip '[ERROR]' texts, counted) -> Parser::Parse -> status vs "
         "NeedExpansion; if the parser returns another opcode: its token lists for second words {0,1,0x7FFF,0x8000,0xFFFF}+N random, "
         "its decoded form and its execution from N random well-formed states (registers, pc, memory writes, outcome) must equal the "
         "original's; all opcodes with the same text must decode to one (handler, operands) form of the tree's own decode table; "
         "Do()==tokens joined by 4 spaces and C/C++ NeedExpansion agreement for all opcodes and second words. cbinding: (text length, "
         "opcode, second word) picks covering every distinct text length; Teakra_Disasm_Do with every dstlen 0..len+2 into a block "
         "whose every byte outside [dst,dst+dstlen) is a canary. firmware: makedsp1 output vs shipped cdc.bin byte for byte, "
         "dsp1_reader listing vs independent container reading vs source lines. distinct_nontrivial = distinct handler names whose "
         "text was re-assembled and compared + distinct text lengths pushed through the C binding + firmware files assembled "
         "identically / listed identically + (entry point, relation to an earlier call) pairs of the purity histories. purity: 16-40 call histories over "
         "NeedExpansion/GetTokenList/Do/C binding/Decode/Parse in a forked child of a parent that never called them; every call's result must equal the "
         "same call repeated later in reverse order and the same call as the first call of a new thread; Do == joined tokens and C binding == Do on the fresh-thread results",
    floors={Q: {"renderable": 60000, "parse_ok": 60000, "text_groups": 60000, "text_groups_multi": 20, "group_members_compared": 50,
                "alias_exec_compared": 400, "cbinding_calls": 500000, "text_lengths": 50, "truncating_calls": 400000,
                "null_dst_calls": 50000, "exact_alloc_calls": 5000, "fw_binaries_identical": 4, "fw_instructions_compared": 200,
                "fw_source_lines": 400, "fw_second_words_compared": 40, "determinism_comparisons": 500000, "rel_cfg-arp-only": 10000, "rel_repeat": 10000},
            T: {"renderable": 60000, "parse_ok": 60000, "text_groups": 60000, "text_groups_multi": 20, "group_members_compared": 50,
                "alias_exec_compared": 3000, "cbinding_calls": 10000000, "text_lengths": 50, "truncating_calls": 8000000,
                "null_dst_calls": 1000000, "exact_alloc_calls": 100000, "fw_binaries_identical": 4, "fw_instructions_compared": 200,
                "fw_source_lines": 400, "fw_second_words_compared": 40, "determinism_comparisons": 20000000, "rel_cfg-arp-only": 400000, "rel_repeat": 400000}},
    ready=True,
    crash_is_violation=True,
    exhaustive=True,
    exhaustive_axis="65536 first words (token round trip); every dstlen 0..len+2",
    technique="runtime monitoring: disassemble/assemble/disassemble/execute twin of the real code over all first words, "
              "decode-table forms as the 'unused bits' oracle, canary-guarded C-binding buffers (plus ASan exact-size allocations), "
              "the tree's own makedsp1/dsp1_reader against the shipped firmware, call-history independence of Do()/C binding/parser (purity monitor)",
    level_text="Exhaustive over the 65536 first words for the token-level round trip and over every buffer size 0..len+2 for the "
               "sampled texts; second words, machine states and the (opcode, second word) picks for the C binding are sampled "
               "(seeded); the firmware clause is decided completely for the four shipped sources.",
    level_note="'Differ only in unused bits' is judged by the recording visitor on the tree's own decode table (same handler, same "
               "operand values); execution equality is observed from sampled states only.",
    assumptions=["an opcode whose token list contains '[ERROR]' (or whose disassembly throws) is 'not renderable' and skipped (counted)",
                 "makedsp1 is invoked as `makedsp1 <source> <out>`, dsp1_reader as `dsp1_reader <cdc.bin> <listing>` (the hwtest Makefiles do not invoke them)",
                 "DSP1 container layout for the independent reading taken from 3dbrew (header 0x300, segment table at 0x120)"],
)
