PROPS["C18"] = dict(
    jobs=[job("asan", "c18_safety", flavour="asan", cases={Q: 7500, T: 250000}),
          job("bounds", "c18_safety", flavour="fast", cases={Q: 25000, T: 1000000}),
          # sustained audio traffic: the C16 direct histories, 2500 operations each (thousands of words through the transmit FIFO,
          # all periods), under ASan+UBSan
          job("audio-asan", "c16_btdmp", flavour="asan", cases={Q: 12, T: 400}, mode="direct", args={"ops": 2500, "prop": "C18"})],
    crash_is_violation=True,
    timeout={"quick": 3600, "thorough": 8 * 3600},
    rule="five workloads in rotation, every case in a forked child (64 cases per Teakra instance, case index journaled "
         "before it runs): prog = random code windows (50% raw words, 40% encodings of a random handler, 10% control-flow "
         "specials) incl. the last words of program space, random well-formed register state + status/config words written "
         "all-ones/zeros, 1-2000 cycles; mmio = writes/reads of documented and random offsets with interesting values through "
         "host and DSP paths interleaved with Run; dma = DMA/AHBM configuration fuzz over spaces, sizes (<= 2^20 elements), "
         "address high words, callbacks installed; host = in-contract API calls with extreme arguments; firmware = one of the four shipped tester firmwares (hwtest/*/data/cdc.bin) driven by random host commands, mailbox and semaphore traffic. Oracles: ASan+UBSan "
         "(asan job; plus the audio-asan job: C16's direct Btdmp histories of 2500 operations, thousands of words through the transmit FIFO at all periods), SharedMemory bounds observer, outcome classes, 25 s no-progress watchdog (confirmed by a second run). "
         "distinct_nontrivial = distinct (workload, ending class, deliberate assertion reached) triples observed",
    floors={Q: {"cases_prog": 20000, "cases_mmio": 20000, "cases_dma": 20000, "cases_host": 20000, "cases_firmware": 20000, "ending_assert": 1000, "ending_unimplemented": 500},
            T: {"cases_prog": 1000000, "cases_mmio": 1000000, "cases_dma": 1000000, "cases_host": 1000000, "cases_firmware": 1000000, "ending_assert": 50000, "ending_unimplemented": 20000}},
    ready=True,
    technique="runtime monitoring: ASan+UBSan build and a DSP-memory bounds observer under program/MMIO/DMA/host-call fuzzing with per-case process isolation",
    level_text="Exploration: fuzzed guest programs, MMIO sequences, DMA configurations and host calls on the real facade under AddressSanitizer+UBSan plus an observer on the single DSP-memory choke point (far out-of-bounds accesses are invisible to ASan); each abort/hang is attributed to one journaled case.",
    level_note="A clean sanitizer run is not memory safety: only reached paths are decided; red-zone tools miss intra-object overflows. DMA transfers are bounded to 2^20 elements so that non-termination is unambiguous.",
    assumptions=["host calls stay in contract (mailbox index < 3, AHBM channel < 3, 18-bit program addresses)"],
)
