PROPS["C02"] = dict(
    jobs=[job("decode", "c02_decode", cases={Q: 0, T: 0}, ref_harness="c02_decode"),
          job("purity", "purity", cases={Q: 1500, T: 60000}, shards=16, mode="purity", args={"prop": "C02"})],
    crash_is_violation=True,
    rule="complete enumeration of the 65536 first words (split over 16 shards): rows of the tree's decode table matching "
         "each opcode (<=1), handler identity and expansion flag of recording visitor vs interpreter table vs disassembler vs "
         "parser, observed program fetches of Run(1)+Run(1) from two independent states at start addresses "
         "{0x12345,0x10000,0x1ABCD,0x1FFFC}; position twin (same state, start address in program page 0 and in page 1: pc afterwards must be position-relative (sequential or relative branch) or absolute); every class of opcodes that differ only in unused bits (by the tree's table and by "
         "the frozen reference's table) must print identically for 6 second words and execute identically from 4 (quick) / 32 "
         "(thorough) states; generator stream records checked for expand/undefined agreement. distinct_nontrivial = handler "
         "names whose fetches were observed + unused-bit classes (>1 member) compared + (entry point, relation to an earlier call) pairs of the purity histories. "
         "purity: 16-40 call histories over Decode<V>/NeedExpansion/GetTokenList/Do/Parse (repeats, colliding opcodes op^0x8000 / op+128k / op^bit, other second word, other ar/arp settings) in a forked child of a parent that never called them; each result must equal the same call repeated later and the same call as the first call of a new thread, and the form/length must equal the first matching table row",
    floors={Q: {"fetch_observed": 60000, "position_twins_observed": 50000, "tree_unused_bit_classes": 20, "generator_records": 80000, "determinism_comparisons": 500000, "rel_op^8000": 10000},
            T: {"fetch_observed": 60000, "position_twins_observed": 50000, "tree_unused_bit_classes": 20, "generator_records": 1000000, "determinism_comparisons": 20000000, "rel_op^8000": 400000}},
    exhaustive=True,
    exhaustive_axis="all 65536 first words (decode/length/form clauses); states, second words and start addresses sampled",
    ready=True,
    technique="runtime monitoring: exhaustive opcode enumeration with a recording visitor on the real decode table, fetch observation through the memory observer, twin execution of unused-bit variants, call-history independence of the decode/print entry points (forked pristine processes, fresh threads)",
    level_text="Exploration, complete on the opcode axis: every first word is decoded by the tree's own table through a recording visitor, executed on the real interpreter with the memory observer logging program fetches, disassembled and re-assembled; unused-bit classes are executed as twins.",
    level_note="Second words, start addresses and register states are sampled. 'Unused bits' are taken both from the tree's own table and from the frozen reference table (pinned commit).",
    assumptions=["an opcode whose execution ends in a deliberate assertion/unimplemented exception is exempt from the second-step check (counted)"],
)
