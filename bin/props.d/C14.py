PROPS["C14"] = dict(
    jobs=[
        job("direct", "c14_apbp", cases={Q: 300, T: 60000}, mode="direct"),
        job("facade", "c14_apbp", cases={Q: 20, T: 1500}, mode="facade"),
        job("reentrant", "c14_reentrant", cases={Q: 30, T: 1500}),
    ],
    rule="reentrant job: 200-op histories on a fresh Teakra whose host semaphore handler calls back into the API (acknowledge all / a "
         "subset / look only / acknowledge and re-mask); after every operation S' (0x0D8 bit 9) must equal (semaphore & ~mask) != 0 "
         "on the values read back, and a rise without a handler call is a missed interrupt. Other jobs: "
         "random single-threaded histories (direct 200 ops, facade 600 ops on a fresh Teakra each). direct: two real Apbp objects (SendData/RecvData/PeekData/SetDisableInterrupt/"
         "Set|Clear|MaskSemaphore/handler replacement). facade: one Teakra; CPU side through the host API, DSP side through MMIO "
         "0x0C0-0x0D8 (REPLY write/peek, CMD read, SET/MASK/ACK/GET_SEMAPHORE, 0x0D4 disable bits, writes to read-only registers), "
         "DSP interrupt = ICU request bit 14 (0x200, acknowledged through 0x202), host interrupts = handler logs. After EVERY op all "
         "observables of both directions are compared with the independent model: ready flags (host API, 0x0D6, 0x0D8), peeked values, "
         "semaphore, mask, signal flag == ((semaphore & ~mask) != 0), interrupt on every rise / none while the flag stays 0, data "
         "interrupt exactly when enabled. Runs of 240 / 65 520 unread writes followed by 20 forced writes walk the count of consecutive unread writes through 256 / 65 536. reentrant job: every flag-raising call goes through an edge-predicting wrapper, also from inside the handler (styles incl. mask-all/service-one/unmask). distinct_nontrivial = distinct (op, ready/disable state or signal-flag edge rise/fall/stay0/stay1) keys",
    floors={
        Q: {"ops": 400000, "sem_rise": 15000, "sem_rise_by_unmask": 5000, "sem_stay0": 300000, "data_irq_expected": 30000,
            "data_irq_suppressed": 15000, "icu14_data_expected": 2500, "icu14_data_suppressed": 2500, "icu14_raise_observable": 4000,
            "host_data_irq_expected": 5000, "sem_rise_c2d": 1500, "sem_rise_d2c": 1500, "recv_value_checked": 40000,
            "sprime_checks": 60000},
        T: {"ops": 100000000, "sem_rise": 3000000, "sem_rise_by_unmask": 1000000, "sem_stay0": 60000000, "data_irq_expected": 6000000,
            "data_irq_suppressed": 3000000, "icu14_data_expected": 200000, "icu14_data_suppressed": 200000,
            "icu14_raise_observable": 300000, "host_data_irq_expected": 400000, "sem_rise_c2d": 120000, "sem_rise_d2c": 120000,
            "recv_value_checked": 8000000, "sprime_checks": 5000000},
    },
    ready=True,
    technique="runtime monitoring: lock-step independent model of both APBP directions against the real Apbp class and against the "
              "Teakra facade (host API + DSP-side MMIO + ICU request bit + handler logs)",
    level_text="Exploration: seeded random operation histories from both sides over 3 channels and 16 semaphore bits, every observable "
               "compared with an independent model after every operation; decides the property only for the histories produced "
               "(counts in evidence).",
    level_note="Trusts the harness model of the statement/apbp.md; single-threaded (interleavings under threads are C19); histories are 200 (direct) / 600 (facade) ops.",
    assumptions=["model transcribed from apbp.md and the property statement; S (0x0D6 bit 9) is the DSP-side flag of the CPU->DSP semaphore, "
                 "S' (0x0D8 bit 9, mirror of DSP_PSTS) the CPU-side flag of the DSP->CPU semaphore",
                 "a data write must invoke the peer's handler exactly once when enabled and not at all when disabled; a semaphore interrupt is "
                 "demanded on a 0->1 change of the flag, forbidden while it stays 0 and left free while the flag stays 1 or falls",
                 "values read before the first write of a channel are not constrained; Reset() is not part of the histories (C17)",
                 "the DSP->CPU direction has no reachable interrupt-disable bits through the facade"],
    exhaustive=False,
)
