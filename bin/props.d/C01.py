PROPS["C01"] = dict(
    jobs=[
        job("onestep", "c01_onestep", cases={Q: 600000, T: 12000000}, ref_harness="c01_onestep"),
        job("genstream", "c01_onestep", cases={Q: 2, T: 20}, mode="genstream"),
    ],
    crash_is_violation=True,
    rule="onestep: every one of the 65536 first words in every run (opcodes of handler classes with < 64 encodings "
         "weighted x8), second word from {0,0xFFFF,0x8000,window addresses,uniform}, seeded well-formed register states "
         "(boundary-biased, 25% with active loops / pending interrupts, 50% random pc); the same case stream is executed "
         "by the frozen reference build and by the working tree, compared by digest of outcome + every register field + "
         "ordered memory-access log; cases on which the reference does not complete are excluded and counted. "
         "genstream: every record of the tree's own test generator (one pass per shard and 'case') replayed as the "
         "verifier does. distinct_nontrivial = distinct interpreter handler names whose effect was compared",
    floors={Q: {"compared": 5000000, "pc_checked": 2000000}, T: {"compared": 100000000, "pc_checked": 20000000}},
    exhaustive=False,
    exhaustive_axis="the 65536 first words are all executed in every run; states and second words are sampled",
    ready=True,
    technique="runtime monitoring: differential execution against a frozen reference build + replay of the tree's own generator stream under a memory-access observer",
    level_text="Exploration: the real interpreter runs seeded single-instruction cases covering all 65536 opcodes; an identical case stream runs on the frozen hardware-validated reference (pinned commit) and digests of the complete observable effect are compared; generator vectors are replayed with an access-window monitor.",
    level_note="'Reference' is the pinned upstream-validated interpreter vendored in /verif/ref (hardware result files are not obtainable offline). States are sampled (boundary-biased); the opcode axis is complete.",
    assumptions=["the pinned commit embodies the hardware-validated semantics",
                 "well-formed state = every field within its hardware width, lp == (bcn != 0), prpage == 0"],
)
