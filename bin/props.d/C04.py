PROPS["C04"] = dict(
    jobs=[job("mulshift", "c04_mulshift", cases={Q: 125000, T: 12000000})],
    rule="one real interpreter step per case against independent multiplier / product-shifter / accumulate / barrel-shifter / "
         "exponent models (models/mul.h, models/shift.h): families scheduled round-robin by weight, every encoding of a family "
         "visited round-robin (handler + operand types from the tree's own decode table), well-formed random state with "
         "factor edges (0, +-1, 0x7FFF, 0x8000, 0xFFFF, 0x00FF, 0xFF00, random lengths), all ps / hwm / s / sat / sata, "
         "accumulators placed at carry / overflow / saturation boundaries relative to the products, shift amounts -48..48, "
         "+-39/40/41 edges and random 16-bit, shifted values at the overflow and 32-bit boundary of that amount; whole register "
         "state and data-memory writes compared. distinct_nontrivial = distinct (family, variant / ps / hwm or amount class / "
         "shift mode / sata or exponent value, event class plain|carry|overflow|saturating) keys executed and compared",
    floors={
        Q: {"cases": 1900000, "enc": 14000, "multiplications_hwm1": 100000, "multiplications_hwm2": 100000,
            "multiplications_hwm3": 100000, "product_reads_ps0": 100000, "product_reads_ps1": 100000,
            "product_reads_ps2": 100000, "product_reads_ps3": 100000, "multiplications_x_unsigned_y_signed": 50000,
            "multiplications_x_signed_y_unsigned": 20000, "multiplications_x_unsigned_y_unsigned": 8000,
            "products_pe_differs_from_bit31": 200, "product_reads_aligned": 50000,
            "shift_amount_<=-40": 15000, "shift_amount_-39..-1": 50000, "shift_amount_0": 2000,
            "shift_amount_1..39": 50000, "shift_amount_>=40": 15000, "shift_overflow": 15000, "shift_saturated": 10000,
            "shift_saturated_bound_sign_differs_from_result_sign": 3000, "shift_logical_mode": 60000,
            "mac_carry": 50000, "mac_overflow": 5000, "mac_saturated": 40000, "product_sum_saturated": 30000,
            "exp_cases": 50000, "exp_negative_result": 3000, "norm_active": 5000, "lim_saturated": 1000,
            "cond_true": 30000, "cond_false": 30000},
        T: {"cases": 120000000, "enc": 14000, "multiplications_hwm1": 6000000, "multiplications_hwm2": 6000000,
            "multiplications_hwm3": 6000000, "product_reads_ps0": 6000000, "product_reads_ps1": 6000000,
            "product_reads_ps2": 6000000, "product_reads_ps3": 6000000, "multiplications_x_unsigned_y_signed": 3000000,
            "multiplications_x_signed_y_unsigned": 1200000, "multiplications_x_unsigned_y_unsigned": 500000,
            "products_pe_differs_from_bit31": 12000, "product_reads_aligned": 3000000,
            "shift_amount_<=-40": 900000, "shift_amount_-39..-1": 3000000, "shift_amount_0": 120000,
            "shift_amount_1..39": 3000000, "shift_amount_>=40": 900000, "shift_overflow": 900000, "shift_saturated": 600000,
            "shift_saturated_bound_sign_differs_from_result_sign": 180000, "shift_logical_mode": 3600000,
            "mac_carry": 3000000, "mac_overflow": 300000, "mac_saturated": 2400000, "product_sum_saturated": 1800000,
            "exp_cases": 3000000, "exp_negative_result": 180000, "norm_active": 300000, "lim_saturated": 60000,
            "cond_true": 1800000, "cond_false": 1800000},
    },
    ready=True,
    technique="runtime monitoring: independent exact-arithmetic models (multiplier, product shifter, accumulate, barrel shifter, exponent) "
              "evaluated on the pre-state of every real interpreter step; full-state and memory-write frame check",
    level_text="Exploration: seeded, boundary-biased single-instruction cases over every encoding of the multiply, multiply-accumulate, "
               "product-sum, product-move, shift, move-and-shift, exponent, normalize and limit families; decides the property only for the "
               "cases produced (counts in evidence).",
    level_note="Trusts the harness models (written from the statement and DESIGN C04); samples the value space with boundary bias; "
               "addressing is linear (modulo / bit-reverse off), so address stepping beyond that is left to C10.",
    assumptions=[
        "carry after a shift is asserted only for |amount| <= 39 (amount 0 -> carry 0); for |amount| >= 40 it is left to C01",
        "in logical shift mode fv/fvl are not asserted; for two-product sums fc0/fv/fvl are not asserted (left to C01)",
        "m[]=br[]=0, epi=epj=0: effective addresses are the register values, post-modify is linear; addresses avoid the MMIO window 0x8000-0x87FF",
        "Register operands st0/st1/st2/cfgi/cfgj/pc are excluded (status views belong to C20); alm msu/sqr/sqra with a 40-bit register operand is unimplemented in the tree and excluded",
        "mov_p0h_to a 16-bit destination half replaces the whole accumulator (xl: zero-extended, xh: in bits 16-31 sign-extended, whole: sign-extended) with result flags; "
        "mov2 Px->memory stores the raw 32-bit product (not through the product shifter), mov2s/push/mov_p0h*/mov_p1_to read through it",
        "mov_sv_app: the product sum sees the newly loaded sv; norm: arithmetic left shift by one without a saturation stage, executed only while fn == 0; "
        "exp Ax forms load the sign-extended exponent without touching flags (hardware-validated behaviour of the interpreter)",
    ],
    exhaustive=False,
)
