PROPS["C15"] = dict(
    jobs=[job("timer", "c15_timer", cases={Q: 4000, T: 400000})],
    rule="random histories (60 ops) over two real Timer objects on one CoreTiming: config/start/restart/event writes, "
         "ticks and CoreTiming::Skip(max) with max in {0,1,horizon,horizon-1,random}; twin instance replays each skip "
         "as k single ticks; independent model checked after every op. The interrupt handler records the counter and mirror it sees (must read 0); one skip in three calls Timer::Skip directly with the horizon asked from the tick twin. distinct_nontrivial = distinct "
         "(op kind, modes, counter class 0/1/2/n/max, k==0?) keys that were executed and compared",
    floors={Q: {"op_skip": 1000, "skip_k0": 50, "irq_fired": 100}, T: {"op_skip": 100000, "skip_k0": 5000, "irq_fired": 10000}},
    ready=True,
    technique="runtime monitoring: lock-step reference model + Skip-vs-Tick twin execution of the real Timer/CoreTiming",
    level_text="Exploration: seeded random operation histories on the real Timer objects, every step compared against an independent model and a single-stepped twin; decides the property only for the histories produced (counts in evidence).",
    level_note="Trusts the harness model of timer.md semantics; samples the 32-bit value space with boundary bias; histories are 60 ops long.",
    assumptions=["timer scale stays 0 and count mode < 4 (other values end in a deliberate assertion)",
                 "model transcribed from timer.md and the property statement"],
)
