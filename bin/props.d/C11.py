PROPS["C11"] = dict(
    jobs=[job("memviews", "c11_memviews", cases={Q: 24, T: 1500}),
          # same histories under ASan+UBSan (raw pointer, user-supplied buffer, interpreter accesses at the array borders)
          job("asan", "c11_memviews", flavour="asan", cases={Q: 3, T: 100}),
          # every instruction handler of the decode table with its pointers inside the MMIO window: window twin (A) vs
          # relocated-window twin (B), SharedMemory observer on both
          job("forms", "c11_forms", cases={Q: 1000, T: 40000}),
          # the same host-accessor histories through the C binding and through the C++ facade (two instances), every return
          # value, callback and the memory digest compared
          job("bindings", "c17_history", cases={Q: 60, T: 3000}, mode="capi", args={"prop": "C11", "hostbias": 70})],
    crash_is_violation=True,
    rule="per case one Teakra facade (even cases: owned memory, odd cases: UserConfig.dsp_memory) with random contents and a "
         "history of 20000 operations chosen among ProgramRead/Write, DataRead/Write with and without bypass_mmio, "
         "DataReadA32/WriteA32, raw-pointer byte/word accesses, z_page and mmio_base changes (all 64 multiples of 0x400 and "
         "random 16-bit bases; also through the window itself), guest loads/stores through the forms [page:imm8], [imm16], "
         "[r7+imm16], [r7+imm7s], [rN]/[rN++], movp [a0l]/[a0]/[rN]->[rM], movd, an instruction-fetch probe and a fetch-after-guest-store probe "
         "(code in the data bank rewrites the next word, or - under rep - its own word, within one Run call; the rewritten instruction must be the one executed); guest code is "
         "one instruction laid down through a random view at a random program address and run with Run(1). After every "
         "operation the touched word is read through raw pointer, ProgramRead, DataReadA32, DataRead(bypass) and DataRead; "
         "the whole array is compared every 64 operations. Accesses honouring the MMIO window are steered to side-effect-free "
         "probe registers (0x000, 0x7FF, timer start 0x24/0x26/0x34/0x36, ICU vector 0x214). distinct_nontrivial = distinct "
         "(operation/addressing form, memory region prog/bank0/bank1, window/bypassed/memory, probe register) keys executed and compared "
         "+ (instruction handler, r/w/rw) pairs whose window accesses were observed by the forms monitor. forms: cases rotate over ALL handlers of "
         "the decode table, r0-r7/page/second word pointing at storage registers inside the window; one Run(1) on a facade with the window at 0x8000 (A) "
         "and on one with the window relocated to 0xF800 and the register values laid down in memory (B); the SharedMemory observer must see no access "
         "of A to the words under the window, those words stay unchanged, and when B only touched storage registers A and B end in the same register "
         "state, the same accesses elsewhere, and A's registers read back what B's memory holds. bindings: histories of 10-60 host calls (70% memory accessors: "
         "DataReadA32/WriteA32 incl. addresses >= 0x10000 and under the window, ProgramRead, DataRead/Write without bypass on window registers, z_page / "
         "MMIO base changes, DMA/AHBM getters; 30% the C17 operation mix incl. Run of generated guest programs) applied to a C++ Teakra and to a teakra_c "
         "context; all return values, callback logs, MMIO read-backs and the memory digest must agree",
    floors={Q: {"ops": 5000000, "guest_instructions": 1800000, "guest_loads": 500000, "guest_stores": 600000, "fetch_probes": 200000, "fetch_after_store_probes": 100000,
                "guest_program_loads": 200000, "guest_movd": 100000, "guest_movp_mem": 100000,
                "mmio_window_writes": 200000, "mmio_window_reads": 150000, "mmio_window_zpage1_assert": 150000,
                "bypass_writes_inside_window": 30000, "bypass_reads_inside_window": 30000, "full_compares": 80000,
                "mmio_bases_probed": 1000, "mmio_documented_positions_probed": 64, "cases_user_memory": 150,
                "cases_owned_memory": 150, "z_page_switches": 100000, "config_through_window": 30000,
                "cases_with_window_access": 3000, "value_twins_compared": 1500, "window_handlers": 60,
                "op_a32-write": 3000, "op_a32-read": 3000, "op_data-nobypass": 2000},
            T: {"ops": 150000000, "guest_instructions": 40000000, "mmio_window_writes": 2000000, "mmio_window_reads": 2000000,
                "mmio_window_zpage1_assert": 500000, "mmio_bases_probed": 10000, "mmio_documented_positions_probed": 64, "full_compares": 2000000,
                "cases_with_window_access": 120000, "value_twins_compared": 60000, "window_handlers": 60,
                "op_a32-write": 150000, "op_a32-read": 150000, "op_data-nobypass": 100000}},
    ready=True,
    technique="runtime monitoring: byte-array reference model of the shared memory compared through every host and guest view of "
              "the real Teakra facade after each operation; window twin vs relocated-window twin under the memory observer for every instruction handler; C binding vs C++ facade twin",
    level_text="Exploration: seeded random histories interleaving all host accessors, the raw pointer and interpreter-executed "
               "loads/stores/fetches on the real facade; every touched cell is compared through all views against a byte-array "
               "model; decides the property only for the histories produced (counts in evidence).",
    level_note="Samples the 2^18 x 2^16 address/value space with boundary bias (region borders, window edges); one opcode per "
               "addressing form; window accesses restricted to seven probe registers; page_mode stays 0.",
    assumptions=["page_mode == 0 (default paging), x_page/y_page untouched, z_page in {0,1} (larger values end in a deliberate assertion)",
                 "an MMIO-window access with z_page == 1 ends in the deliberate ASSERT(z_page == 0): counted, not flagged",
                 "the window does not wrap around 0xFFFF: addresses below base+0x800-0x10000 are not accessed without bypass",
                 "DataReadA32/WriteA32 addresses stay below 0x20000",
                 "guest accumulator operands stay inside the 32-bit range so that no saturation applies on stores"],
    exhaustive=False,
)
