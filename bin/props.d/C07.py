PROPS["C07"] = dict(
    jobs=[job("histories", "c07_interrupts", cases={Q: 200, T: 10000}),
          job("wiring", "c07_interrupts", cases={Q: 40, T: 400}, mode="wiring", shards=4)],
    rule="histories of 400 single-stepped instruction boundaries on the real Teakra facade; before each step the harness "
         "feeds one instruction from a fixed pool (nop/inc/eint/dint/mov #imm,mod3|st0|st2/rep #n/br/cntx/reti/retic) at "
         "the current pc and applies random host operations (software trigger 0x204, acknowledge 0x202, re-routing "
         "0x206-0x20C and vectors, SendData, timer expiry, DMA start); an independent ICU+core model predicts pc, sp, pushed "
         "return address, ie, ip*, im*, pending register after every step. wiring mode: each peripheral source raises exactly "
         "its documented IRQ bit. Fed instructions include the guest's own software trigger (mov a0l,[0x8204]), preferably while another request sits in the latch (a request raised by the instruction at whose end another one is entered). distinct_nontrivial = distinct (line entered, instruction after which it was entered, nesting depth, request previously held back by a mask?) + wiring sources",
    floors={Q: {"entries_line0": 1000, "entries_line1": 1000, "entries_line2": 1000, "entries_line3": 1000,
                "steps_with_masked_request_held": 5000, "steps_inside_rep": 1000, "op_ack": 1000, "wiring_checked": 100},
            T: {"entries_line0": 50000, "entries_line1": 50000, "entries_line2": 50000, "entries_line3": 50000,
                "steps_with_masked_request_held": 250000, "steps_inside_rep": 50000, "op_ack": 50000, "wiring_checked": 1000}},
    ready=True,
    technique="runtime monitoring: lock-step independent ICU/interrupt-core model against the single-stepped real emulator under random trigger/ack/route/mask histories",
    level_text="Exploration: seeded histories of trigger/acknowledge/route/mask/enable operations interleaved with instruction boundaries on the real facade; every step compared with an independent model of the statement.",
    level_note="Guest instructions come from a fixed pool whose effect on ie/im/ip/pc/sp the model knows; context store is modelled only in its effect on the interrupt mask bank. Vectors are always written before routing is enabled.",
    assumptions=["icu.md + the property statement define the model", "400 steps per history"],
)
