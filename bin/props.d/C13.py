PROPS["C13"] = dict(
    jobs=[job("dma", "c13_dma", cases={Q: 80, T: 2000}),
          # same workload under ASan+UBSan: the configurations outside the statement (unaligned / 8-bit / partial bursts) are
          # executed for sanitizer coverage; a sanitizer abort kills the worker and becomes a violation (crash_is_violation)
          job("asan", "c13_dma", flavour="asan", cases={Q: 6, T: 200})],
    crash_is_violation=True,
    rule="per case one Teakra facade (owned or user-supplied memory, random contents) and up to 24 transfers programmed "
         "through MMIO (0x1BE/0x1C0..0x1DE, AHBM 0x0E2..; all 8 DMA channels, 3 AHBM channels, bitmask routing): spaces "
         "{dsp,ext}^2, word/double-word, size0/1/2 in {0,1,small,16-bit edges}, steps {0,1,unit,odd,16-bit}, bursts x1/x4/x8, "
         "overlapping ranges; <= 2^20 elements; DSP-side walks stay inside the 0x20000-word data area; double-word mode with "
         "size0 == 0xFFFF is excluded (known defect D8: never terminates). External sides outside the statement (8-bit or "
         "mismatching unit, unaligned address, burst with non-contiguous walk / partial last burst / ext>ext) are executed "
         "but only 'nothing else changed' and the interrupt are checked. Completions are acknowledged only some of the time (a completion must raise its interrupt also while bit 15 is still pending); one external transfer in six is first attempted with callbacks that throw and then restarted on the same channel. distinct_nontrivial = distinct (spaces, mode, unit, "
         "burst, which dimensions > 1, which sizes are 0, overlap, DMA channel) keys of fully value-checked transfers",
    floors={Q: {"transfers": 10000, "irq_exactly_once": 10000, "ext_checked_transfers": 2000, "burst_checked_transfers": 300,
                "ext_log_entries_compared": 50000, "overlapping_transfers": 500, "three_dimensional_transfers": 1500,
                "zero_size_transfers": 1000, "ext_exec_only_transfers": 500, "big_transfers": 5, "size_16bit_edge_transfers": 50,
                **{"dma_channel_%d" % i: 1000 for i in range(8)}, **{"ahbm_channel_%d" % i: 1500 for i in range(3)}},
            T: {"transfers": 400000, "irq_exactly_once": 400000, "ext_checked_transfers": 150000, "burst_checked_transfers": 50000,
                "overlapping_transfers": 80000, "three_dimensional_transfers": 150000, "zero_size_transfers": 100000,
                "big_transfers": 300, "size_16bit_edge_transfers": 3000}},
    ready=True,
    technique="runtime monitoring: lock-step reference model of the 3-D element walk and of aligned external accesses, next to the real "
              "Teakra facade driven through MMIO with a logging sparse external memory",
    level_text="Exploration: seeded random DMA/AHBM configurations executed on the real facade; after every transfer the whole DSP "
               "memory, the external memory, the ordered external read/write logs and the interrupt count are compared with an "
               "independent model; decides the property only for the configurations produced (counts in evidence).",
    level_note="Trusts the harness model of dma.md/ahbm.md; samples the 16-bit size/step space with boundary bias; at most 2^20 "
               "elements per transfer; interrupt count observed at ICU::Trigger (yield hook) and ICU pending bit 15.",
    assumptions=["DSP-side addresses stay below 0x20000 words (beyond is property C18's subject)",
                 "double-word mode with size0 == 0xFFFF excluded (known defect D8, non-termination)",
                 "odd size0 in double-word mode copies ceil(size0/2) elements (counter reaches size0)",
                 "step values are added unsigned, as dma.md says 'as-is'",
                 "only source/destination spaces 0 (DSP) and 7 (external); one AHBM channel claims the DMA channel in use",
                 "external accesses are value-checked only for unit == element width at aligned addresses; with bursts only for a "
                 "contiguous walk whose element count is a multiple of the burst length"],
    exhaustive=False,
)
