"""Per-property check configuration: which harness binaries (jobs) run in which build flavour, with how many
cases per shard in each tier, the floors below which a run is inconclusive, and the evidence 'rule'.
Each property lives in its own fragment bin/props.d/Cnn.py which assigns PROPS["Cnn"] = dict(...)."""
import glob
import os

Q, T = "quick", "thorough"


def job(name, harness, flavour="fast", cases=None, shards=16, mode="", **kw):
    d = dict(name=name, harness=harness, flavour=flavour, cases=cases or {Q: 1000, T: 100000}, shards=shards, mode=mode)
    d.update(kw)
    return d


PROPS = {}
for _f in sorted(glob.glob(os.path.join(os.path.dirname(os.path.abspath(__file__)), "props.d", "C*.py"))):
    exec(compile(open(_f).read(), _f, "exec"), dict(PROPS=PROPS, job=job, Q=Q, T=T))
