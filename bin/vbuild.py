#!/usr/bin/env python3
"""Content-addressed builds of the current /repo working tree (or the frozen /verif/ref) plus harnesses.

  vbuild.py <flavour> <harness> [<harness> ...]     -> prints the binary paths
  flavours: fast asan tsan fuzz ref

Sources are globbed from <root>/src/*.cpp (not from the repo's CMake), so a changed or added file is
picked up. The library hash covers every file under <root>/src (top level) and <root>/include, the
shim sources and the flags; a hit is reused, a changed tree rebuilds. Concurrent callers serialise on
a lock file per flavour.
"""
import fcntl
import glob
import hashlib
import os
import re
import shutil
import subprocess
import sys
import time
from concurrent.futures import ThreadPoolExecutor

VERIF = os.path.dirname(os.path.dirname(os.path.abspath(__file__)))
REPO = os.environ.get("VERIF_REPO", "/repo")
BUILD = os.path.join(VERIF, ".build")
HARNESS = os.path.join(VERIF, "harness")
CXX = "clang++"

COMMON = ["-std=c++17", "-DTEAKRA_VERIF", "-pthread", "-Wno-unused-value"]
FLAVOURS = {
    "fast": dict(root=REPO, cflags=["-O2", "-g1"], ldflags=[]),
    "ref": dict(root=os.path.join(VERIF, "ref"), cflags=["-O2", "-g1"], ldflags=[]),
    # for valgrind 3.19, which cannot read clang 14's default DWARF 5
    "vg": dict(root=REPO, cflags=["-O1", "-gdwarf-4", "-fno-omit-frame-pointer"], ldflags=[]),
    "asan": dict(root=REPO,
                 cflags=["-O1", "-g", "-fno-omit-frame-pointer", "-fsanitize=address,undefined",
                         "-fno-sanitize-recover=all", "-fno-sanitize=object-size",
                         "-D_GLIBCXX_ASSERTIONS"],
                 ldflags=["-fsanitize=address,undefined"]),
    "tsan": dict(root=REPO, cflags=["-O1", "-g", "-fsanitize=thread"], ldflags=["-fsanitize=thread"]),
    "fuzz": dict(root=REPO,
                 cflags=["-O1", "-g", "-fno-omit-frame-pointer",
                         "-fsanitize=fuzzer-no-link,address,undefined", "-fno-sanitize-recover=all",
                         "-fno-sanitize=object-size", "-D_GLIBCXX_ASSERTIONS"],
                 ldflags=["-fsanitize=fuzzer,address,undefined"]),
}

# extra tool binaries built from the tree's own sources (C05 firmware clause)
TOOLS = {
    "makedsp1": ["src/makedsp1/main.cpp", "src/makedsp1/sha256.cpp"],
    "dsp1_reader": ["src/dsp1_reader/main.cpp"],
}


def log(msg):
    sys.stderr.write("[vbuild] %s\n" % msg)
    sys.stderr.flush()


def file_hash(paths, extra=""):
    h = hashlib.sha256()
    h.update(extra.encode())
    for p in sorted(paths):
        h.update(p.encode())
        try:
            with open(p, "rb") as f:
                h.update(f.read())
        except OSError:
            h.update(b"<missing>")
    return h.hexdigest()[:16]


def lib_sources(root):
    return sorted(glob.glob(os.path.join(root, "src", "*.cpp")))


def lib_inputs(root):
    files = glob.glob(os.path.join(root, "src", "*.cpp")) + glob.glob(os.path.join(root, "src", "*.h"))
    for d, _, fs in os.walk(os.path.join(root, "include")):
        files += [os.path.join(d, f) for f in fs]
    for t in TOOLS.values():
        files += [os.path.join(root, s) for s in t]
    files += glob.glob(os.path.join(HARNESS, "common", "core_shim.*"))
    files += [os.path.join(HARNESS, "common", "gen_rec.py")]
    return files


def includes(root, libdir):
    return ["-I" + os.path.join(root, "src"), "-I" + os.path.join(root, "include"),
            "-I" + os.path.join(root, "include", "teakra", "impl"),
            "-I" + os.path.join(HARNESS, "common"), "-I" + HARNESS, "-I" + os.path.join(libdir, "gen")]


def run(cmd, what):
    t = time.time()
    p = subprocess.run(cmd, stdout=subprocess.PIPE, stderr=subprocess.STDOUT, text=True)
    if p.returncode != 0:
        log("FAILED %s\n%s\n%s" % (what, " ".join(cmd), p.stdout[-6000:]))
        raise SystemExit(2)
    return time.time() - t


def ensure_lib(flavour):
    cfg = FLAVOURS[flavour]
    root = cfg["root"]
    flags = COMMON + cfg["cflags"]
    h = file_hash(lib_inputs(root), " ".join(flags) + root)
    libdir = os.path.join(BUILD, flavour, h)
    stamp = os.path.join(libdir, "lib.ok")
    if os.path.exists(stamp):
        os.utime(libdir)
        return libdir
    t0 = time.time()
    shutil.rmtree(libdir, ignore_errors=True)
    os.makedirs(os.path.join(libdir, "obj"))
    os.makedirs(os.path.join(libdir, "gen"))
    os.makedirs(os.path.join(libdir, "bin"))
    # generated recording-visitor handler list from the tree's own INST( ) table
    subprocess.check_call([sys.executable, os.path.join(HARNESS, "common", "gen_rec.py"),
                           os.path.join(root, "src", "decoder.h"), os.path.join(libdir, "gen", "rec_names.inc")])
    srcs = lib_sources(root) + [os.path.join(HARNESS, "common", "core_shim.cpp")]
    jobs = []
    for s in srcs:
        o = os.path.join(libdir, "obj", os.path.basename(s)[:-4] + ".o")
        jobs.append(([CXX] + flags + includes(root, libdir) + ["-c", s, "-o", o], s))
    with ThreadPoolExecutor(max_workers=16) as ex:
        list(ex.map(lambda j: run(j[0], j[1]), jobs))
    objs = sorted(glob.glob(os.path.join(libdir, "obj", "*.o")))
    run(["ar", "rcs", os.path.join(libdir, "libteakra_verif.a")] + objs, "ar")
    if flavour == "fast":
        for name, tsrcs in TOOLS.items():
            cmd = [CXX, "-std=c++17", "-O1", "-I" + os.path.join(root, "src"), "-I" + os.path.join(root, "include")]
            cmd += [os.path.join(root, s) for s in tsrcs]
            cmd += [os.path.join(libdir, "libteakra_verif.a"), "-pthread", "-o", os.path.join(libdir, "bin", name)]
            try:
                run(cmd, name)
            except SystemExit:
                log("tool %s did not build (C05 firmware clause will report it)" % name)
    open(stamp, "w").write("ok\n")
    log("built %s library %s in %.1fs" % (flavour, h, time.time() - t0))
    prune(flavour, keep=libdir)
    return libdir


def prune(flavour, keep):
    """drop build dirs of other trees, but never one that was used in the last 2 hours (another check may be
    running workers from it) and always keep the 3 most recent"""
    d = os.path.join(BUILD, flavour)
    subs = [os.path.join(d, x) for x in os.listdir(d)]
    subs = [s for s in subs if os.path.isdir(s) and s != keep]
    subs.sort(key=lambda s: os.path.getmtime(s), reverse=True)
    now = time.time()
    for s in subs[3:]:
        if now - os.path.getmtime(s) > 2 * 3600:
            shutil.rmtree(s, ignore_errors=True)


def harness_deps(src):
    """the harness source plus every header under harness/ (cheap and safe)"""
    deps = [src]
    deps += glob.glob(os.path.join(HARNESS, "common", "*.h"))
    deps += glob.glob(os.path.join(HARNESS, "models", "*.h"))
    return deps


def ensure_harness(flavour, libdir, name):
    cfg = FLAVOURS[flavour]
    root = cfg["root"]
    src = os.path.join(HARNESS, name + ".cpp")
    if not os.path.exists(src):
        log("no such harness %s" % src)
        raise SystemExit(2)
    flags = COMMON + cfg["cflags"]
    hh = file_hash(harness_deps(src), " ".join(flags + cfg["ldflags"]))
    out = os.path.join(libdir, "bin", "%s-%s" % (name, hh))
    if os.path.exists(out):
        return out
    for old in glob.glob(os.path.join(libdir, "bin", name + "-*")):
        os.remove(old)
    tmp = out + ".tmp%d" % os.getpid()
    cmd = [CXX] + flags + includes(root, libdir) + [src, os.path.join(libdir, "libteakra_verif.a")]
    cmd += cfg["ldflags"] + ["-pthread", "-ldl", "-rdynamic", "-o", tmp]
    dt = run(cmd, name)
    os.rename(tmp, out)
    log("built %s/%s in %.1fs" % (flavour, name, dt))
    return out


def ensure(flavour, harnesses):
    os.makedirs(os.path.join(BUILD, flavour), exist_ok=True)
    cfg = FLAVOURS[flavour]
    # one lock per (flavour, tree content): checks of different trees do not wait for each other
    h = file_hash(lib_inputs(cfg["root"]), " ".join(COMMON + cfg["cflags"]) + cfg["root"])
    lock = open(os.path.join(BUILD, flavour, h + ".lock"), "w")
    fcntl.flock(lock, fcntl.LOCK_EX)
    try:
        libdir = ensure_lib(flavour)
        with ThreadPoolExecutor(max_workers=16) as ex:
            outs = list(ex.map(lambda n: ensure_harness(flavour, libdir, n), harnesses))
        return libdir, dict(zip(harnesses, outs))
    finally:
        fcntl.flock(lock, fcntl.LOCK_UN)
        lock.close()


if __name__ == "__main__":
    if len(sys.argv) < 2 or sys.argv[1] not in FLAVOURS:
        sys.stderr.write(__doc__)
        sys.exit(2)
    libdir, outs = ensure(sys.argv[1], sys.argv[2:])
    print(libdir)
    for n, o in outs.items():
        print(n, o)
